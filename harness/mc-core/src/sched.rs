//! Stateless exploration of choice sequences with iterative deviation bounding.
//!
//! The body is a closure that runs one complete execution of the real code and asks the
//! `Chooser` at every point of nondeterminism it owns (which enabled task to poll next, which
//! message to deliver, whether call k fails, ...). Choice 0 is always the *default* (FIFO / no
//! fault); any other choice is one *deviation*. `explore` runs every choice sequence with at most
//! `bound` deviations, each exactly once: an execution with prefix P is expanded only at points
//! at or after |P| (the standard stateless scheme). Replaying a prefix must meet the same number of
//! alternatives at every point — otherwise the harness does not own all nondeterminism, which
//! is a machinery error.
use crate::run::Run;
use serde_json::json;
use std::collections::VecDeque;
use std::sync::atomic::{AtomicBool, AtomicU64, Ordering};
use std::sync::{Condvar, Mutex};
use std::time::{Duration, Instant};

pub struct Chooser {
    prefix: Vec<u32>,
    /// n recorded for each prefix point by the parent execution (for divergence detection)
    prefix_n: Vec<u32>,
    pos: usize,
    pub trace: Vec<(u32, u32)>,
    pub labels: Vec<String>,
    pub diverged: Option<String>,
}

impl Chooser {
    pub fn new(prefix: Vec<u32>, prefix_n: Vec<u32>) -> Chooser {
        Chooser { prefix, prefix_n, pos: 0, trace: vec![], labels: vec![], diverged: None }
    }
    /// Choose among `n` alternatives (n >= 1). Alternative 0 is the default.
    pub fn choose(&mut self, n: usize, label: &str) -> usize {
        assert!(n >= 1, "choose() with no alternatives");
        let c = if self.pos < self.prefix.len() {
            let c = self.prefix[self.pos];
            // the last prefix element is the new alternative; the earlier ones were observed
            if self.pos < self.prefix_n.len() && self.prefix_n[self.pos] != n as u32 && self.diverged.is_none() {
                self.diverged = Some(format!(
                    "point {} had {} alternatives in the parent execution, {} now ({})",
                    self.pos, self.prefix_n[self.pos], n, label
                ));
            }
            if c as usize >= n {
                if self.diverged.is_none() {
                    self.diverged = Some(format!("point {}: choice {} out of range {} ({})", self.pos, c, n, label));
                }
                0
            } else {
                c
            }
        } else {
            0
        };
        self.trace.push((c, n as u32));
        self.labels.push(label.to_string());
        self.pos += 1;
        c as usize
    }
    pub fn choices(&self) -> Vec<u32> {
        self.trace.iter().map(|t| t.0).collect()
    }
    pub fn deviations(&self) -> usize {
        self.trace.iter().filter(|t| t.0 != 0).count()
    }
    pub fn describe(&self) -> serde_json::Value {
        json!(self
            .trace
            .iter()
            .zip(self.labels.iter())
            .map(|((c, n), l)| format!("{l}:{c}/{n}"))
            .collect::<Vec<_>>())
    }
}

#[derive(Clone, Debug, Default)]
pub struct SchedStats {
    pub executions: u64,
    pub max_points: u64,
    pub bound: usize,
    pub capped: bool,
}

pub struct SchedOpts {
    pub label: String,
    pub bound: usize,
    pub wall_cap: Option<Duration>,
    pub exec_cap: Option<u64>,
}

/// Explore every choice sequence with at most `bound` deviations. `body` runs one execution; it
/// reports violations itself through `run` (it gets the chooser so that the schedule can be put
/// in the witness). Executions run in parallel on worker threads.
pub fn explore<F>(run: &Run, opts: SchedOpts, body: F) -> SchedStats
where
    F: Fn(&mut Chooser) + Sync,
{
    let start = Instant::now();
    let queue: Mutex<(VecDeque<(Vec<u32>, Vec<u32>)>, usize)> = Mutex::new((VecDeque::new(), 0));
    queue.lock().unwrap().0.push_back((vec![], vec![]));
    let cv = Condvar::new();
    let execs = AtomicU64::new(0);
    let maxp = AtomicU64::new(0);
    // nodes of the schedule tree (distinct schedule prefixes reached) and executions with a real choice
    let tree_nodes = AtomicU64::new(1);
    let nontrivial = AtomicU64::new(0);
    let capped = AtomicBool::new(false);
    let diverged: Mutex<Option<String>> = Mutex::new(None);
    std::thread::scope(|sc| {
        for _ in 0..crate::workers() {
            sc.spawn(|| loop {
                let item = {
                    let mut g = queue.lock().unwrap();
                    loop {
                        if capped.load(Ordering::Relaxed) {
                            break None;
                        }
                        // depth-first: take from the back to keep the queue small
                        if let Some(it) = g.0.pop_back() {
                            g.1 += 1;
                            break Some(it);
                        }
                        if g.1 == 0 {
                            break None;
                        }
                        g = cv.wait(g).unwrap();
                    }
                };
                let Some((prefix, prefix_n)) = item else {
                    cv.notify_all();
                    break;
                };
                let plen = prefix.len();
                let mut ch = Chooser::new(prefix, prefix_n);
                // a panic in the body must not leave the other workers waiting forever
                if let Err(p) = std::panic::catch_unwind(std::panic::AssertUnwindSafe(|| body(&mut ch))) {
                    let msg = p.downcast_ref::<&str>().map(|s| s.to_string()).or_else(|| p.downcast_ref::<String>().cloned()).unwrap_or_else(|| "panic".into());
                    *diverged.lock().unwrap() = Some(format!("the execution body panicked: {msg} (choices so far {:?})", ch.choices()));
                    capped.store(true, Ordering::Relaxed);
                }
                if let Some(d) = ch.diverged.take() {
                    *diverged.lock().unwrap() = Some(d);
                    capped.store(true, Ordering::Relaxed);
                }
                let e = execs.fetch_add(1, Ordering::Relaxed) + 1;
                maxp.fetch_max(ch.trace.len() as u64, Ordering::Relaxed);
                tree_nodes.fetch_add(ch.trace.len().saturating_sub(plen.saturating_sub(1).min(ch.trace.len())) as u64, Ordering::Relaxed);
                if ch.trace.iter().any(|t| t.1 > 1) {
                    nontrivial.fetch_add(1, Ordering::Relaxed);
                }
                if e <= 2 {
                    run.sample(json!({"search": opts.label, "schedule": ch.describe()}));
                }
                if ch.pos < plen {
                    *diverged.lock().unwrap() =
                        Some(format!("execution ended after {} points but its prefix has {}", ch.pos, plen));
                    capped.store(true, Ordering::Relaxed);
                }
                let mut new_items = vec![];
                let choices = ch.choices();
                let ns: Vec<u32> = ch.trace.iter().map(|t| t.1).collect();
                let mut dev = choices[..plen.min(choices.len())].iter().filter(|c| **c != 0).count();
                for i in plen..choices.len() {
                    if dev + 1 <= opts.bound {
                        for alt in 1..ns[i] {
                            let mut p = choices[..i].to_vec();
                            p.push(alt);
                            new_items.push((p, ns[..i].to_vec()));
                        }
                    }
                    if choices[i] != 0 {
                        dev += 1;
                    }
                }
                if let Some(c) = opts.exec_cap {
                    if e >= c {
                        capped.store(true, Ordering::Relaxed);
                    }
                }
                if let Some(c) = opts.wall_cap {
                    if start.elapsed() > c {
                        capped.store(true, Ordering::Relaxed);
                    }
                }
                if crate::budget_spent() {
                    capped.store(true, Ordering::Relaxed);
                }
                let mut g = queue.lock().unwrap();
                // push in reverse so that the simplest alternative is popped first
                for it in new_items.into_iter().rev() {
                    g.0.push_back(it);
                }
                g.1 -= 1;
                drop(g);
                cv.notify_all();
            });
        }
    });
    if let Some(d) = diverged.into_inner().unwrap() {
        run.machinery_error(&format!("sched:{} replay divergence: {d}", opts.label));
    }
    let remaining = queue.lock().unwrap().0.len();
    let st = SchedStats {
        executions: execs.load(Ordering::Relaxed),
        max_points: maxp.load(Ordering::Relaxed),
        bound: opts.bound,
        capped: capped.load(Ordering::Relaxed) && remaining > 0,
    };
    // states = distinct schedule prefixes reached (nodes of the explored schedule tree), transitions = its edges
    let nodes = tree_nodes.load(Ordering::Relaxed);
    run.count("schedules", st.executions);
    run.count("states", nodes);
    run.count("transitions", nodes.saturating_sub(1));
    run.count("traces_validated_against_impl", st.executions);
    run.add_cases(st.executions, nontrivial.load(Ordering::Relaxed));
    run.extra(
        &format!("sched:{}", opts.label),
        json!({"executions": st.executions, "deviation_bound_completed": if st.capped { json!(null) } else { json!(st.bound) },
               "deviation_bound_requested": st.bound, "max_choice_points": st.max_points, "capped": st.capped}),
    );
    if st.capped {
        run.cap_hit(&format!("sched:{} stopped by cap after {} executions (bound {})", opts.label, st.executions, st.bound));
    }
    println!(
        "[{}] sched:{} executions={} bound={} max_points={} capped={}",
        run.id, opts.label, st.executions, st.bound, st.max_points, st.capped
    );
    st
}

/// Single-threaded variant of `explore` for callers that parallelise over inputs themselves.
/// Returns (executions, max choice points). A replay divergence panics (machinery error).
pub fn explore_seq(bound: usize, mut body: impl FnMut(&mut Chooser)) -> (u64, u64, u64) {
    let mut stack: Vec<(Vec<u32>, Vec<u32>)> = vec![(vec![], vec![])];
    let (mut execs, mut maxp, mut nodes) = (0u64, 0u64, 1u64);
    while let Some((prefix, prefix_n)) = stack.pop() {
        if crate::budget_spent() {
            break;
        }
        let plen = prefix.len();
        let mut ch = Chooser::new(prefix, prefix_n);
        body(&mut ch);
        if let Some(d) = ch.diverged.take() {
            panic!("schedule replay divergence: {d}");
        }
        execs += 1;
        maxp = maxp.max(ch.trace.len() as u64);
        nodes += ch.trace.len().saturating_sub(plen.saturating_sub(1).min(ch.trace.len())) as u64;
        let choices = ch.choices();
        let ns: Vec<u32> = ch.trace.iter().map(|t| t.1).collect();
        let mut dev = choices[..plen.min(choices.len())].iter().filter(|c| **c != 0).count();
        let mut new_items = vec![];
        for i in plen..choices.len() {
            if dev + 1 <= bound {
                for alt in 1..ns[i] {
                    let mut p = choices[..i].to_vec();
                    p.push(alt);
                    new_items.push((p, ns[..i].to_vec()));
                }
            }
            if choices[i] != 0 {
                dev += 1;
            }
        }
        for it in new_items.into_iter().rev() {
            stack.push(it);
        }
    }
    (execs, maxp, nodes)
}
