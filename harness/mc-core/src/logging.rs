//! Logging as part of the environment. A node runs with a `tracing` subscriber (ant-logging's default level for the
//! repository's own crates is TRACE), and a `tracing` macro only evaluates its arguments when some subscriber is
//! interested in the call site. Without a subscriber, code such as `error!("... {}", &hex[0..6])` is never executed by a
//! harness, with one it is. Every check binary therefore installs this subscriber: it is interested in every event and
//! span of the repository's crates (and in warnings and errors of everything else), formats every field into a null
//! sink — which is what evaluates the arguments — and keeps nothing.
use std::fmt::Write;
use std::sync::atomic::{AtomicU64, Ordering};
use tracing::field::{Field, Visit};
use tracing::span::{Attributes, Id, Record};
use tracing::{Event, Level, Metadata, Subscriber};

pub static EVENTS: AtomicU64 = AtomicU64::new(0);

struct Null;
impl Write for Null {
    fn write_str(&mut self, _s: &str) -> std::fmt::Result {
        Ok(())
    }
}

struct Eval;
impl Visit for Eval {
    fn record_debug(&mut self, _field: &Field, value: &dyn std::fmt::Debug) {
        let _ = write!(Null, "{value:?}");
    }
}

struct EvalAll {
    next: AtomicU64,
}

const OWN: [&str; 8] = ["ant_", "ant-", "autonomi", "evmlib", "antnode", "antctl", "node_launchpad", "nat_detection"];

impl Subscriber for EvalAll {
    fn enabled(&self, m: &Metadata<'_>) -> bool {
        *m.level() <= Level::WARN || OWN.iter().any(|p| m.target().starts_with(p))
    }
    fn new_span(&self, attrs: &Attributes<'_>) -> Id {
        attrs.record(&mut Eval);
        Id::from_u64(self.next.fetch_add(1, Ordering::Relaxed).max(1))
    }
    fn record(&self, _span: &Id, values: &Record<'_>) {
        values.record(&mut Eval);
    }
    fn record_follows_from(&self, _span: &Id, _follows: &Id) {}
    fn event(&self, event: &Event<'_>) {
        EVENTS.fetch_add(1, Ordering::Relaxed);
        event.record(&mut Eval);
    }
    fn enter(&self, _span: &Id) {}
    fn exit(&self, _span: &Id) {}
}

/// Install the subscriber for the whole process (idempotent; a second call is ignored).
pub fn install() {
    if std::env::var("VERIF_NO_LOGGING").is_ok() {
        return;
    }
    let _ = tracing::subscriber::set_global_default(EvalAll { next: AtomicU64::new(1) });
}
