//! Explicit-state breadth-first search where the transition function is the real code.
//!
//! *clone mode*: states are the real objects (must be `Clone`).
//! *replay mode*: a state is the action history reaching it; expanding it rebuilds a fresh real
//! object and replays the history (determinism of replay is asserted: a mismatch is a machinery
//! error, never a verdict).
//!
//! The search is level-synchronous: each level's frontier is expanded in parallel, successors are
//! merged sequentially in (frontier index, action index) order, so counts are identical run to run.
use crate::run::Run;
use serde_json::{json, Value};
use std::collections::HashSet;
use std::fmt::Debug;
use std::sync::atomic::{AtomicUsize, Ordering};
use std::sync::Mutex;
use std::time::{Duration, Instant};

#[derive(Clone, Debug)]
pub struct Fail {
    pub clause: String,
    pub trigger: String,
    pub what: String,
}

impl Fail {
    pub fn new(clause: &str, trigger: &str, what: impl Into<String>) -> Fail {
        Fail { clause: clause.into(), trigger: trigger.into(), what: what.into() }
    }
}

pub trait System: Sized {
    type Action: Clone + Send + Sync + Debug;
    /// Actions enabled in this state (simplest first).
    fn actions(&self) -> Vec<Self::Action>;
    /// Apply one action to the real object(s) and evaluate the oracle; push every failed clause.
    fn step(&mut self, a: &Self::Action, fails: &mut Vec<Fail>);
    /// Canonical, property-relevant observable state.
    fn canon(&self) -> Vec<u8>;
    /// Apply an action while *replaying* a known history (replay mode only): same state change as
    /// `step`; implementations may skip oracle work that was already done when the transition was
    /// first taken.
    fn step_quiet(&mut self, a: &Self::Action) {
        let mut sink = vec![];
        self.step(a, &mut sink);
    }
}

#[derive(Clone, Debug, Default)]
pub struct BfsStats {
    pub states: u64,
    pub transitions: u64,
    pub depth_completed: usize,
    pub frontier_exhausted: bool,
    pub per_depth: Vec<u64>,
    pub capped: bool,
}

pub struct BfsOpts {
    pub max_depth: usize,
    pub wall_cap: Option<Duration>,
    pub state_cap: Option<u64>,
    pub label: String,
}

fn hist_json<A: Debug>(h: &[A]) -> Value {
    json!(h.iter().map(|a| format!("{a:?}")).collect::<Vec<_>>())
}

fn report<A: Debug>(run: &Run, label: &str, hist: &[A], a: &A, fails: Vec<Fail>) {
    for f in fails {
        let mut full: Vec<String> = hist.iter().map(|x| format!("{x:?}")).collect();
        full.push(format!("{a:?}"));
        run.violation(
            &f.clause,
            &f.trigger,
            f.what.clone(),
            json!({"engine": "bfs", "search": label, "history": full, "failed_after": format!("{a:?}"), "detail": f.what}),
        );
    }
}

fn finish_stats(run: &Run, opts: &BfsOpts, st: &BfsStats) {
    run.count("states", st.states);
    run.count("transitions", st.transitions);
    run.count("traces_validated_against_impl", st.transitions);
    // every executed transition is an evaluation of the invariants; every distinct state beyond the initial one is a
    // distinct non-trivial case (states are de-duplicated by the canonical key)
    run.add_cases(st.transitions, st.states.saturating_sub(1));
    run.extra(
        &format!("bfs:{}", opts.label),
        json!({"states": st.states, "transitions": st.transitions, "depth_completed": st.depth_completed,
               "max_depth_requested": opts.max_depth, "frontier_exhausted": st.frontier_exhausted,
               "states_per_depth": st.per_depth, "capped": st.capped}),
    );
    if st.capped {
        run.cap_hit(&format!(
            "bfs:{} stopped by cap after completing depth {} of {}",
            opts.label, st.depth_completed, opts.max_depth
        ));
    }
    println!(
        "[{}] bfs:{} states={} transitions={} depth={}/{} exhausted={} per_depth={:?}",
        run.id, opts.label, st.states, st.transitions, st.depth_completed, opts.max_depth, st.frontier_exhausted, st.per_depth
    );
}

/// Clone mode.
pub fn bfs_clone<S>(run: &Run, opts: BfsOpts, init: Vec<S>) -> BfsStats
where
    S: System + Clone + Send + Sync,
{
    let start = Instant::now();
    let mut seen: HashSet<u128> = HashSet::new();
    let mut frontier: Vec<(S, Vec<S::Action>)> = vec![];
    for s in init {
        if seen.insert(crate::key128(&s.canon())) {
            frontier.push((s, vec![]));
        }
    }
    let mut st = BfsStats { states: frontier.len() as u64, ..Default::default() };
    st.per_depth.push(frontier.len() as u64);
    let mut sampled = 0;
    for depth in 0..opts.max_depth {
        if frontier.is_empty() {
            st.frontier_exhausted = true;
            break;
        }
        let n = frontier.len();
        let next_idx = AtomicUsize::new(0);
        #[allow(clippy::type_complexity)]
        let results: Mutex<Vec<(usize, Vec<(u128, S, Vec<S::Action>)>)>> = Mutex::new(Vec::with_capacity(n));
        let stop = std::sync::atomic::AtomicBool::new(false);
        std::thread::scope(|sc| {
            for _ in 0..crate::workers().min(n) {
                sc.spawn(|| loop {
                    let i = next_idx.fetch_add(1, Ordering::Relaxed);
                    if i >= n || stop.load(Ordering::Relaxed) {
                        break;
                    }
                    if let Some(cap) = opts.wall_cap {
                        if start.elapsed() > cap {
                            stop.store(true, Ordering::Relaxed);
                            break;
                        }
                    }
                    if crate::budget_spent() {
                        stop.store(true, Ordering::Relaxed);
                        break;
                    }
                    let (s, hist) = &frontier[i];
                    let mut out = vec![];
                    for a in s.actions() {
                        let mut t = s.clone();
                        let mut fails = vec![];
                        t.step(&a, &mut fails);
                        if !fails.is_empty() {
                            report(run, &opts.label, hist, &a, fails);
                        }
                        let k = crate::key128(&t.canon());
                        let mut h = hist.clone();
                        h.push(a);
                        out.push((k, t, h));
                    }
                    results.lock().unwrap().push((i, out));
                });
            }
        });
        if stop.load(Ordering::Relaxed) {
            st.capped = true;
            break;
        }
        let mut results = results.into_inner().unwrap();
        results.sort_by_key(|r| r.0);
        let mut next = vec![];
        for (_, out) in results {
            for (k, t, h) in out {
                st.transitions += 1;
                if seen.insert(k) {
                    if sampled < 3 || (h.len() == opts.max_depth && sampled < 4) {
                        run.sample(json!({"search": opts.label, "history": hist_json(&h)}));
                        sampled += 1;
                    }
                    next.push((t, h));
                }
            }
        }
        st.depth_completed = depth + 1;
        st.states += next.len() as u64;
        st.per_depth.push(next.len() as u64);
        frontier = next;
        if let Some(cap) = opts.state_cap {
            if st.states > cap {
                st.capped = !frontier.is_empty() && depth + 1 < opts.max_depth;
                if st.capped {
                    break;
                }
            }
        }
    }
    if frontier.is_empty() {
        st.frontier_exhausted = true;
    }
    finish_stats(run, &opts, &st);
    st
}

/// Replay mode: `mk` builds a fresh initial real object (in the calling worker thread).
pub fn bfs_replay<S, F>(run: &Run, opts: BfsOpts, mk: F) -> BfsStats
where
    S: System,
    F: Fn() -> S + Sync,
{
    let start = Instant::now();
    let mut seen: HashSet<u128> = HashSet::new();
    let s0 = mk();
    let k0 = crate::key128(&s0.canon());
    drop(s0);
    seen.insert(k0);
    // frontier: (history, key)
    let mut frontier: Vec<(Vec<S::Action>, u128)> = vec![(vec![], k0)];
    let mut st = BfsStats { states: 1, ..Default::default() };
    st.per_depth.push(1);
    let mut sampled = 0;
    let replay = |hist: &[S::Action]| -> S {
        let mut s = mk();
        for a in hist {
            s.step_quiet(a);
        }
        s
    };
    for depth in 0..opts.max_depth {
        if frontier.is_empty() {
            st.frontier_exhausted = true;
            break;
        }
        let n = frontier.len();
        let next_idx = AtomicUsize::new(0);
        #[allow(clippy::type_complexity)]
        let results: Mutex<Vec<(usize, Vec<(u128, Vec<S::Action>)>)>> = Mutex::new(Vec::with_capacity(n));
        let stop = std::sync::atomic::AtomicBool::new(false);
        let nondet: Mutex<Option<String>> = Mutex::new(None);
        std::thread::scope(|sc| {
            for _ in 0..crate::workers().min(n) {
                sc.spawn(|| loop {
                    let i = next_idx.fetch_add(1, Ordering::Relaxed);
                    if i >= n || stop.load(Ordering::Relaxed) {
                        break;
                    }
                    if let Some(cap) = opts.wall_cap {
                        if start.elapsed() > cap {
                            stop.store(true, Ordering::Relaxed);
                            break;
                        }
                    }
                    if crate::budget_spent() {
                        stop.store(true, Ordering::Relaxed);
                        break;
                    }
                    let (hist, key) = &frontier[i];
                    let s = replay(hist);
                    let k = crate::key128(&s.canon());
                    if k != *key {
                        *nondet.lock().unwrap() =
                            Some(format!("replaying {:?} gave a different canonical state", hist_json(hist)));
                        stop.store(true, Ordering::Relaxed);
                        break;
                    }
                    let acts = s.actions();
                    let mut cur = Some(s);
                    let mut out = vec![];
                    for a in acts {
                        let mut t = match cur.take() {
                            Some(s) => s,
                            None => replay(hist),
                        };
                        let mut fails = vec![];
                        t.step(&a, &mut fails);
                        if !fails.is_empty() {
                            report(run, &opts.label, hist, &a, fails);
                        }
                        let k = crate::key128(&t.canon());
                        let mut h = hist.clone();
                        h.push(a);
                        out.push((k, h));
                    }
                    results.lock().unwrap().push((i, out));
                });
            }
        });
        if let Some(msg) = nondet.into_inner().unwrap() {
            run.machinery_error(&format!("nondeterministic replay in bfs:{}: {msg}", opts.label));
        }
        if stop.load(Ordering::Relaxed) {
            st.capped = true;
            break;
        }
        let mut results = results.into_inner().unwrap();
        results.sort_by_key(|r| r.0);
        let mut next = vec![];
        for (_, out) in results {
            for (k, h) in out {
                st.transitions += 1;
                if seen.insert(k) {
                    if sampled < 3 || (h.len() == opts.max_depth && sampled < 4) {
                        run.sample(json!({"search": opts.label, "history": hist_json(&h)}));
                        sampled += 1;
                    }
                    next.push((h, k));
                }
            }
        }
        st.depth_completed = depth + 1;
        st.states += next.len() as u64;
        st.per_depth.push(next.len() as u64);
        frontier = next;
        if let Some(cap) = opts.state_cap {
            if st.states > cap && !frontier.is_empty() && depth + 1 < opts.max_depth {
                st.capped = true;
                break;
            }
        }
    }
    if frontier.is_empty() {
        st.frontier_exhausted = true;
    }
    finish_stats(run, &opts, &st);
    st
}
