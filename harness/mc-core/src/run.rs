//! Per-check run context: tier/seed, counters, evidence, known findings, verdict and exit code.
//!
//! Exit codes: 0 = held on everything explored (known findings are printed as KNOWN-FINDING),
//! 1 = at least one violation that `/verif/known_findings.json` does not list (a
//! `VIOLATION property=<id> replay=<path>` line is printed for each distinct one),
//! 2 = the machinery failed (nondeterministic replay, cap before coverage, ...): no verdict.
use serde::{Deserialize, Serialize};
use serde_json::{json, Map, Value};
use std::collections::{BTreeMap, HashSet};
use std::path::PathBuf;
use std::sync::Mutex;
use std::time::Instant;

#[derive(Clone, Copy, Debug, PartialEq, Eq)]
pub enum Tier {
    Quick,
    Thorough,
}

#[derive(Clone, Debug, Serialize, Deserialize)]
pub struct Violation {
    /// which clause of the oracle failed (stable short name)
    pub clause: String,
    /// named predicate on the history/input that characterises the failure (stable short name)
    pub trigger: String,
    /// one-line human description
    pub what: String,
    /// the failing input / history / schedule, replayable
    pub witness: Value,
}

#[derive(Clone, Debug, Deserialize)]
pub struct KnownFinding {
    pub property: String,
    pub clause: String,
    pub trigger: String,
    pub what: String,
    #[serde(default)]
    pub witness: Value,
}

#[derive(Debug, Deserialize, Default)]
struct KnownFile {
    #[serde(default)]
    findings: Vec<KnownFinding>,
    #[serde(default)]
    #[allow(dead_code)]
    fixed: Vec<String>,
}

struct Inner {
    counters: BTreeMap<String, u64>,
    distinct: HashSet<u128>,
    distinct_nontrivial: u64,
    engine_cases: u64,
    outcomes: HashSet<u128>,
    samples: Vec<Value>,
    assumptions: Vec<String>,
    rule: String,
    extras: Map<String, Value>,
    // (clause, trigger) -> (count, first)
    new_violations: BTreeMap<(String, String), (u64, Violation)>,
    known_hits: BTreeMap<(String, String), (u64, Value)>,
    caps: Vec<String>,
    exhaustive: bool,
}

pub struct Run {
    pub id: String,
    pub tier: Tier,
    pub seed: u64,
    pub level: &'static str,
    pub root: PathBuf,
    start: Instant,
    known: Vec<KnownFinding>,
    inner: Mutex<Inner>,
}

pub fn verif_root() -> PathBuf {
    if let Ok(r) = std::env::var("VERIF_ROOT") {
        return PathBuf::from(r);
    }
    // harness/target/<profile>/<exe> -> /verif
    if let Ok(exe) = std::env::current_exe() {
        let mut p = exe.as_path();
        while let Some(parent) = p.parent() {
            if parent.join("properties.jsonl").exists() {
                return parent.to_path_buf();
            }
            p = parent;
        }
    }
    PathBuf::from("/verif")
}

pub fn repo_root() -> PathBuf {
    PathBuf::from(std::env::var("VERIF_REPO").unwrap_or_else(|_| "/repo".to_string()))
}

impl Run {
    /// `level` is one of the MANIFEST categories.
    pub fn new(id: &str, level: &'static str, tier_arg: Option<&str>) -> Run {
        let tier_s = tier_arg
            .map(|s| s.to_string())
            .or_else(|| std::env::var("VERIF_TIER").ok())
            .unwrap_or_else(|| "quick".to_string());
        let tier = if tier_s == "thorough" { Tier::Thorough } else { Tier::Quick };
        let seed = std::env::var("VERIF_SEED").ok().and_then(|s| s.parse().ok()).unwrap_or(0);
        let root = verif_root();
        let known: Vec<KnownFinding> = std::fs::read_to_string(root.join("known_findings.json"))
            .ok()
            .and_then(|s| serde_json::from_str::<KnownFile>(&s).ok())
            .unwrap_or_default()
            .findings
            .into_iter()
            .filter(|f| f.property == id)
            .collect();
        Run {
            id: id.to_string(),
            tier,
            seed,
            level,
            root,
            start: Instant::now(),
            known,
            inner: Mutex::new(Inner {
                counters: BTreeMap::new(),
                distinct: HashSet::new(),
                distinct_nontrivial: 0,
                engine_cases: 0,
                outcomes: HashSet::new(),
                samples: vec![],
                assumptions: vec![],
                rule: String::new(),
                extras: Map::new(),
                new_violations: BTreeMap::new(),
                known_hits: BTreeMap::new(),
                caps: vec![],
                exhaustive: true,
            }),
        }
    }

    pub fn quick(&self) -> bool {
        self.tier == Tier::Quick
    }
    pub fn pick<T>(&self, quick: T, thorough: T) -> T {
        if self.quick() {
            quick
        } else {
            thorough
        }
    }

    pub fn count(&self, name: &str, n: u64) {
        let mut g = self.inner.lock().unwrap();
        *g.counters.entry(name.to_string()).or_insert(0) += n;
    }
    pub fn get_count(&self, name: &str) -> u64 {
        *self.inner.lock().unwrap().counters.get(name).unwrap_or(&0)
    }
    pub fn set_max(&self, name: &str, n: u64) {
        let mut g = self.inner.lock().unwrap();
        let e = g.counters.entry(name.to_string()).or_insert(0);
        if n > *e {
            *e = n;
        }
    }
    /// One evaluated case. `key` identifies the case (for distinct counting); `nontrivial` by the
    /// check's stated rule.
    pub fn case(&self, key: &[u8], nontrivial: bool) {
        let k = crate::key128(key);
        let mut g = self.inner.lock().unwrap();
        *g.counters.entry("evaluations".into()).or_insert(0) += 1;
        if g.distinct.insert(k) && nontrivial {
            g.distinct_nontrivial += 1;
        }
    }
    /// Cases counted by an engine itself (BFS: transitions evaluated / distinct states; schedule DFS: executions /
    /// executions with a real choice) — distinct by construction.
    pub fn add_cases(&self, evaluations: u64, distinct_nontrivial: u64) {
        let mut g = self.inner.lock().unwrap();
        *g.counters.entry("evaluations".into()).or_insert(0) += evaluations;
        g.distinct_nontrivial += distinct_nontrivial;
        g.engine_cases += distinct_nontrivial;
    }
    /// Record an observed outcome (for the "distinct outcomes" vacuity indicator).
    pub fn outcome(&self, key: &[u8]) {
        let k = crate::key128(key);
        self.inner.lock().unwrap().outcomes.insert(k);
    }
    pub fn sample(&self, v: Value) {
        let mut g = self.inner.lock().unwrap();
        if g.samples.len() < 12 {
            g.samples.push(v);
        }
    }
    pub fn assume(&self, s: &str) {
        let mut g = self.inner.lock().unwrap();
        if !g.assumptions.iter().any(|a| a == s) {
            g.assumptions.push(s.to_string());
        }
    }
    pub fn rule(&self, s: &str) {
        let mut g = self.inner.lock().unwrap();
        if !g.rule.is_empty() {
            g.rule.push_str(" | ");
        }
        g.rule.push_str(s);
    }
    pub fn extra(&self, k: &str, v: Value) {
        self.inner.lock().unwrap().extras.insert(k.to_string(), v);
    }
    pub fn cap_hit(&self, what: &str) {
        let mut g = self.inner.lock().unwrap();
        g.caps.push(what.to_string());
        g.exhaustive = false;
    }
    pub fn not_exhaustive(&self) {
        self.inner.lock().unwrap().exhaustive = false;
    }

    pub fn is_known(&self, clause: &str, trigger: &str) -> bool {
        self.known.iter().any(|f| f.clause == clause && f.trigger == trigger)
    }

    pub fn violation(&self, clause: &str, trigger: &str, what: String, witness: Value) {
        let key = (clause.to_string(), trigger.to_string());
        let mut g = self.inner.lock().unwrap();
        if self.is_known(clause, trigger) {
            let e = g.known_hits.entry(key).or_insert((0, witness));
            e.0 += 1;
        } else {
            let e = g.new_violations.entry(key).or_insert_with(|| {
                (
                    0,
                    Violation {
                        clause: clause.to_string(),
                        trigger: trigger.to_string(),
                        what,
                        witness,
                    },
                )
            });
            e.0 += 1;
            let total: u64 = g.new_violations.values().map(|(n, _)| *n as u64).sum();
            if total >= crate::VIOLATION_BUDGET && !crate::VIOLATION_BUDGET_SPENT.swap(true, std::sync::atomic::Ordering::Relaxed) {
                g.caps.push(format!("exploration wound down early after {total} occurrences of new violations (the verdict cannot change any more)"));
                g.exhaustive = false;
            }
        }
    }

    pub fn n_new_violations(&self) -> usize {
        self.inner.lock().unwrap().new_violations.len()
    }

    /// The violations recorded so far (known findings included), for engines that run as a
    /// subprocess and hand their results to the parent check.
    pub fn dump_violations(&self) -> Vec<Value> {
        let g = self.inner.lock().unwrap();
        let mut out: Vec<Value> = g
            .new_violations
            .values()
            .map(|(n, v)| json!({"clause": v.clause, "trigger": v.trigger, "what": v.what, "witness": v.witness, "count": n}))
            .collect();
        for ((c, t), (n, w)) in g.known_hits.iter() {
            out.push(json!({"clause": c, "trigger": t, "what": "(known finding)", "witness": w, "count": n}));
        }
        out
    }

    pub fn machinery_error(&self, msg: &str) -> ! {
        eprintln!("MACHINERY-ERROR property={} {}", self.id, msg);
        println!("MACHINERY-ERROR property={} {}", self.id, msg);
        crate::remove_scratch_root();
        std::process::exit(2);
    }

    /// Write evidence, print verdict lines, exit.
    pub fn finish(self) -> ! {
        self.finish_ref()
    }

    /// Same as `finish`, for a `Run` that is shared by reference.
    pub fn finish_ref(&self) -> ! {
        let wall = self.start.elapsed().as_secs_f64();
        let g = {
            let mut guard = self.inner.lock().unwrap();
            std::mem::replace(
                &mut *guard,
                Inner {
                    counters: BTreeMap::new(),
                    distinct: HashSet::new(),
                    distinct_nontrivial: 0,
                engine_cases: 0,
                    outcomes: HashSet::new(),
                    samples: vec![],
                    assumptions: vec![],
                    rule: String::new(),
                    extras: Map::new(),
                    new_violations: BTreeMap::new(),
                    known_hits: BTreeMap::new(),
                    caps: vec![],
                    exhaustive: true,
                },
            )
        };
        let evid_dir = self.root.join("evidence");
        let _ = std::fs::create_dir_all(&evid_dir);
        let replay_dir = self.root.join("replays");
        let _ = std::fs::create_dir_all(&replay_dir);

        let mut cov = Map::new();
        let evaluations = *g.counters.get("evaluations").unwrap_or(&0);
        cov.insert("evaluations".into(), json!(evaluations));
        cov.insert("distinct_nontrivial".into(), json!(g.distinct_nontrivial));
        cov.insert("distinct_cases".into(), json!(g.distinct.len() as u64 + g.engine_cases));
        cov.insert("distinct_outcomes".into(), json!(g.outcomes.len()));
        cov.insert("rule".into(), json!(g.rule));
        cov.insert("samples".into(), json!(g.samples));
        cov.insert("exhaustive".into(), json!(g.exhaustive));
        cov.insert("caps_hit".into(), json!(g.caps));
        if self.level == "model_checking" {
            let st = *g.counters.get("states").unwrap_or(&0);
            let tr = *g.counters.get("transitions").unwrap_or(&0);
            let tv = *g.counters.get("traces_validated_against_impl").unwrap_or(&tr);
            cov.insert("states".into(), json!(st));
            cov.insert("transitions".into(), json!(tr));
            cov.insert("traces_validated_against_impl".into(), json!(tv));
        }
        let mut counters = Map::new();
        for (k, v) in &g.counters {
            counters.insert(k.clone(), json!(v));
        }
        cov.insert("counters".into(), Value::Object(counters));
        for (k, v) in g.extras {
            cov.insert(k, v);
        }
        let known_printed: Vec<Value> = self
            .known
            .iter()
            .map(|f| {
                let hits = g
                    .known_hits
                    .get(&(f.clause.clone(), f.trigger.clone()))
                    .map(|h| h.0)
                    .unwrap_or(0);
                json!({"clause": f.clause, "trigger": f.trigger, "what": f.what, "observed_in_this_run": hits})
            })
            .collect();
        cov.insert("known_findings".into(), json!(known_printed));
        let viol_list: Vec<Value> = g
            .new_violations
            .values()
            .map(|(n, v)| json!({"clause": v.clause, "trigger": v.trigger, "what": v.what, "count": n}))
            .collect();
        cov.insert("new_violations".into(), json!(viol_list));

        let evidence = json!({
            "property_id": self.id,
            "tier": if self.tier == Tier::Quick { "quick" } else { "thorough" },
            "seed": self.seed,
            "level": self.level,
            "coverage": Value::Object(cov),
            "assumptions": g.assumptions,
            "wall_s": (wall * 1000.0).round() / 1000.0,
            "violations": g.new_violations.len(),
        });
        let path = evid_dir.join(format!("{}.json", self.id));
        let tmp = evid_dir.join(format!("{}.json.tmp", self.id));
        std::fs::write(&tmp, serde_json::to_string_pretty(&evidence).unwrap()).expect("write evidence");
        std::fs::rename(&tmp, &path).expect("rename evidence");

        println!(
            "[{}] tier={} evaluations={} distinct_nontrivial={} states={} transitions={} outcomes={} exhaustive={} wall={:.1}s",
            self.id,
            if self.tier == Tier::Quick { "quick" } else { "thorough" },
            evaluations,
            g.distinct_nontrivial,
            g.counters.get("states").unwrap_or(&0),
            g.counters.get("transitions").unwrap_or(&0),
            g.outcomes.len(),
            g.exhaustive,
            wall
        );
        for c in &g.caps {
            println!("[{}] CAP-HIT {}", self.id, c);
        }
        for f in &self.known {
            let hits = g
                .known_hits
                .get(&(f.clause.clone(), f.trigger.clone()))
                .map(|h| h.0)
                .unwrap_or(0);
            println!(
                "KNOWN-FINDING: property={} clause={} trigger={} {} (observed {} times in this run)",
                self.id, f.clause, f.trigger, f.what, hits
            );
        }
        let mut code = 0;
        for ((clause, trigger), (n, v)) in &g.new_violations {
            let body = json!({
                "property": self.id, "clause": clause, "trigger": trigger, "what": v.what,
                "count_in_run": n, "witness": v.witness,
            });
            let text = serde_json::to_string_pretty(&body).unwrap();
            let name = format!("{}-{}.json", self.id, crate::hex8(format!("{clause}/{trigger}").as_bytes()));
            let p = replay_dir.join(name);
            let _ = std::fs::write(&p, text);
            println!("VIOLATION property={} replay={}", self.id, p.display());
            println!("  clause={clause} trigger={trigger} count={n}: {}", v.what);
            code = 1;
        }
        crate::remove_scratch_root();
        std::process::exit(code);
    }
}
