//! mc-core: the small exhaustive-exploration engines shared by every check.
//!
//! * `run`       – per-check context: tier, evidence file, known findings, VIOLATION lines, exit codes
//! * `bfs`       – explicit-state breadth-first search whose transition function is the real code
//!                 (clone mode and replay mode)
//! * `sched`     – stateless, iteratively deviation-bounded DFS over choice sequences
//!                 (schedules, fault placements, environment answers)
//! * `enumerate` – odometers: all sequences up to a length over an alphabet, products, subsets
pub mod bfs;
pub mod enumerate;
pub mod logging;
pub mod run;
pub mod sched;

pub use run::{Run, Violation};

use sha2::{Digest, Sha256};

/// 128-bit state key.
pub fn key128(bytes: &[u8]) -> u128 {
    let d = Sha256::digest(bytes);
    let mut b = [0u8; 16];
    b.copy_from_slice(&d[..16]);
    u128::from_be_bytes(b)
}

pub fn hex8(bytes: &[u8]) -> String {
    let d = Sha256::digest(bytes);
    hex::encode(&d[..4])
}

/// Run `f`, turning a panic into `Err(message)`. The default panic hook is silenced while the
/// closure runs on this thread (a thread-local flag; other threads keep printing).
pub fn catch<T>(f: impl FnOnce() -> T) -> Result<T, String> {
    install_quiet_hook();
    QUIET.with(|q| q.set(q.get() + 1));
    let r = std::panic::catch_unwind(std::panic::AssertUnwindSafe(f));
    QUIET.with(|q| q.set(q.get() - 1));
    r.map_err(|e| {
        let msg = if let Some(s) = e.downcast_ref::<&str>() {
            s.to_string()
        } else if let Some(s) = e.downcast_ref::<String>() {
            s.clone()
        } else {
            "panic (non-string payload)".to_string()
        };
        let loc = LAST_PANIC_LOC.with(|l| l.borrow_mut().take());
        match loc {
            Some(l) => format!("{msg} @ {l}"),
            None => msg,
        }
    })
}

thread_local! {
    static QUIET: std::cell::Cell<u32> = const { std::cell::Cell::new(0) };
    static LAST_PANIC_LOC: std::cell::RefCell<Option<String>> = const { std::cell::RefCell::new(None) };
}

fn install_quiet_hook() {
    use std::sync::Once;
    static ONCE: Once = Once::new();
    ONCE.call_once(|| {
        let prev = std::panic::take_hook();
        std::panic::set_hook(Box::new(move |info| {
            let quiet = QUIET.with(|q| q.get()) > 0;
            if quiet {
                if let Some(l) = info.location() {
                    LAST_PANIC_LOC.with(|c| {
                        *c.borrow_mut() = Some(format!("{}:{}", l.file(), l.line()))
                    });
                }
            } else {
                prev(info);
            }
        }));
    });
}

/// Number of worker threads to use.
/// Set once a run has recorded so many occurrences of new violations that exploring further can add nothing to
/// its verdict (exit 1 either way). Engines poll it between executions / expansions and wind down, so that a check
/// run against a broken tree — where a failing path may be far more expensive than the passing one, e.g. through
/// retry loops — still ends promptly. Never set on a tree where the property holds.
pub static VIOLATION_BUDGET_SPENT: std::sync::atomic::AtomicBool = std::sync::atomic::AtomicBool::new(false);
pub const VIOLATION_BUDGET: u64 = 3000;
pub fn budget_spent() -> bool {
    VIOLATION_BUDGET_SPENT.load(std::sync::atomic::Ordering::Relaxed)
}

pub fn workers() -> usize {
    std::env::var("VERIF_JOBS")
        .ok()
        .and_then(|s| s.parse().ok())
        .unwrap_or_else(|| std::thread::available_parallelism().map(|n| n.get()).unwrap_or(8))
        .max(1)
}

/// A per-process scratch directory under /dev/shm (falls back to the system temp dir).
pub fn scratch_root() -> std::path::PathBuf {
    let base = if std::path::Path::new("/dev/shm").is_dir() {
        std::path::PathBuf::from("/dev/shm")
    } else {
        std::env::temp_dir()
    };
    let p = base.join(format!("verif-{}", std::process::id()));
    let _ = std::fs::create_dir_all(&p);
    p
}

pub fn remove_scratch_root() {
    let _ = std::fs::remove_dir_all(scratch_root());
}
