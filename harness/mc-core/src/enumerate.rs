//! Exhaustive enumerators for sequential-input checks.

/// All sequences of length 0..=max_len over `alphabet`, shortest first, in odometer order.
pub fn sequences<T: Clone>(alphabet: &[T], max_len: usize, mut f: impl FnMut(&[T])) {
    let k = alphabet.len();
    for len in 0..=max_len {
        if len > 0 && k == 0 {
            break;
        }
        let mut idx = vec![0usize; len];
        let mut cur: Vec<T> = idx.iter().map(|&i| alphabet[i].clone()).collect();
        loop {
            f(&cur);
            // increment
            let mut p = len;
            loop {
                if p == 0 {
                    break;
                }
                p -= 1;
                idx[p] += 1;
                if idx[p] < k {
                    cur[p] = alphabet[idx[p]].clone();
                    break;
                }
                idx[p] = 0;
                cur[p] = alphabet[0].clone();
                if p == 0 {
                    p = usize::MAX;
                    break;
                }
            }
            if len == 0 || p == usize::MAX {
                break;
            }
        }
    }
}

/// Number of sequences `sequences` will visit.
pub fn sequences_count(k: usize, max_len: usize) -> u64 {
    (0..=max_len as u32).map(|l| (k as u64).pow(l)).sum()
}

/// All strings of length 0..=max_len over the characters of `alphabet`.
pub fn strings(alphabet: &str, max_len: usize, mut f: impl FnMut(&str)) {
    let chars: Vec<char> = alphabet.chars().collect();
    let mut buf = String::new();
    sequences(&chars, max_len, |cs| {
        buf.clear();
        buf.extend(cs.iter());
        f(&buf);
    });
}

/// Cartesian product of index ranges: calls f with every vector v where v[i] < dims[i].
pub fn product(dims: &[usize], mut f: impl FnMut(&[usize])) {
    if dims.iter().any(|d| *d == 0) {
        return;
    }
    let mut idx = vec![0usize; dims.len()];
    loop {
        f(&idx);
        let mut p = dims.len();
        loop {
            if p == 0 {
                return;
            }
            p -= 1;
            idx[p] += 1;
            if idx[p] < dims[p] {
                break;
            }
            idx[p] = 0;
        }
    }
}

/// All subsets of 0..n (as bitmasks) with popcount in lo..=hi, by increasing popcount then value.
pub fn subsets(n: usize, lo: usize, hi: usize) -> Vec<u32> {
    let mut v: Vec<u32> = (0u32..(1u32 << n)).filter(|m| (m.count_ones() as usize) >= lo && (m.count_ones() as usize) <= hi).collect();
    v.sort_by_key(|m| (m.count_ones(), *m));
    v
}

/// All permutations of 0..n (Heap's algorithm, deterministic order).
pub fn permutations(n: usize, mut f: impl FnMut(&[usize])) {
    let mut a: Vec<usize> = (0..n).collect();
    let mut c = vec![0usize; n];
    f(&a);
    let mut i = 0;
    while i < n {
        if c[i] < i {
            if i % 2 == 0 {
                a.swap(0, i);
            } else {
                a.swap(c[i], i);
            }
            f(&a);
            c[i] += 1;
            i = 0;
        } else {
            c[i] = 0;
            i += 1;
        }
    }
}

/// Every truncation and every single-byte substitution (from `subs`) of `seed`.
pub fn byte_mutations(seed: &[u8], subs: &[u8], mut f: impl FnMut(&[u8])) {
    for l in 0..seed.len() {
        f(&seed[..l]);
    }
    let mut buf = seed.to_vec();
    for i in 0..seed.len() {
        let orig = buf[i];
        for s in subs {
            if *s != orig {
                buf[i] = *s;
                f(&buf);
            }
        }
        buf[i] = orig;
    }
}

#[cfg(test)]
mod tests {
    use super::*;
    #[test]
    fn seq_counts() {
        let mut n = 0;
        sequences(&[1, 2, 3], 3, |_| n += 1);
        assert_eq!(n, 1 + 3 + 9 + 27);
        assert_eq!(sequences_count(3, 3), 40);
        let mut all = vec![];
        strings("ab", 2, |s| all.push(s.to_string()));
        assert_eq!(all, vec!["", "a", "b", "aa", "ab", "ba", "bb"]);
        let mut p = 0;
        permutations(4, |_| p += 1);
        assert_eq!(p, 24);
        let mut c = 0;
        product(&[2, 3, 2], |_| c += 1);
        assert_eq!(c, 12);
    }
}
