//! C01 — validated records read back byte-exact from a node's store.
//! Explicit-state BFS (replay mode) over histories of Put/Remove/Block/RunTask/Deliver on a real
//! `NodeRecordStore`; the scheduler choices (which pending background task runs next, when a
//! notification is delivered) are actions of the search, so every completion order of tasks of
//! different keys is covered up to the depth bound.
use crate::store_rig::{hexkey, ranked_keys, record_type_of, short, RigCfg, StoreRig};
use ant_protocol::storage::RecordType;
use libp2p::kad::{Record, RecordKey};
use mc_core::bfs::{bfs_replay, BfsOpts, Fail, System};
use mc_core::Run;
use std::collections::BTreeMap;
use std::path::PathBuf;
use std::sync::atomic::{AtomicU64, Ordering};

#[derive(Clone, Debug)]
pub enum Act {
    Put { k: usize, v: usize },
    Remove { k: usize },
    /// a directory squats on the record's file name: the next write of this key fails
    BlockPath { k: usize },
    UnblockPath { k: usize },
    /// run the i-th enabled background task (per key the oldest one)
    RunTask { i: usize, what: String },
    /// handle the oldest queued completion notification
    Deliver { what: String },
}

#[derive(Clone, Debug, PartialEq)]
enum Expect {
    /// never put, or nothing known
    Unconstrained,
    Present(Vec<u8>),
    Absent,
}

pub struct Universe {
    pub keys: Vec<RecordKey>,
    /// values[k][v]
    pub values: Vec<Vec<Vec<u8>>>,
}

pub fn universe(peer: libp2p::PeerId) -> Universe {
    let keys = ranked_keys(peer, 3, "c01");
    // key 0: chunk-kind values, key 1: register-kind, key 2: scratchpad-kind (header + payload;
    // the store never looks past the header)
    let tags = [1u8, 3, 5];
    let values = (0..3)
        .map(|k| (0..2).map(|v| [&[0x91u8, tags[k]][..], format!("payload-{k}-{}", ["a", "b, which is longer than a"][v]).as_bytes()].concat()).collect())
        .collect();
    Universe { keys, values }
}

pub struct Sys {
    pub rig: StoreRig,
    uni: std::sync::Arc<Universe>,
    expect: Vec<Expect>,
    /// every value ever handed to put_verified per key (safety clause)
    handed: Vec<Vec<Vec<u8>>>,
    /// keys on which a removal was issued while a put was still in flight (known-finding trigger)
    removal_while_in_flight: Vec<bool>,
    /// keys that saw an I/O failure: only the safety clause applies from then on
    excluded: Vec<bool>,
    /// keys whose latest put was refused (MaxRecords): safety clause only until the next accepted put
    refused: Vec<bool>,
    blocked: Vec<bool>,
    /// keys whose latest accepted put scheduled no write although the key is not held
    ack_without_write: Vec<bool>,
    allow_block: bool,
    scratch: PathBuf,
    /// API operations (Put/Remove/Block) issued so far and their bound; scheduler steps are unbounded
    api_used: usize,
    api_max: usize,
    /// violations noticed inside `apply` (reported by `step`, dropped by `step_quiet`)
    late_fails: Vec<Fail>,
}

static SCRATCH_SEQ: AtomicU64 = AtomicU64::new(0);

pub fn fresh_scratch(label: &str) -> PathBuf {
    let n = SCRATCH_SEQ.fetch_add(1, Ordering::Relaxed);
    let p = mc_core::scratch_root().join(format!("{label}-{n}"));
    let _ = std::fs::remove_dir_all(&p);
    p
}

impl Drop for Sys {
    fn drop(&mut self) {
        let _ = std::fs::remove_dir_all(&self.scratch);
    }
}

impl Sys {
    pub fn new(cfg: RigCfg, allow_block: bool, api_max: usize, prefill: &[(usize, usize)]) -> Sys {
        let peer = rigs::fixtures::peer_id(1);
        let scratch = fresh_scratch("c01");
        let mut rig = StoreRig::new(&scratch, cfg, peer);
        rig.settle(); // the start-up metrics flush is not part of this property
        let uni = std::sync::Arc::new(universe(peer));
        Sys {
            rig,
            uni,
            expect: vec![Expect::Unconstrained; 3],
            handed: vec![vec![]; 3],
            removal_while_in_flight: vec![false; 3],
            excluded: vec![false; 3],
            refused: vec![false; 3],
            blocked: vec![false; 3],
            ack_without_write: vec![false; 3],
            allow_block,
            scratch,
            api_used: 0,
            api_max,
            late_fails: vec![],
        }
        .prefilled(prefill)
    }

    /// Start from a non-initial state: the given (key, value) pairs put and fully settled.
    fn prefilled(mut self, prefill: &[(usize, usize)]) -> Sys {
        let mut sink = vec![];
        for (k, v) in prefill {
            self.step(&Act::Put { k: *k, v: *v }, &mut sink);
            self.rig.settle();
        }
        self.api_used = 0;
        self
    }

    fn key_index(&self, k: &RecordKey) -> Option<usize> {
        self.uni.keys.iter().position(|x| x == k)
    }

    fn in_flight(&self, k: usize) -> bool {
        let tag = hexkey(&self.uni.keys[k]);
        let sk = short(&self.uni.keys[k]);
        self.rig.pending_tasks().iter().any(|(t, f)| *t == tag && !f.ends_with("::remove")) || self.rig.queue_desc().iter().any(|q| q.contains(&sk))
    }

    fn note_removed(&mut self, k: usize) {
        if self.in_flight(k) {
            self.removal_while_in_flight[k] = true;
        }
        self.expect[k] = Expect::Absent;
    }

    fn trigger(&self, k: usize) -> &'static str {
        if self.removal_while_in_flight[k] {
            "removal-while-put-in-flight"
        } else if self.ack_without_write[k] {
            "acknowledged-without-write"
        } else {
            "plain"
        }
    }

    fn check(&self, fails: &mut Vec<Fail>) {
        // safety, in every state
        for (k, key) in self.uni.keys.iter().enumerate() {
            if let Some(r) = self.rig.get(key) {
                if r.key != *key {
                    fails.push(Fail::new("read-only-what-was-put", "foreign-key", format!("get(k{k}) returned a record carrying another key")));
                }
                if !self.handed[k].contains(&r.value) {
                    fails.push(Fail::new(
                        "read-only-what-was-put",
                        self.trigger(k),
                        format!("get(k{k}) returned {} bytes that were never handed to the store for this key", r.value.len()),
                    ));
                }
            }
        }
        if !self.rig.quiescent() {
            return;
        }
        let listed: BTreeMap<String, RecordType> = self.rig.store.verif_record_addresses().into_iter().map(|(a, t)| (hexkey(&a.to_record_key()), t)).collect();
        let files = self.rig.listing();
        for (k, key) in self.uni.keys.iter().enumerate() {
            if self.excluded[k] || self.refused[k] {
                continue;
            }
            let got = self.rig.get(key);
            let contains = self.rig.store.verif_contains(key);
            let file = files.get(&hexkey(key)).map(|h| h != "dir").unwrap_or(false);
            match &self.expect[k] {
                Expect::Unconstrained => {}
                Expect::Present(v) => {
                    let want_type = record_type_of(&Record { key: key.clone(), value: v.clone(), publisher: None, expires: None });
                    if got.as_ref().map(|r| &r.value) != Some(v) {
                        fails.push(Fail::new(
                            "settled-write-readable",
                            self.trigger(k),
                            format!("k{k}: latest accepted write not read back after settling (got {:?} bytes)", got.as_ref().map(|r| r.value.len())),
                        ));
                    }
                    if !contains || listed.get(&hexkey(key)) != want_type.as_ref() || !file {
                        fails.push(Fail::new(
                            "settled-write-listed",
                            self.trigger(k),
                            format!("k{k}: accepted write settled but contains={contains} listed_as={:?} (want {want_type:?}) file={file}", listed.get(&hexkey(key))),
                        ));
                    }
                }
                Expect::Absent => {
                    if got.is_some() {
                        fails.push(Fail::new("removed-not-readable", self.trigger(k), format!("k{k}: removed key is still readable")));
                    }
                    if contains || listed.contains_key(&hexkey(key)) {
                        fails.push(Fail::new("removed-not-listed", self.trigger(k), format!("k{k}: removed key is still listed (contains={contains})")));
                    }
                    if file {
                        fails.push(Fail::new("removed-file-gone", self.trigger(k), format!("k{k}: removed key still has its file")));
                    }
                }
            }
        }
    }
}

impl System for Sys {
    type Action = Act;

    fn actions(&self) -> Vec<Act> {
        let mut v = vec![];
        // scheduler steps first (simplest continuation first)
        for (i, id) in self.rig.enabled_tasks().into_iter().enumerate() {
            let info = self.rig.exec.info(id);
            let k = self.uni.keys.iter().position(|x| hexkey(x) == info.tag).map(|k| format!("k{k}")).unwrap_or_else(|| info.tag.clone());
            v.push(Act::RunTask { i, what: format!("{}@{k}", info.func) });
        }
        if let Some(q) = self.rig.queue_desc().first() {
            v.push(Act::Deliver { what: q.clone() });
        }
        if self.api_used >= self.api_max {
            return v;
        }
        for k in 0..3 {
            for val in 0..2 {
                v.push(Act::Put { k, v: val });
            }
        }
        for k in 0..3 {
            v.push(Act::Remove { k });
        }
        if self.allow_block {
            for k in 0..3 {
                let path = self.rig.storage_dir().join(hexkey(&self.uni.keys[k]));
                if self.blocked[k] {
                    v.push(Act::UnblockPath { k });
                } else if !path.exists() {
                    v.push(Act::BlockPath { k });
                }
            }
        }
        v
    }

    fn step(&mut self, a: &Act, fails: &mut Vec<Fail>) {
        self.late_fails.clear();
        self.apply(a);
        fails.append(&mut self.late_fails);
        self.check(fails);
    }

    fn step_quiet(&mut self, a: &Act) {
        self.apply(a);
        self.late_fails.clear();
    }

    fn canon(&self) -> Vec<u8> {
        let mut b = self.rig.canon(&self.uni.keys);
        b.extend(format!(";api={}", self.api_used).bytes());
        b.extend(format!(";expect={:?};excl={:?};ref={:?};rif={:?};aww={:?};blocked={:?};handed={:?}", self.expect.iter().map(|e| match e { Expect::Unconstrained => "U".to_string(), Expect::Absent => "A".to_string(), Expect::Present(v) => format!("P{}", v.len() + v[v.len()-1] as usize) }).collect::<Vec<_>>(), self.excluded, self.refused, self.removal_while_in_flight, self.ack_without_write, self.blocked, self.handed.iter().map(|h| { let mut s: Vec<u8> = h.iter().map(|v| v[v.len()-1]).collect(); s.sort(); s.dedup(); s }).collect::<Vec<_>>()).bytes());
        b
    }
}

impl Sys {
    fn apply(&mut self, a: &Act) {
        if matches!(a, Act::Put { .. } | Act::Remove { .. } | Act::BlockPath { .. } | Act::UnblockPath { .. }) {
            self.api_used += 1;
        }
        match a {
            Act::Put { k, v } => {
                let key = self.uni.keys[*k].clone();
                let val = self.uni.values[*k][*v].clone();
                let before: Vec<RecordKey> = self.rig.view().records.into_iter().map(|(k, _)| k).collect();
                self.handed[*k].push(val.clone());
                let tasks_before = self.rig.exec.task_count();
                let held_already = before.contains(&key);
                let res = self.rig.put(&key, &val);
                let after: Vec<RecordKey> = self.rig.view().records.into_iter().map(|(k, _)| k).collect();
                let started_write = (tasks_before..self.rig.exec.task_count()).any(|id| self.rig.exec.info(id).func.ends_with("::put_verified"));
                // evictions decided inside put_verified are removals issued by the store itself — legitimate only to make
                // room for a record that is new to the store: a put that starts no write (same bytes already cached), is
                // refused, or replaces a record already held needs no room, and an accepted settled write must not vanish for it
                for gone in before.iter().filter(|x| !after.contains(x)) {
                    if let Some(g) = self.key_index(gone) {
                        if g != *k {
                            if !started_write || res.is_err() || held_already {
                                let why = if res.is_err() { "a refused put" } else if !started_write { "a put that started no write" } else { "an update of a record already held" };
                                self.late_fails.push(Fail::new("accepted-write-vanished", "evicted-without-a-new-record", format!("k{g}, accepted and settled, was dropped from the store by {why} (Put k{k})")));
                            }
                            self.note_removed(g);
                        }
                    }
                }
                match res {
                    Ok(()) => {
                        // accepted, yet nothing was scheduled and the key is not held: acknowledged from the cache only
                        if !self.rig.store.verif_contains(&key) && !self.in_flight(*k) {
                            self.ack_without_write[*k] = true;
                        } else {
                            self.ack_without_write[*k] = false;
                        }
                        self.refused[*k] = false;
                        self.expect[*k] = Expect::Present(val);
                        self.removal_while_in_flight[*k] = false;
                        if self.blocked[*k] {
                            self.excluded[*k] = true; // its write is going to fail: I/O failure, safety only
                        }
                    }
                    Err(_) => self.refused[*k] = true, // refused (MaxRecords): safety only until re-put
                }
            }
            Act::Remove { k } => {
                let key = self.uni.keys[*k].clone();
                self.note_removed(*k);
                self.rig.remove(&key);
            }
            Act::BlockPath { k } => {
                let p = self.rig.storage_dir().join(hexkey(&self.uni.keys[*k]));
                std::fs::create_dir_all(&p).expect("squat");
                self.blocked[*k] = true;
                self.excluded[*k] = true;
            }
            Act::UnblockPath { k } => {
                let p = self.rig.storage_dir().join(hexkey(&self.uni.keys[*k]));
                let _ = std::fs::remove_dir(&p);
                self.blocked[*k] = false;
            }
            Act::RunTask { i, .. } => {
                let en = self.rig.enabled_tasks();
                if let Some(id) = en.get(*i) {
                    self.rig.run_task(*id);
                }
            }
            Act::Deliver { .. } => {
                // a failed-write notification makes the store remove the key on its own
                self.rig.deliver();
            }
        }
    }
}

/// Removal through the range clean-up (`cleanup_irrelevant_records`, which only acts on a store of at least 1638
/// records): a store of 1638 / 1650 settled records stored nearest-first — so the 25 newest, still in the read cache,
/// are the farthest — a range after rank n-40 / n-10 / n-1, clean-up, settle. Every key beyond the range is a removed
/// key (not listed, not readable, file gone), every other reads back exactly. Then each of three removed keys is put
/// again with the *same* bytes: an accepted write that must be listed and readable once settled, also after 26 other
/// puts have rolled the read cache over.
fn bulk_cleanup_readback(run: &Run) {
    const THRESHOLD: usize = 16 * 1024 / 10;
    let peer = rigs::fixtures::peer_id(1);
    let all = ranked_keys(peer, THRESHOLD + 12, "c01-bulk");
    let value = |i: usize| -> Vec<u8> { [&[0x91u8, 1][..], format!("bulk {i}").as_bytes()].concat() };
    let cases: Vec<(usize, usize)> = vec![(THRESHOLD, 40), (THRESHOLD, 10), (THRESHOLD + 12, 10), (THRESHOLD + 12, 1)];
    std::thread::scope(|sc| {
        for (n, beyond) in cases {
            let all = &all;
            sc.spawn(move || {
                let scratch = fresh_scratch("c01-bulk");
                let mut rig = StoreRig::new(&scratch, RigCfg { max_records: 16 * 1024, cache_size: 25, max_value_bytes: None }, peer);
                for (i, k) in all.iter().take(n).enumerate() {
                    rig.put(k, &value(i)).expect("bulk put");
                }
                rig.settle();
                let me = ant_protocol::NetworkAddress::from_peer(peer);
                let d = |k: &libp2p::kad::RecordKey| crate::c10::distance_u256(&me, k);
                let gap = n - beyond;
                let (lo, hi) = (d(&all[gap - 1]), d(&all[gap]));
                rig.store.verif_set_responsible_distance_range(lo + (hi - lo) / ant_evm::U256::from(2u8));
                rig.cleanup();
                rig.settle();
                let desc = serde_json::json!({"engine": "bulk-clean-up", "records": n, "beyond_the_range": beyond});
                run.case(desc.to_string().as_bytes(), true);
                let listed: std::collections::BTreeSet<String> = rig.view().records.iter().map(|(k, _)| hexkey(k)).collect();
                let files = rig.listing();
                if listed.len() == n {
                    run.machinery_error("bulk clean-up removed nothing: the scenario would be vacuous");
                }
                for (i, k) in all.iter().take(n).enumerate() {
                    let got = rig.get(k).map(|r| r.value);
                    let h = hexkey(k);
                    if i >= gap {
                        if listed.contains(&h) {
                            run.violation("removed-not-listed", "range-clean-up", format!("{n} records, the {beyond} farthest beyond the range: rank {i} is still listed after the clean-up"), desc.clone());
                        }
                        if got.is_some() {
                            run.violation("removed-not-readable", "range-clean-up", format!("{n} records, the {beyond} farthest beyond the range: rank {i} was removed by the clean-up (listed: {}, file: {}) and is still readable", listed.contains(&h), files.contains_key(&h)), desc.clone());
                        }
                        if files.contains_key(&h) {
                            run.violation("removed-file-gone", "range-clean-up", format!("{n} records: the file of rank {i} survives the clean-up that removed it"), desc.clone());
                        }
                    } else if got.as_deref() != Some(&value(i)[..]) {
                        run.violation("settled-write-readable", "range-clean-up", format!("{n} records: rank {i} is within the range and no longer reads back after the clean-up"), desc.clone());
                    }
                }
                // the same bytes again for three of the removed keys (newest, oldest removed, middle): accepted writes
                let again: Vec<usize> = vec![n - 1, gap, gap + (n - gap) / 2];
                let mut accepted = vec![];
                for i in again {
                    if rig.put(&all[i], &value(i)).is_ok() {
                        accepted.push(i);
                    }
                }
                rig.settle();
                for phase in ["settled", "after the read cache rolled over"] {
                    if phase != "settled" {
                        for i in 0..26usize {
                            let _ = rig.put(&all[i], &[&value(i)[..], b" v2"].concat());
                        }
                        rig.settle();
                    }
                    let listed: std::collections::BTreeSet<String> = rig.view().records.iter().map(|(k, _)| hexkey(k)).collect();
                    for i in &accepted {
                        let got = rig.get(&all[*i]).map(|r| r.value);
                        if !listed.contains(&hexkey(&all[*i])) {
                            run.violation("settled-write-listed", "put-again-after-range-clean-up", format!("{n} records: rank {i} was removed by the clean-up, put again (answered Ok) and is not listed ({phase})"), desc.clone());
                        }
                        if got.as_deref() != Some(&value(*i)[..]) {
                            run.violation("settled-write-readable", "put-again-after-range-clean-up", format!("{n} records: rank {i} was removed by the clean-up, put again (answered Ok) and does not read back ({phase})"), desc.clone());
                        }
                    }
                }
                drop(rig);
                let _ = std::fs::remove_dir_all(&scratch);
            });
        }
    });
}

pub fn main(tier: Option<&str>) {
    let run = Run::new("C01", "model_checking", tier);
    run.rule(
        "BFS, replay mode, over histories of {Put(k,v) for 3 keys of 3 record kinds x 2 values, Remove(k), Block/UnblockPath(k), \
         RunTask(oldest pending task of any key), Deliver(oldest notification)} on a real NodeRecordStore (encrypt-records on) in two \
         configurations (capacity 2 or 100, cache 1 or 25, from empty and from pre-filled settled stores); at most 3(4) API operations \
         per history, scheduler steps unbounded (every history runs to quiescence); state key = index, distance index, cache, reads, directory \
         listing with content hashes, pending tasks per key, queued notifications, reference expectation. Oracle evaluated after every \
         transition (safety) and in every quiescent state (liveness). Plus removal through the range clean-up: stores of 1638 / 1650 \
         settled records stored nearest-first (the 25 newest, still cached, are the farthest), a range that leaves the 40 / 10 / 1 farthest outside, clean-up; \
         every key judged for listed / readable / file, three removed keys put again with the same bytes and judged settled and after a cache roll-over.",
    );
    run.assume("tasks of one key keep their spawn order (the statement quantifies over tasks of different keys)");
    run.assume("keys that saw an I/O failure or a refused (MaxRecords) put are judged by the safety clause only");
    run.assume("record payloads: 2 fixed values per key; the store never parses past the 2-byte header");
    let api: usize = run.pick(3, 4);
    for (cfg, block, prefill, label) in [
        (RigCfg { max_records: 2, cache_size: 1, max_value_bytes: None }, false, vec![], "cap2-cache1"),
        (RigCfg { max_records: 2, cache_size: 1, max_value_bytes: None }, false, vec![(0, 0), (1, 0)], "cap2-cache1-prefilled(k0,k1)"),
        (RigCfg { max_records: 2, cache_size: 25, max_value_bytes: None }, false, vec![(1, 0), (2, 0)], "cap2-cache25-prefilled(k1,k2)"),
        (RigCfg { max_records: 100, cache_size: 25, max_value_bytes: None }, false, vec![], "cap100-cache25"),
        (RigCfg { max_records: 100, cache_size: 1, max_value_bytes: None }, false, vec![(0, 0), (1, 0), (2, 0)], "cap100-cache1-prefilled(all)"),
        (RigCfg { max_records: 100, cache_size: 1, max_value_bytes: None }, true, vec![(0, 0)], "cap100-cache1-iofail-prefilled(k0)"),
    ] {
        let a = if block { api.saturating_sub(1).max(2) } else { api };
        bfs_replay(
            &run,
            BfsOpts { max_depth: 6 * a + 2, wall_cap: Some(std::time::Duration::from_secs(run.pick(45, 1500))), state_cap: None, label: format!("{label}/api<={a}") },
            || Sys::new(cfg.clone(), block, a, &prefill),
        );
    }
    bulk_cleanup_readback(&run);
    crate::driver_rig::c01_differential(&run);
    crate::driver_rig::c01_flow_differential(&run);
    run.finish();
}
