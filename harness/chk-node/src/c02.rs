//! C02 — a restarted node never serves corrupted records and keeps completed writes.
//! Crash-point enumeration on the store rig: BFS over Put/Remove histories with every order of
//! background-task completion; in **every** reachable state the node is stopped (a) exactly
//! there and (b) with each pending file write in flight at **every byte prefix** of what it was
//! writing; the real store is then re-opened on the directory with the same identity, twice.
use crate::c01::fresh_scratch;
use crate::store_rig::{hexkey, ranked_keys, RigCfg, StoreRig};
use libp2p::kad::{Record, RecordKey};
use mc_core::bfs::{bfs_replay, BfsOpts, Fail, System};
use mc_core::Run;
use std::collections::HashMap;
use std::path::{Path, PathBuf};
use std::sync::{Arc, Mutex};

#[derive(Clone, Debug)]
pub enum Act {
    Put { k: usize, v: usize },
    Remove { k: usize },
    RunTask { i: usize, what: String },
    Deliver { what: String },
}

#[derive(Clone, Debug, PartialEq)]
enum Op {
    Put { v: usize, write_done: bool },
    /// `wait`: tasks of this key still to run before the removal is complete (everything that was pending for the key when
    /// remove() returned, the delete task included); 0 = complete
    Remove { delete_done: bool, wait: usize },
}

struct Shared {
    keys: Vec<RecordKey>,
    values: Vec<Vec<Vec<u8>>>,
    /// bytes the real write task puts on disk for (k, v): produced by running the real task once
    file_bytes: Mutex<HashMap<(usize, usize), Vec<u8>>>,
    crash_points: std::sync::atomic::AtomicU64,
    torn_points: std::sync::atomic::AtomicU64,
    recoveries: std::sync::atomic::AtomicU64,
    sample_done: std::sync::atomic::AtomicBool,
}

pub struct Sys {
    rig: StoreRig,
    sh: Arc<Shared>,
    /// per key: operations issued so far, in order
    ops: Vec<Vec<Op>>,
    api_used: usize,
    api_max: usize,
    scratch: PathBuf,
    run: &'static Run,
}

impl Drop for Sys {
    fn drop(&mut self) {
        let _ = std::fs::remove_dir_all(&self.scratch);
    }
}

fn copy_dir(from: &Path, to: &Path) {
    std::fs::create_dir_all(to).expect("mkdir");
    if let Ok(rd) = std::fs::read_dir(from) {
        for e in rd.flatten() {
            let p = e.path();
            let dst = to.join(e.file_name());
            if p.is_dir() {
                copy_dir(&p, &dst);
            } else {
                std::fs::copy(&p, &dst).expect("copy");
            }
        }
    }
}

const MAX_VALUE: usize = 96;

fn cfg() -> RigCfg {
    // a small value limit, so that the largest admissible value (limit - 1 bytes) is cheap to tear at every byte
    RigCfg { max_records: 100, cache_size: 1, max_value_bytes: Some(MAX_VALUE) }
}

impl Shared {
    fn bytes_for(&self, k: usize, v: usize) -> Vec<u8> {
        if let Some(b) = self.file_bytes.lock().unwrap().get(&(k, v)) {
            return b.clone();
        }
        // run the real write task once on a separate store with the same identity (same seed)
        let dir = fresh_scratch("c02-bytes");
        let mut rig = StoreRig::new(&dir, cfg(), rigs::fixtures::peer_id(1));
        rig.settle();
        rig.put(&self.keys[k], &self.values[k][v]).expect("put");
        let id = rig.enabled_tasks()[0];
        rig.run_task(id);
        let b = std::fs::read(rig.storage_dir().join(hexkey(&self.keys[k]))).expect("written file");
        drop(rig);
        let _ = std::fs::remove_dir_all(&dir);
        self.file_bytes.lock().unwrap().insert((k, v), b.clone());
        b
    }
}

impl Sys {
    fn new(run: &'static Run, sh: Arc<Shared>, api_max: usize) -> Sys {
        let scratch = fresh_scratch("c02");
        let mut rig = StoreRig::new(&scratch, cfg(), rigs::fixtures::peer_id(1));
        rig.settle();
        Sys { rig, sh, ops: vec![vec![], vec![]], api_used: 0, api_max, scratch, run }
    }

    fn key_of_tag(&self, tag: &str) -> Option<usize> {
        self.sh.keys.iter().position(|k| hexkey(k) == tag)
    }

    /// Stop the node on `dir` (a copy of the storage root), restart it twice, judge.
    fn recover_and_check(&self, root: &Path, how: &str, fails: &mut Vec<Fail>) {
        self.sh.recoveries.fetch_add(1, std::sync::atomic::Ordering::Relaxed);
        let mut rig = StoreRig::new(root, cfg(), rigs::fixtures::peer_id(1));
        let first = self.observe(&rig);
        for (k, key) in self.sh.keys.iter().enumerate() {
            let got = rig.get(key).map(|r| r.value);
            let listed = rig.store.verif_contains(key);
            // never a truncated or mixed value
            if let Some(g) = &got {
                if !self.sh.values[k].contains(g) {
                    fails.push(Fail::new("no-corrupt-read", how_class(how), format!("after {how}: k{k} reads {} bytes that are not a validated value of this key", g.len())));
                }
            }
            if listed && got.is_none() {
                fails.push(Fail::new("listed-implies-readable", how_class(how), format!("after {how}: k{k} is listed by the restarted store but cannot be read")));
            }
            match self.ops[k].last() {
                Some(Op::Put { v, write_done: true }) if !how.contains(&format!("torn write of k{k}")) => {
                    if got.as_ref() != Some(&self.sh.values[k][*v]) || !listed {
                        fails.push(Fail::new(
                            "completed-write-survives",
                            how_class(how),
                            format!("after {how}: k{k}'s last write had completed (value {v}) but the restarted store serves {:?} (listed={listed})", got.as_ref().map(|g| g.len())),
                        ));
                    }
                }
                Some(Op::Remove { delete_done: true, .. }) => {
                    if got.is_some() || listed {
                        fails.push(Fail::new("completed-removal-stays", how_class(how), format!("after {how}: k{k}'s removal had completed but the restarted store serves it again")));
                    }
                }
                _ => {}
            }
        }
        // recovery is idempotent
        rig.settle();
        let rig2 = rig.restart();
        let second = self.observe(&rig2);
        if first != second {
            fails.push(Fail::new("recovery-idempotent", how_class(how), format!("after {how}: a second restart changes what is served: {first} -> {second}")));
        }
    }

    fn observe(&self, rig: &StoreRig) -> String {
        self.sh.keys.iter().map(|k| format!("{:?}/{}", rig.get(k).map(|r| r.value.len()), rig.store.verif_contains(k))).collect::<Vec<_>>().join(",")
    }

    fn crash_everywhere(&self, fails: &mut Vec<Fail>) {
        let base = fresh_scratch("c02-crash");
        let state_key = mc_core::key128(&self.canon());
        let nontrivial = !self.rig.listing().is_empty();
        // (a) stop exactly here
        copy_dir(&self.rig.root, &base);
        self.sh.crash_points.fetch_add(1, std::sync::atomic::Ordering::Relaxed);
        self.run.case(format!("{state_key}:between").as_bytes(), nontrivial);
        self.recover_and_check(&base, "a stop between tasks", fails);
        let _ = std::fs::remove_dir_all(&base);
        // (b) one pending file write in flight, at every byte prefix
        for id in self.rig.enabled_tasks() {
            let info = self.rig.exec.info(id);
            if !info.func.ends_with("::put_verified") {
                continue;
            }
            let Some(k) = self.key_of_tag(&info.tag) else { continue };
            // the value this write carries: the oldest put of k whose write has not completed
            let Some(v) = self.ops[k].iter().find_map(|o| match o {
                Op::Put { v, write_done: false } => Some(*v),
                _ => None,
            }) else {
                continue;
            };
            let full = self.sh.bytes_for(k, v);
            for p in 0..=full.len() {
                let dir = fresh_scratch("c02-torn");
                copy_dir(&self.rig.root, &dir);
                std::fs::write(dir.join("record_store").join(hexkey(&self.sh.keys[k])), &full[..p]).expect("torn file");
                self.sh.torn_points.fetch_add(1, std::sync::atomic::Ordering::Relaxed);
                self.run.case(format!("{state_key}:torn:{k}:{v}:{p}").as_bytes(), true);
                let how = format!("a torn write of k{k} (value {v}) at byte {p}/{}", full.len());
                if !self.sh.sample_done.swap(true, std::sync::atomic::Ordering::Relaxed) {
                    self.run.sample(serde_json::json!({"crash": how, "ops_issued": format!("{:?}", self.ops)}));
                }
                self.recover_and_check(&dir, &how, fails);
                let _ = std::fs::remove_dir_all(&dir);
            }
        }
    }
}

fn how_class(how: &str) -> &'static str {
    if how.contains("torn") {
        "torn-write"
    } else {
        "between-tasks"
    }
}

impl System for Sys {
    type Action = Act;
    fn actions(&self) -> Vec<Act> {
        let mut v = vec![];
        for (i, id) in self.rig.enabled_tasks().into_iter().enumerate() {
            let info = self.rig.exec.info(id);
            let k = self.key_of_tag(&info.tag).map(|k| format!("k{k}")).unwrap_or_else(|| info.tag.clone());
            v.push(Act::RunTask { i, what: format!("{}@{k}", info.func) });
        }
        if let Some(q) = self.rig.queue_desc().first() {
            v.push(Act::Deliver { what: q.clone() });
        }
        if self.api_used < self.api_max {
            for k in 0..2 {
                for val in 0..2 {
                    v.push(Act::Put { k, v: val });
                }
            }
            for k in 0..2 {
                v.push(Act::Remove { k });
            }
        }
        v
    }

    fn step(&mut self, a: &Act, fails: &mut Vec<Fail>) {
        self.apply(a);
        // every transition's target state gets the full crash enumeration (successor states are
        // de-duplicated by the search afterwards)
        self.crash_everywhere(fails);
    }

    fn step_quiet(&mut self, a: &Act) {
        self.apply(a);
    }

    fn canon(&self) -> Vec<u8> {
        let mut b = self.rig.canon(&self.sh.keys);
        b.extend(format!(";ops={:?};api={}", self.ops.iter().map(|o| o.iter().rev().take(2).cloned().collect::<Vec<_>>()).collect::<Vec<_>>(), self.api_used).bytes());
        b
    }
}

impl Sys {
    fn apply(&mut self, a: &Act) {
        match a {
            Act::Put { k, v } => {
                self.api_used += 1;
                let before = self.rig.exec.task_count();
                let key = self.sh.keys[*k].clone();
                let val = self.sh.values[*k][*v].clone();
                let r = self.rig.put(&key, &val);
                if r.is_ok() && self.rig.exec.task_count() > before {
                    self.ops[*k].push(Op::Put { v: *v, write_done: false });
                }
            }
            Act::Remove { k } => {
                self.api_used += 1;
                let key = self.sh.keys[*k].clone();
                self.rig.remove(&key);
                // the removal is complete once everything pending for this key at this moment has run (tasks of one key
                // run in order); if remove() left nothing to do it is complete at once
                let tag = hexkey(&key);
                let wait = self.rig.exec.unfinished().iter().filter(|id| self.rig.exec.info(**id).tag == tag).count();
                self.ops[*k].push(Op::Remove { delete_done: wait == 0, wait });
            }
            Act::RunTask { i, .. } => {
                if let Some(id) = self.rig.enabled_tasks().get(*i).copied() {
                    let info = self.rig.exec.info(id).clone();
                    self.rig.run_task(id);
                    if let Some(k) = self.key_of_tag(&info.tag) {
                        if info.func.ends_with("::put_verified") {
                            if let Some(o) = self.ops[k].iter_mut().find(|o| matches!(o, Op::Put { write_done: false, .. })) {
                                *o = match o.clone() {
                                    Op::Put { v, .. } => Op::Put { v, write_done: true },
                                    x => x,
                                };
                            }
                        }
                        // one task of this key has run: every removal still waiting is one step closer
                        for o in self.ops[k].iter_mut() {
                            if let Op::Remove { delete_done: false, wait } = o {
                                *wait = wait.saturating_sub(1);
                                if *wait == 0 {
                                    *o = Op::Remove { delete_done: true, wait: 0 };
                                }
                            }
                        }
                    }
                }
            }
            Act::Deliver { .. } => {
                self.rig.deliver();
            }
        }
    }
}

/// One record of the size real chunks have (well above any internal block size of the sealing code), written once by the
/// real write task; then every byte prefix 0..=len of its file is left behind as the only content of a store directory and
/// the real store is opened on it with the same identity: it serves nothing or exactly the value (and the value at the full length).
fn large_record_sweep(run: &'static Run) {
    let peer = rigs::fixtures::peer_id(1);
    let key = ranked_keys(peer, 1, "c02-large").remove(0);
    let big = RigCfg { max_records: 100, cache_size: 1, max_value_bytes: None };
    for len in run.pick(vec![140_000usize], vec![70_000, 140_000, 300_000]) {
        let mut value = vec![0x91u8, 1];
        value.extend((0..len - 2).map(|i| ((i * 31 + i / 251) % 256) as u8));
        let full = {
            let dir = fresh_scratch("c02-large-bytes");
            let mut rig = StoreRig::new(&dir, big.clone(), peer);
            rig.settle();
            rig.put(&key, &value).expect("put of a large record");
            let id = rig.enabled_tasks()[0];
            rig.run_task(id);
            let b = std::fs::read(rig.storage_dir().join(hexkey(&key))).expect("written file");
            drop(rig);
            let _ = std::fs::remove_dir_all(&dir);
            b
        };
        let next = std::sync::atomic::AtomicUsize::new(0);
        let total = full.len() + 1;
        std::thread::scope(|sc| {
            for _ in 0..mc_core::workers() {
                sc.spawn(|| {
                    let dir = fresh_scratch("c02-large");
                    std::fs::create_dir_all(dir.join("record_store")).expect("mkdir");
                    let file = dir.join("record_store").join(hexkey(&key));
                    loop {
                        let p = next.fetch_add(1, std::sync::atomic::Ordering::Relaxed);
                        if p >= total {
                            break;
                        }
                        std::fs::write(&file, &full[..p]).expect("torn file");
                        run.case(format!("large:{len}:{p}").as_bytes(), true);
                        let rig = StoreRig::new(&dir, big.clone(), peer);
                        let got = rig.get(&key).map(|r| r.value);
                        let listed = rig.store.verif_contains(&key);
                        let w = serde_json::json!({"op": "large-record-torn", "value_len": len, "file_len": full.len(), "torn_at": p});
                        if let Some(g) = &got {
                            if *g != value {
                                run.violation("no-corrupt-read", "torn-write", format!("after a torn write of a {len}-byte record at byte {p}/{}: the restarted store serves {} bytes that are not the validated value", full.len(), g.len()), w.clone());
                            }
                        }
                        if listed && got.is_none() {
                            run.violation("listed-implies-readable", "torn-write", format!("after a torn write of a {len}-byte record at byte {p}/{}: listed by the restarted store but unreadable", full.len()), w.clone());
                        }
                        if p == full.len() && (got.is_none() || !listed) {
                            run.violation("completed-write-survives", "between-tasks", format!("a completely written {len}-byte record is not served after a restart"), w);
                        }
                        drop(rig);
                    }
                    let _ = std::fs::remove_dir_all(&dir);
                });
            }
        });
        run.count("large_record_torn_points", total as u64);
    }
}

/// Restarts through the real builder. `NetworkBuilder::build_node` decides from the network id recorded in the root
/// directory whether the record store of an earlier run is kept or wiped; a node restarted with the same identity *and the
/// same network id* must serve every record whose write had completed. Every sequence of 3(4) runs over the network ids
/// {1, 2, 10, 100, 255} (one, two and three digits) on one root directory: each run reads what earlier runs stored, then
/// stores one more record through the real `PutLocalRecord` handling and settles. A run that follows a run with another id
/// is a deliberate wipe and is judged for safety only (whatever is served is a value stored for that key).
fn restart_through_builder(run: &Run) {
    use crate::driver_rig::DriverRig;
    use ant_networking::verif_hooks::{LocalSwarmCmd, UnifiedRecordStore};
    use libp2p::kad::store::RecordStore;
    let ids: [u8; 5] = [1, 2, 10, 100, 255];
    let runs = run.pick(3, 4);
    let peer = rigs::fixtures::peer_id(1);
    let keys = ranked_keys(peer, runs, "c02-builder");
    let value = |i: usize| -> Vec<u8> { [&[0x91u8, 1][..], format!("stored in run {i}").as_bytes()].concat() };
    let read = |rig: &mut DriverRig, k: &RecordKey| -> Option<Vec<u8>> {
        match rig.store() {
            UnifiedRecordStore::Node(s) => s.get(k).map(|r| r.into_owned().value),
            UnifiedRecordStore::Client(_) => None,
        }
    };
    let mut kept_checked = 0u64;
    mc_core::enumerate::sequences(&ids, runs, |seq| {
        if seq.len() != runs {
            return;
        }
        let root = fresh_scratch("c02-builder");
        let desc = serde_json::json!({"engine": "restart-through-builder", "network_ids_of_the_runs": seq});
        run.case(desc.to_string().as_bytes(), seq.windows(2).any(|w| w[0] == w[1]));
        // records stored (and settled) by the unbroken series of runs with the current id
        let mut expected: Vec<usize> = vec![];
        let mut prev: Option<u8> = None;
        for (i, id) in seq.iter().enumerate() {
            ant_protocol::version::set_network_id(*id);
            let mut rig = DriverRig::new_node(1, &root);
            if prev != Some(*id) {
                expected.clear();
            }
            for j in 0..i {
                let got = read(&mut rig, &keys[j]);
                if let Some(g) = &got {
                    if *g != value(j) {
                        run.violation("served-value-was-validated", "restart-through-builder", format!("run {i} (network id {id}) serves bytes for the key of run {j} that were never stored for it ({desc})"), desc.clone());
                    }
                }
                if expected.contains(&j) {
                    kept_checked += 1;
                    if got.is_none() {
                        run.violation(
                            "completed-write-survives",
                            "restart-through-builder",
                            format!("the record stored and settled in run {j} is not served in run {i}, although every run since then used the same identity and network id {id} ({desc})"),
                            desc.clone(),
                        );
                    }
                }
            }
            let record = Record { key: keys[i].clone(), value: value(i), publisher: None, expires: None };
            let _ = rig.handle_local(LocalSwarmCmd::PutLocalRecord { record });
            rig.settle();
            if read(&mut rig, &keys[i]).as_deref() != Some(&value(i)[..]) {
                run.machinery_error(&format!("restart-through-builder: a record put through the real driver does not read back in the same run ({desc})"));
            }
            expected.push(i);
            prev = Some(*id);
            drop(rig);
        }
        let _ = std::fs::remove_dir_all(&root);
    });
    ant_protocol::version::set_network_id(1);
    if kept_checked == 0 {
        run.machinery_error("restart-through-builder: no run followed a run with the same network id");
    }
    run.extra("restart_through_builder", serde_json::json!({"network_ids": ids, "runs_per_sequence": runs, "kept_records_checked": kept_checked}));
}

/// After a crash in the middle of a write: the restart finds a torn file (every byte prefix in thorough; the empty file, 1
/// byte, half, all but one byte in quick), serves nothing for the key, and life goes on — the same key is stored again
/// (same or other content, as replication does for a record the node is responsible for and lacks), everything settles,
/// the periodic clean-up round runs (once or twice), and the node restarts again. The second write completed and was
/// never removed or overwritten: it must be served before and after that restart.
fn rewrite_after_torn_restart(run: &Run) {
    let peer = rigs::fixtures::peer_id(1);
    let keys = ranked_keys(peer, 2, "c02-torn-rewrite");
    let v1: Vec<u8> = [&[0x91u8, 1][..], b"first version, torn by the crash"].concat();
    let v2: Vec<u8> = [&[0x91u8, 1][..], b"another version, written after the restart and a little longer"].concat();
    // the bytes a complete write of v1 leaves on disk
    let scratch = fresh_scratch("c02-torn-src");
    let mut rig = StoreRig::new(&scratch, RigCfg { max_records: 16, cache_size: 2, max_value_bytes: None }, peer);
    rig.put(&keys[0], &v1).expect("put");
    rig.settle();
    let file = rig.storage_dir().join(hexkey(&keys[0]));
    let full = std::fs::read(&file).expect("record file");
    drop(rig);
    let _ = std::fs::remove_dir_all(&scratch);
    let prefixes: Vec<usize> = if run.quick() { vec![0, 1, full.len() / 2, full.len() - 1] } else { (0..full.len()).collect() };
    let mut n = 0u64;
    for p in prefixes {
        for (vname, again) in [("the same content", &v1), ("other content", &v2)] {
            for rounds in [1usize, 2] {
                let scratch = fresh_scratch("c02-torn-rewrite");
                let dir = scratch.join("record_store");
                std::fs::create_dir_all(&dir).expect("dir");
                std::fs::write(dir.join(hexkey(&keys[0])), &full[..p]).expect("torn file");
                let mut rig = StoreRig::new(&scratch, RigCfg { max_records: 16, cache_size: 2, max_value_bytes: None }, peer);
                let desc = serde_json::json!({"engine": "torn-file-then-rewrite", "torn_at": p, "of": full.len(), "written_again": vname, "clean_up_rounds": rounds});
                run.case(desc.to_string().as_bytes(), true);
                n += 1;
                if let Some(r) = rig.get(&keys[0]) {
                    if r.value != v1 {
                        run.violation("served-value-was-validated", "torn-file-then-rewrite", format!("the restart on a file torn at byte {p} serves bytes that were never validated"), desc.clone());
                    }
                }
                if rig.put(&keys[0], again).is_err() {
                    run.violation("completed-write-survives", "torn-file-then-rewrite/put-refused", format!("after a restart on a file torn at byte {p} the key cannot be stored again"), desc.clone());
                    continue;
                }
                rig.settle();
                // roll the two-entry read cache over so that reads come from disk
                rig.put(&keys[1], &v1).expect("other key");
                rig.settle();
                for _ in 0..rounds {
                    rig.cleanup();
                    rig.settle();
                }
                for phase in ["before the second restart", "after the second restart"] {
                    if phase.starts_with("after") {
                        rig = rig.restart();
                    }
                    let got = rig.get(&keys[0]).map(|r| r.value);
                    if got.as_deref() != Some(&again[..]) {
                        run.violation(
                            "completed-write-survives",
                            "torn-file-then-rewrite",
                            format!("file torn at byte {p} of {}, restart, the key written again ({vname}) and settled, {rounds} clean-up round(s): {phase} the record reads {}", full.len(), if got.is_some() { "other bytes" } else { "nothing" }),
                            desc.clone(),
                        );
                        break;
                    }
                }
                drop(rig);
                let _ = std::fs::remove_dir_all(&scratch);
            }
        }
    }
    run.extra("torn_file_then_rewrite_histories", serde_json::json!(n));
}

/// Completed removals at clean-up scale, across a restart. A store of 1638 / 1650 settled records, nearest first; one key
/// beyond the coming range (not the farthest) is brought into the state a legitimate completion order produces — a newer
/// version's write completes, the key is removed, its file deleted, and only then the write's acknowledgement is handled:
/// the key is listed again without a file (C01's recorded finding) —; a range leaving the 40 / 10 farthest outside; clean-up;
/// everything settles; the node restarts with the same identity. Every key the clean-up removed is a completed removal and
/// must stay removed (not served, not listed); every key within the range is a completed write and must be served.
fn bulk_cleanup_restart(run: &Run) {
    const THRESHOLD: usize = 16 * 1024 / 10;
    let peer = rigs::fixtures::peer_id(1);
    let all = ranked_keys(peer, THRESHOLD + 12, "c02-bulk");
    let value = |i: usize| -> Vec<u8> { [&[0x91u8, 1][..], format!("bulk {i}").as_bytes()].concat() };
    let cases: Vec<(usize, usize, bool)> = vec![(THRESHOLD, 40, true), (THRESHOLD, 40, false), (THRESHOLD + 12, 10, true)];
    std::thread::scope(|sc| {
        for (n, beyond, stale_key) in cases {
            let all = &all;
            sc.spawn(move || {
                let scratch = fresh_scratch("c02-bulk");
                let mut rig = StoreRig::new(&scratch, RigCfg { max_records: 16 * 1024, cache_size: 25, max_value_bytes: None }, peer);
                for (i, k) in all.iter().take(n).enumerate() {
                    rig.put(k, &value(i)).expect("bulk put");
                }
                rig.settle();
                let gap = n - beyond;
                let stale = gap + beyond / 2;
                if stale_key {
                    let k = &all[stale];
                    rig.put(k, &[&value(stale)[..], b" v2"].concat()).expect("second version");
                    // the write, then the removal and its file deletion, and only then the write's acknowledgement
                    while let Some(id) = rig.exec_unfinished_first() {
                        rig.run_task(id);
                    }
                    rig.remove(k);
                    while let Some(id) = rig.exec_unfinished_first() {
                        rig.run_task(id);
                    }
                    while rig.deliver() {}
                    rig.settle();
                }
                let me = ant_protocol::NetworkAddress::from_peer(peer);
                let d = |k: &RecordKey| crate::c10::distance_u256(&me, k);
                let (lo, hi) = (d(&all[gap - 1]), d(&all[gap]));
                rig.store.verif_set_responsible_distance_range(lo + (hi - lo) / ant_evm::U256::from(2u8));
                rig.cleanup();
                rig.settle();
                let listed_before: std::collections::BTreeSet<String> = rig.view().records.iter().map(|(k, _)| hexkey(k)).collect();
                if listed_before.len() >= n {
                    run.machinery_error("C02 bulk clean-up removed nothing: the scenario would be vacuous");
                }
                let rig = rig.restart();
                let desc = serde_json::json!({"engine": "bulk-clean-up-then-restart", "records": n, "beyond_the_range": beyond, "one_removed_key_listed_without_a_file_beforehand": stale_key});
                run.case(desc.to_string().as_bytes(), true);
                let listed: std::collections::BTreeSet<String> = rig.view().records.iter().map(|(k, _)| hexkey(k)).collect();
                let (mut served_again, mut first) = (0usize, None);
                for (i, k) in all.iter().take(n).enumerate() {
                    let got = rig.get(k).map(|r| r.value);
                    if i >= gap {
                        if got.is_some() || listed.contains(&hexkey(k)) {
                            served_again += 1;
                            first.get_or_insert(i);
                        }
                    } else if got.as_deref() != Some(&value(i)[..]) {
                        run.violation("completed-write-survives", "range-clean-up-then-restart", format!("{n} records: rank {i} is within the range, was written and settled, and is not served after the restart"), desc.clone());
                    }
                }
                if served_again > 0 {
                    run.violation(
                        "completed-removal-stays",
                        "range-clean-up-then-restart",
                        format!("{n} records: {served_again} of the {beyond} records the clean-up removed (everything had settled) are served or listed again after the restart (first: rank {})", first.unwrap()),
                        desc.clone(),
                    );
                }
                drop(rig);
                let _ = std::fs::remove_dir_all(&scratch);
            });
        }
    });
}

pub fn main(tier: Option<&str>) {
    let run: &'static Run = Box::leak(Box::new(Run::new("C02", "fault_enumeration", tier)));
    run.rule(
        "every reachable state of the store under histories of <=3(4) Put/Remove operations over 2 keys x 2 values (of different lengths, one of them the largest value the store admits) with every completion \
         order of the background tasks (per key in order); in each state the node is stopped exactly there and, for every pending file \
         write, at every byte prefix 0..=len of the ciphertext it was writing (the bytes come from running the real write task); \
         the real store is re-opened twice on the directory with the same identity. In addition one record of 140,000 bytes (thorough: 70,000 / 140,000 / 300,000) \
         written by the real write task is torn at every byte prefix of its file and the real store opened on it. A case = one (state, crash point); non-trivial = \
         the directory holds at least one record file or torn file.",
    );
    run.assume("process-stop semantics: completed file-system calls persist; reordering of unsynced blocks on power loss is not modelled");
    run.assume("fs::write truncates, then writes: a torn write leaves a byte prefix of the new content (the old content is gone)");
    run.assume("harness built against ant-node's default feature set (encrypt-records on), i.e. the shipped configuration");
    let peer = rigs::fixtures::peer_id(1);
    let keys = ranked_keys(peer, 2, "c02");
    let tags = [1u8, 3];
    // two values per key of different lengths; the second value of key 0 is the largest the store admits (limit - 1 bytes)
    let values: Vec<Vec<Vec<u8>>> = (0..2)
        .map(|k| {
            (0..2)
                .map(|v| {
                    let mut b = [&[0x91u8, tags[k]][..], format!("value-{k}-{}-{}", ["a", "b"][v], "x".repeat(3 + 5 * v)).as_bytes()].concat();
                    if k == 0 && v == 1 {
                        while b.len() < MAX_VALUE - 1 {
                            b.push(b'y');
                        }
                    }
                    b
                })
                .collect()
        })
        .collect();
    let sh = Arc::new(Shared {
        keys,
        values,
        file_bytes: Mutex::new(HashMap::new()),
        crash_points: Default::default(),
        torn_points: Default::default(),
        recoveries: Default::default(),
        sample_done: Default::default(),
    });
    let api = run.pick(3, 4);
    let st = bfs_replay(
        run,
        BfsOpts { max_depth: 6 * api + 2, wall_cap: Some(std::time::Duration::from_secs(run.pick(50, 1500))), state_cap: None, label: format!("store/api<={api}") },
        || Sys::new(run, sh.clone(), api),
    );
    let cp = sh.crash_points.load(std::sync::atomic::Ordering::Relaxed);
    let tp = sh.torn_points.load(std::sync::atomic::Ordering::Relaxed);
    run.extra("crash_points_between_tasks", serde_json::json!(cp));
    run.extra("torn_write_points", serde_json::json!(tp));
    run.extra("recoveries", serde_json::json!(sh.recoveries.load(std::sync::atomic::Ordering::Relaxed)));
    run.extra("transitions_crashed", serde_json::json!(st.transitions));
    restart_through_builder(run);
    bulk_cleanup_restart(run);
    rewrite_after_torn_restart(run);
    // a restart on a record directory that holds a file the node did not write (or wrote under another name)
    let (planted, _) = crate::c17s::sweep(run, "");
    run.extra("planted_file_restarts", serde_json::json!(planted));
    let t0 = std::time::Instant::now();
    large_record_sweep(run);
    run.extra("large_record_torn_points", serde_json::json!(run.get_count("large_record_torn_points")));
    println!("[C02] large-record sweep: {} torn points in {:.1}s", run.get_count("large_record_torn_points"), t0.elapsed().as_secs_f64());
    println!("[C02] crash points: {cp} between tasks, {tp} torn-write prefixes, {} recoveries", sh.recoveries.load(std::sync::atomic::Ordering::Relaxed));
    run.finish_ref();
}
