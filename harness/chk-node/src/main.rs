//! vcheck-node <ID> [quick|thorough] — checks that drive the real store / driver / node / client
//! through the `verif-hooks` feature.
mod c01;
mod c02;
mod c03;
mod c04;
mod c05;
mod c07;
mod c08;
mod c09;
mod c10;
mod c11;
mod c13d;
mod c17s;
mod c14;
mod c14u;
mod c15;
mod client_rig;
mod driver_rig;
mod evm_stub;
mod node_rig;
mod exec;
mod srcmap;
mod store_rig;

fn real_main() {
    let args: Vec<String> = std::env::args().collect();
    let id = args.get(1).map(|s| s.as_str()).unwrap_or("");
    let tier = args.get(2).map(|s| s.as_str());
    if id == "replay" {
        let path = args.get(2).expect("replay <file>");
        let v: serde_json::Value = serde_json::from_str(&std::fs::read_to_string(path).expect("read replay file")).expect("json");
        println!("replay of {}: witness\n{}", v["property"], serde_json::to_string_pretty(&v["witness"]).unwrap());
        println!("re-running the check that produced it (histories are explored simplest-first; the recorded one is the first of its kind)");
        let p = v["property"].as_str().unwrap_or("").to_string();
        return dispatch(&p, Some("quick"));
    }
    dispatch(id, tier)
}

fn dispatch(id: &str, tier: Option<&str>) {
    match id {
        "C01" => c01::main(tier),
        "C02" => c02::main(tier),
        "C03" => c03::main(tier),
        "C04" => c04::main(tier),
        "C05" => c05::main(tier),
        "C07" => c07::main(tier),
        "C08" => c08::main(tier),
        "C09" => c09::main(tier),
        "C10" => c10::main(tier),
        "C11" => c11::main(tier),
        "C13-driver" => c13d::main(tier),
        "C17-store" => c17s::main(tier),
        "C14" => c14::main(tier),
        "C14-small" => c14::main_small(tier),
        "C15" => c15::main(tier),
        _ => {
            eprintln!("usage: vcheck-node <C01|...> [quick|thorough]");
            std::process::exit(2);
        }
    }
}

fn main() {
    // logging is part of the environment: with a subscriber installed the arguments of the code's log lines are evaluated
    mc_core::logging::install();
    // a panic of the harness itself is a machinery failure (exit 2, no verdict), never a verdict about the property
    let id = std::env::args().nth(1).unwrap_or_default();
    if let Err(p) = std::panic::catch_unwind(real_main) {
        let msg = p.downcast_ref::<&str>().map(|s| s.to_string()).or_else(|| p.downcast_ref::<String>().cloned()).unwrap_or_else(|| "panic".into());
        println!("MACHINERY-ERROR property={id} the harness panicked: {msg}");
        mc_core::remove_scratch_root();
        std::process::exit(2);
    }
}
