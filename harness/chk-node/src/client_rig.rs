//! Client rig: a real `autonomi::Client` over a `Network` handle whose command channels the
//! harness owns — the harness *is* the network. Every `GetNetworkRecord` the client issues becomes
//! a pending request that the harness answers (in an order of its choosing) with a record, an
//! error, or a split result.
use crate::exec::Exec;
use ant_networking::verif_hooks::{LocalSwarmCmd, NetworkSwarmCmd};
use ant_networking::{GetRecordCfg, GetRecordError, Network};
use autonomi::Client;
use libp2p::kad::{Record, RecordKey};
use std::future::Future;
use std::sync::{Arc, Mutex};
use tokio::sync::{mpsc, oneshot};

pub struct PendingGet {
    pub key: RecordKey,
    pub cfg: GetRecordCfg,
    pub reply: oneshot::Sender<Result<Record, GetRecordError>>,
}

pub struct ClientRig {
    pub exec: Exec,
    pub client: Client,
    pub network: Network,
    net_rx: mpsc::Receiver<NetworkSwarmCmd>,
    _local_rx: mpsc::Receiver<LocalSwarmCmd>,
    pub pending: Vec<PendingGet>,
    pub gets_seen: usize,
    /// every other network command the client issued, in order (the harness is the network: it answers these too)
    pub other_cmds: Vec<NetworkSwarmCmd>,
}

impl ClientRig {
    pub fn new() -> ClientRig {
        Self::with_exec(Exec::new(false))
    }

    /// The same rig on the hook's virtual clock (for code that sleeps between attempts).
    pub fn new_paused() -> ClientRig {
        Self::with_exec(Exec::new_virtual_time())
    }

    fn with_exec(exec: Exec) -> ClientRig {
        let (net_tx, net_rx) = mpsc::channel(100_000);
        let (local_tx, local_rx) = mpsc::channel(100_000);
        let kp = rigs::fixtures::ed_keypair(50);
        let peer = libp2p::PeerId::from(kp.public());
        let network = Network::new(net_tx, local_tx, peer, kp);
        let client = Client::verif_new(network.clone(), ant_evm::EvmNetwork::ArbitrumOne);
        ClientRig { exec, client, network, net_rx, _local_rx: local_rx, pending: vec![], gets_seen: 0, other_cmds: vec![] }
    }

    /// Poll every runnable task (FIFO) until none is runnable, collecting the reads the client asks for.
    pub fn run_until_blocked(&mut self) {
        loop {
            let r = self.exec.runnable();
            if r.is_empty() {
                break;
            }
            for id in r {
                let _ = self.exec.poll(id);
            }
        }
        while let Ok(cmd) = self.net_rx.try_recv() {
            match cmd {
                NetworkSwarmCmd::GetNetworkRecord { key, sender, cfg } => {
                    self.gets_seen += 1;
                    self.pending.push(PendingGet { key, cfg, reply: sender });
                }
                other => self.other_cmds.push(other),
            }
        }
    }

    /// Start a client operation; its result lands in the returned slot.
    pub fn start<T: Send + 'static>(&mut self, fut: impl Future<Output = T> + Send + 'static) -> Arc<Mutex<Option<T>>> {
        let slot: Arc<Mutex<Option<T>>> = Arc::new(Mutex::new(None));
        let s2 = slot.clone();
        self.exec.add("client-op", async move {
            let r = fut.await;
            *s2.lock().unwrap() = Some(r);
        });
        slot
    }

    /// Drive `fut` to completion; `answer(pending requests) -> (index to answer, reply)` is asked each
    /// time the client is blocked with requests outstanding. None if the operation never completes.
    pub fn drive<T: Send + 'static>(
        &mut self,
        fut: impl Future<Output = T> + Send + 'static,
        mut answer: impl FnMut(&[PendingGet]) -> (usize, Result<Record, GetRecordError>),
    ) -> Option<T> {
        let slot = self.start(fut);
        let mut guard = 0;
        loop {
            self.run_until_blocked();
            if let Some(v) = slot.lock().unwrap().take() {
                return Some(v);
            }
            if self.pending.is_empty() {
                return None; // blocked with nothing to answer
            }
            guard += 1;
            if guard > 100_000 {
                return None;
            }
            let (i, reply) = answer(&self.pending);
            let p = self.pending.remove(i);
            let _ = p.reply.send(reply);
        }
    }
}

/// A split-result map whose iteration order is exactly the order of `records`. std's HashMap order is a
/// function of the map's random state: build maps until one iterates in the wanted order (the code under test
/// iterates that same map instance). None if that did not happen within the attempt budget.
pub fn result_map_in_order(records: &[Record]) -> Option<std::collections::HashMap<xor_name::XorName, (Record, std::collections::HashSet<libp2p::PeerId>)>> {
    let want: Vec<xor_name::XorName> = records.iter().map(|r| xor_name::XorName::from_content(&r.value)).collect();
    for _ in 0..500_000 {
        let mut m = std::collections::HashMap::new();
        for (i, r) in records.iter().enumerate() {
            let mut holders = std::collections::HashSet::new();
            holders.insert(rigs::fixtures::peer_id(60 + i as u8));
            m.insert(xor_name::XorName::from_content(&r.value), (r.clone(), holders));
        }
        if m.keys().cloned().collect::<Vec<_>>() == want {
            return Some(m);
        }
    }
    None
}
