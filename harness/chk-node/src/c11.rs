//! C11 — all distance computations agree with the XOR metric over hashed addresses.
//! Exhaustive over a 64-address universe (all 4096 ordered pairs), all subsets of a 10-peer list
//! for the sorters, every range bound in {d-1, d, d+1} for every pairwise distance, every count.
use ant_evm::U256;
use ant_networking::verif_hooks::verif_get_peers_in_range;
use ant_networking::{sort_peers_by_address, sort_peers_by_key, NetworkError};
use ant_node::verif_hooks::VerifNode;
use ant_protocol::storage::{ChunkAddress, RegisterAddress, ScratchpadAddress, TransactionAddress};
use ant_protocol::{convert_distance_to_u256, NetworkAddress, CLOSE_GROUP_SIZE};
use libp2p::PeerId;
use mc_core::{catch, enumerate, Run};
use rigs::reference::{xor_distance, U256Be};
use serde_json::json;
use xor_name::XorName;

fn u(b: &U256Be) -> U256 {
    U256::from_be_bytes(*b)
}

fn universe() -> Vec<(String, NetworkAddress)> {
    let mut v: Vec<(String, NetworkAddress)> = vec![];
    for i in 0..8u8 {
        v.push((format!("peer{i}"), NetworkAddress::from_peer(rigs::fixtures::peer_id(20 + i))));
    }
    let names: Vec<XorName> = (0..8u8).map(|i| if i == 0 { XorName([0u8; 32]) } else if i == 1 { XorName([0xff; 32]) } else { XorName::from_content(&[i]) }).collect();
    for (i, n) in names.iter().enumerate() {
        v.push((format!("chunk{i}"), NetworkAddress::from_chunk_address(ChunkAddress::new(*n))));
    }
    for i in 0..8u8 {
        // transaction addresses are derived from an owner key
        v.push((format!("tx{i}"), NetworkAddress::from_transaction_address(TransactionAddress::from_owner(rigs::fixtures::bls_sk(i + 1).public_key()))));
    }
    for i in 0..4u8 {
        v.push((format!("reg{i}"), NetworkAddress::from_register_address(RegisterAddress::new(XorName::from_content(&[i, 7]), rigs::fixtures::bls_sk(i + 1).public_key()))));
        v.push((format!("pad{i}"), NetworkAddress::from_scratchpad_address(ScratchpadAddress::new(rigs::fixtures::bls_sk(i + 1).public_key()))));
    }
    // every one of them again in raw record-key form
    let typed: Vec<(String, NetworkAddress)> = v.clone();
    for (n, a) in typed {
        v.push((format!("raw({n})"), NetworkAddress::from_record_key(&a.to_record_key())));
    }
    v
}

pub fn main(tier: Option<&str>) {
    let run = Run::new("C11", "exploration", tier);
    run.rule(
        "universe of 64 addresses (8 peers, 8 chunk, 8 transaction, 4 register, 4 scratchpad addresses and each of these 32 again as a raw \
         record key): all 4096 ordered pairs for the distance value, symmetry, zero-iff-equal and typed==raw; all 1024 subsets of a 10-peer \
         list x 5 targets (two of them equal to a listed peer's address, typed and raw) for the sorters; every range bound in {d-1,d,d+1 : d pairwise distance} + {0,MAX} for the range filters; every \
         requested count 0..=12; the number of records a real record store counts within every range bound d-1/d+1 (after writes, updates, a removal) for closest-peer selection; the replication fetcher's full-node bound at each of 6 ranked keys x {single key / six-key list, new / held in another version, in flight when the bound arrives}; a real SwarmDriver's own K closest local peers and its replication candidates for every range bound, on routing tables of 10 and of >= 30 peers (119 offered) met in three orders (as listed, reversed, farthest first). Non-trivial = the two addresses differ.",
    );
    run.assume("256-bit space covered through this universe only; reference = SHA-256 (sha2 crate) of the address bytes, XOR, big-endian");
    let uni = universe();
    // 1. pairs
    for (na, a) in &uni {
        for (nb, b) in &uni {
            let desc = json!({"op":"distance","a":na,"b":nb});
            run.case(format!("pair:{na}:{nb}").as_bytes(), na != nb);
            let want = u(&xor_distance(&a.as_bytes(), &b.as_bytes()));
            let got = match catch(|| convert_distance_to_u256(&a.distance(b))) {
                Ok(g) => g,
                Err(p) => {
                    run.violation("no-panic", "distance", format!("distance({na},{nb}) panicked: {p}"), desc);
                    continue;
                }
            };
            if got != want {
                run.violation("distance-is-xor-of-sha256", "value", format!("distance({na},{nb}) = {got}, XOR of SHA-256 digests = {want}"), desc.clone());
            }
            let back = convert_distance_to_u256(&b.distance(a));
            if back != got {
                run.violation("distance-symmetric", "asymmetric", format!("distance({na},{nb}) != distance({nb},{na})"), desc.clone());
            }
            let same_bytes = a.as_bytes() == b.as_bytes();
            if (got == U256::ZERO) != same_bytes {
                run.violation("zero-iff-equal", "zero", format!("distance({na},{nb}) = {got} but equal_bytes = {same_bytes}"), desc.clone());
            }
            // ordering of the libp2p Distance type agrees with the integer
            for (nc, c) in uni.iter().take(12) {
                let dc = convert_distance_to_u256(&a.distance(c));
                if (a.distance(b) < a.distance(c)) != (got < dc) {
                    run.violation("ordering-agrees", "distance-ord", format!("Distance ordering of ({na},{nb}) vs ({na},{nc}) disagrees with the integers"), desc.clone());
                }
            }
        }
    }
    // typed == raw
    for i in 0..32 {
        let (n, a) = &uni[i];
        let (_, raw) = &uni[i + 32];
        // peers are special: a peer's record-key form is its multihash bytes, the same bytes as_bytes() hashes
        for (nb, b) in &uni {
            run.case(format!("typedraw:{n}:{nb}").as_bytes(), true);
            if convert_distance_to_u256(&a.distance(b)) != convert_distance_to_u256(&raw.distance(b)) {
                run.violation("typed-equals-raw", "differs", format!("{n} and its raw record-key form are at different distances from {nb}"), json!({"op":"typed-raw","a":n,"b":nb}));
            }
        }
    }
    run.sample(json!({"distance": ["chunk0 (xorname 00..00)", "raw(pad1)"]}));

    // 2. sorters over all subsets of a 10-peer list
    let peers: Vec<PeerId> = (0..10u8).map(|i| rigs::fixtures::peer_id(40 + i)).collect();
    // targets: a chunk address, a transaction address, a peer outside the list, and — distance zero — the address of
    // a peer *in* the list, in typed and in raw (record key) form
    let among_typed = NetworkAddress::from_peer(peers[3]);
    let among_raw = NetworkAddress::from_record_key(&NetworkAddress::from_peer(peers[7]).to_record_key());
    let targets = [&uni[8].1, &uni[20].1, &uni[0].1, &among_typed, &among_raw];
    for mask in 0u32..1024 {
        let subset: Vec<PeerId> = (0..10).filter(|i| mask & (1 << i) != 0).map(|i| peers[i]).collect();
        for (ti, t) in targets.iter().enumerate() {
            let mut reference: Vec<PeerId> = subset.clone();
            reference.sort_by_key(|p| xor_distance(&t.as_bytes(), &NetworkAddress::from_peer(*p).as_bytes()));
            for expected in [0usize, 1, 4, 5, 6, 12] {
                let desc = json!({"op":"sort_peers","subset_mask":mask,"target":ti,"expected_entries":expected});
                run.case(format!("sort:{mask}:{ti}:{expected}").as_bytes(), subset.len() > 1);
                for which in 0..2 {
                    let res = if which == 0 { sort_peers_by_address(&subset, t, expected).map(|v| v.into_iter().cloned().collect::<Vec<_>>()) } else { sort_peers_by_key(&subset, &t.as_kbucket_key(), expected).map(|v| v.into_iter().cloned().collect::<Vec<_>>()) };
                    match res {
                        Ok(got) => {
                            let want: Vec<PeerId> = reference.iter().take(expected).cloned().collect();
                            if subset.len() < CLOSE_GROUP_SIZE {
                                run.violation("closest-peers", "too-few-not-reported", format!("{} peers known (< close group) but a result was returned", subset.len()), desc.clone());
                            } else if got != want {
                                run.violation("closest-peers", "order-or-count", format!("sorter returned {} peers, reference order gives {} ({desc})", got.len(), want.len()), desc.clone());
                            }
                        }
                        Err(NetworkError::NotEnoughPeers { found, required }) => {
                            if subset.len() >= CLOSE_GROUP_SIZE || found != subset.len() || required != CLOSE_GROUP_SIZE {
                                run.violation("closest-peers", "spurious-not-enough", format!("NotEnoughPeers{{{found},{required}}} with {} peers known", subset.len()), desc.clone());
                            }
                        }
                        Err(e) => run.violation("closest-peers", "other-error", format!("{e:?}"), desc.clone()),
                    }
                }
            }
        }
    }
    run.sample(json!({"sort_peers_by_address": {"subset_mask": 1023, "expected_entries": 5}}));

    // 2b. the selection a caller actually gets: Network::get_all_close_peers_in_range_or_close_group over what the
    // network found (the harness is the network and answers GetClosestPeersToAddressFromNetwork): every number of found
    // peers 3..=10, the caller's own id absent or at every rank of the found list, as a client (own id never selected)
    // and as a node (own id counts), the found list handed over nearest-first and in reverse
    {
        use ant_networking::verif_hooks::NetworkSwarmCmd;
        let expanded = CLOSE_GROUP_SIZE + CLOSE_GROUP_SIZE / 2;
        let t = &uni[8].1;
        let mut selections = 0u64;
        for n in 3..=10usize {
            for own_rank in (0..n).map(Some).chain(std::iter::once(None)) {
                for client in [true, false] {
                    for reversed in [false, true] {
                        let mut rig = crate::client_rig::ClientRig::new();
                        let me = rig.network.peer_id();
                        // n found peers, nearest first, the caller at `own_rank`
                        let mut pool: Vec<PeerId> = peers.iter().cloned().chain((0..4u8).map(|i| rigs::fixtures::peer_id(90 + i))).filter(|p| *p != me).collect();
                        pool.sort_by_key(|p| xor_distance(&t.as_bytes(), &NetworkAddress::from_peer(*p).as_bytes()));
                        let mut all: Vec<PeerId> = pool.iter().cloned().chain(std::iter::once(me)).collect();
                        all.sort_by_key(|p| xor_distance(&t.as_bytes(), &NetworkAddress::from_peer(*p).as_bytes()));
                        // choose n peers whose sorted list has `me` at own_rank: take own_rank others nearer than me, the rest farther
                        let my_pos = all.iter().position(|p| *p == me).unwrap();
                        let found: Vec<PeerId> = match own_rank {
                            None => pool.iter().take(n).cloned().collect(),
                            Some(r) => {
                                let nearer: Vec<PeerId> = all[..my_pos].iter().rev().take(r).cloned().collect();
                                let farther: Vec<PeerId> = all[my_pos + 1..].iter().take(n - 1 - nearer.len().min(r)).cloned().collect();
                                if nearer.len() < r {
                                    continue; // not enough peers nearer than the caller for this rank
                                }
                                let mut f: Vec<PeerId> = nearer.into_iter().chain(std::iter::once(me)).chain(farther).collect();
                                f.sort_by_key(|p| xor_distance(&t.as_bytes(), &NetworkAddress::from_peer(*p).as_bytes()));
                                if f.len() != n {
                                    continue;
                                }
                                f
                            }
                        };
                        let mut handed = found.clone();
                        if reversed {
                            handed.reverse();
                        }
                        let mut considered: Vec<PeerId> = found.iter().filter(|p| !(client && **p == me)).cloned().collect();
                        considered.sort_by_key(|p| xor_distance(&t.as_bytes(), &NetworkAddress::from_peer(*p).as_bytes()));
                        let want: Option<Vec<PeerId>> = if considered.len() < CLOSE_GROUP_SIZE { None } else { Some(considered.iter().take(expanded).cloned().collect()) };
                        let net = rig.network.clone();
                        let key = (*t).clone();
                        let slot = rig.start(async move { net.get_all_close_peers_in_range_or_close_group(&key, client).await.map_err(|e| format!("{e:?}")) });
                        rig.run_until_blocked();
                        for cmd in std::mem::take(&mut rig.other_cmds) {
                            if let NetworkSwarmCmd::GetClosestPeersToAddressFromNetwork { sender, .. } = cmd {
                                let _ = sender.send(handed.clone());
                            }
                        }
                        rig.run_until_blocked();
                        let got = slot.lock().unwrap().take();
                        selections += 1;
                        let desc = json!({"op":"network-closest-peers","found":n,"caller_rank_among_found":own_rank,"client":client,"handed_over_reversed":reversed});
                        run.case(format!("netclosest:{n}:{own_rank:?}:{client}:{reversed}").as_bytes(), true);
                        match (got, want) {
                            (None, _) => run.violation("closest-peers", "network-selection/never-answered", format!("the selection never completed ({desc})"), desc.clone()),
                            (Some(Ok(g)), Some(w)) => {
                                if g != w {
                                    run.violation("closest-peers", "network-selection/order-or-count", format!("{} peers selected, the {} nearest of the {} eligible in ascending order are expected ({desc})", g.len(), w.len(), considered.len()), desc.clone());
                                }
                            }
                            (Some(Ok(g)), None) => run.violation("closest-peers", "network-selection/too-few-not-reported", format!("only {} eligible peers (< close group) but {} were returned ({desc})", considered.len(), g.len()), desc.clone()),
                            (Some(Err(e)), Some(_)) => run.violation("closest-peers", "network-selection/spurious-error", format!("{} eligible peers but the selection failed with {e} ({desc})", considered.len()), desc.clone()),
                            (Some(Err(e)), None) => {
                                if !e.contains("NotEnoughPeers") {
                                    run.violation("closest-peers", "network-selection/other-error", format!("{e} ({desc})"), desc.clone());
                                }
                            }
                        }
                    }
                }
            }
        }
        run.extra("network_closest_peer_selections", json!(selections));
    }

    // 3. range filters and closest-peer selection with every bound around every distance
    let ten_with_addrs: Vec<(PeerId, Vec<libp2p::Multiaddr>)> = peers.iter().map(|p| (*p, vec!["/ip4/127.0.0.1/udp/1/quic-v1".parse().unwrap()])).collect();
    for (ti, t) in targets.iter().enumerate() {
        let dists: Vec<U256> = peers.iter().map(|p| u(&xor_distance(&t.as_bytes(), &NetworkAddress::from_peer(*p).as_bytes()))).collect();
        let mut bounds: Vec<U256> = vec![U256::ZERO, U256::MAX];
        for d in &dists {
            bounds.push(*d);
            bounds.push(d.saturating_sub(U256::from(1u8)));
            bounds.push(d.saturating_add(U256::from(1u8)));
        }
        for b in &bounds {
            let desc = json!({"op":"range","target":ti,"bound":b.to_string()});
            run.case(format!("range:{ti}:{b}").as_bytes(), true);
            let want: Vec<PeerId> = peers.iter().zip(dists.iter()).filter(|(_, d)| *d <= b).map(|(p, _)| *p).collect();
            let got = verif_get_peers_in_range(&peers, t, *b);
            if got != want {
                run.violation("range-filter", "get_peers_in_range", format!("get_peers_in_range kept {} peers, the integer comparison keeps {}", got.len(), want.len()), desc.clone());
            }
            let got2 = VerifNode::calculate_get_closest_peers(ten_with_addrs.clone(), (*t).clone(), None, Some(b.to_be_bytes()));
            let got2p: Vec<PeerId> = got2.iter().filter_map(|(a, _)| a.as_peer_id()).collect();
            if got2p != want {
                run.violation("range-filter", "calculate_get_closest_peers", format!("range mode kept {} peers, the integer comparison keeps {}", got2p.len(), want.len()), desc.clone());
            }
        }
        let mut reference: Vec<PeerId> = peers.clone();
        reference.sort_by_key(|p| xor_distance(&t.as_bytes(), &NetworkAddress::from_peer(*p).as_bytes()));
        for n in 0..=12usize {
            let desc = json!({"op":"closest-n","target":ti,"n":n});
            run.case(format!("closest:{ti}:{n}").as_bytes(), true);
            let got = VerifNode::calculate_get_closest_peers(ten_with_addrs.clone(), (*t).clone(), Some(n), None);
            let gotp: Vec<PeerId> = got.iter().filter_map(|(a, _)| a.as_peer_id()).collect();
            let want: Vec<PeerId> = reference.iter().take(n).cloned().collect();
            if gotp != want {
                run.violation("closest-peers", "calculate_get_closest_peers", format!("count mode returned {:?} peers, the {n} nearest in ascending order are expected", gotp.len()), desc);
            }
        }
    }
    run.sample(json!({"get_peers_in_range": {"target": "chunk0", "bound": "distance(peer 43) - 1"}}));

    // 4. replication candidates chosen by a real SwarmDriver whose routing table holds (a) the 10 peers, (b) as many of
    //    119 further peers as its k-buckets take (more than K_VALUE = 20, so that a range can hold more than 20 peers)
    for (big, order) in [(false, 0usize), (true, 0), (false, 1), (true, 1), (false, 2), (true, 2)] {
        let root = crate::c01::fresh_scratch("c11");
        let mut rig = crate::driver_rig::DriverRig::new_node(1, &root);
        let mut offered: Vec<PeerId> = if big { (2u8..=120).map(rigs::fixtures::peer_id).collect() } else { peers.clone() };
        // the order in which the node met its peers (a k-bucket keeps its entries in the order they arrived): as listed,
        // reversed, farthest first
        match order {
            1 => offered.reverse(),
            2 => {
                let me_b = NetworkAddress::from_peer(rig.peer_id()).as_bytes();
                offered.sort_by_key(|p| std::cmp::Reverse(xor_distance(&me_b, &NetworkAddress::from_peer(*p).as_bytes())));
            }
            _ => {}
        }
        let mut peers: Vec<PeerId> = vec![];
        for (i, p) in offered.iter().enumerate() {
            // a full k-bucket refuses the insert: only peers that got in are known
            if rig.driver.verif_add_peer(*p, format!("/ip4/127.0.0.1/udp/{}/quic-v1", 30000 + i).parse().unwrap()) {
                peers.push(*p);
            }
        }
        if peers.len() < if big { 30 } else { 10 } {
            run.machinery_error(&format!("C11 section 4: only {} of {} peers entered the routing table", peers.len(), offered.len()));
        }
        let me = NetworkAddress::from_peer(rig.peer_id());
        // the node's own neighbourhood — itself and the K_VALUE - 1 nearest peers it knows, nearest first — is what the
        // responsible range, the payee check, the replication-list sender check and the storage challenge are read from
        {
            let mut reference: Vec<PeerId> = peers.clone();
            reference.sort_by_key(|p| xor_distance(&me.as_bytes(), &NetworkAddress::from_peer(*p).as_bytes()));
            let mut want: Vec<PeerId> = vec![rig.peer_id()];
            want.extend(reference.into_iter().take(19));
            let got = rig.driver.verif_closest_k_value_local_peers();
            run.case(format!("closest-k-local:{big}:{order}").as_bytes(), true);
            if got != want {
                let first_bad = got.iter().zip(want.iter()).position(|(a, b)| a != b).unwrap_or(got.len().min(want.len()));
                run.violation(
                    "closest-peers",
                    "closest-k-local-peers",
                    format!("the node's K closest local peers ({} known, met in order {order}): {} returned, {} expected (self, then the 19 nearest in ascending distance); they differ from position {first_bad}", peers.len(), got.len(), want.len()),
                    json!({"op":"closest-k-local-peers","known_peers":peers.len(),"insertion_order":order}),
                );
            }
        }
        for t in [&me, targets[0], targets[1]] {
            let mut reference: Vec<PeerId> = peers.clone();
            reference.sort_by_key(|p| xor_distance(&t.as_bytes(), &NetworkAddress::from_peer(*p).as_bytes()));
            let dists: Vec<U256> = reference.iter().map(|p| u(&xor_distance(&t.as_bytes(), &NetworkAddress::from_peer(*p).as_bytes()))).collect();
            let mut bounds: Vec<U256> = vec![U256::ZERO, U256::MAX];
            for d in &dists {
                bounds.extend([*d, d.saturating_sub(U256::from(1u8)), d.saturating_add(U256::from(1u8))]);
            }
            for b in bounds {
                if let ant_networking::verif_hooks::UnifiedRecordStore::Node(s) = rig.store() {
                    s.verif_set_responsible_distance_range(b);
                }
                let got = rig.driver.verif_get_replicate_candidates(t);
                let in_range: Vec<PeerId> = reference.iter().zip(dists.iter()).filter(|(_, d)| **d <= b).map(|(p, _)| *p).collect();
                let want: Vec<PeerId> = if in_range.len() >= CLOSE_GROUP_SIZE { in_range } else { reference.iter().take(CLOSE_GROUP_SIZE).cloned().collect() };
                run.case(format!("candidates:{big}:{order}:{t:?}:{b}").as_bytes(), true);
                if got != want {
                    run.violation(
                        "replication-candidates",
                        "selection",
                        format!("replication candidates for range bound {b}: got {} peers, expected {} (in range, or the close group when fewer are in range), in ascending distance", got.len(), want.len()),
                        json!({"op":"replicate-candidates","bound":b.to_string(),"known_peers":peers.len()}),
                    );
                }
            }
        }
        drop(rig);
        let _ = std::fs::remove_dir_all(&root);
    }

    // 5. records within a range, as a real record store counts them for its quotes: 6 records of two kinds at known
    //    distances; every range bound d-1 / d+1 around every record distance (equality is not probed: the store's users
    //    differ on < / <= there); after the initial writes, after an update of each held key, and after a removal
    {
        use crate::store_rig::{ranked_keys, RigCfg, StoreRig};
        let me = rigs::fixtures::peer_id(1);
        let root = crate::c01::fresh_scratch("c11-store");
        let mut rig = StoreRig::new(&root, RigCfg { max_records: 64, cache_size: 4, max_value_bytes: None }, me);
        rig.settle();
        let keys = ranked_keys(me, 6, "c11-store");
        let me_bytes = NetworkAddress::from_peer(me).as_bytes();
        let dist = |k: &libp2p::kad::RecordKey| u(&xor_distance(&me_bytes, k.as_ref()));
        let value = |i: usize, ver: u8| -> Vec<u8> { [&[0x91u8, if i % 2 == 0 { 1 } else { 3 }][..], format!("c11-store-{i}-{ver}").as_bytes()].concat() };
        let mut held: Vec<usize> = vec![];
        for (i, k) in keys.iter().enumerate() {
            rig.put(k, &value(i, 0)).expect("put");
            rig.settle();
            held.push(i);
        }
        let mut bounds: Vec<U256> = vec![U256::from(1u8), U256::MAX];
        for k in &keys {
            bounds.push(dist(k).saturating_sub(U256::from(1u8)));
            bounds.push(dist(k).saturating_add(U256::from(1u8)));
        }
        let mut phase = |rig: &mut StoreRig, held: &Vec<usize>, what: &str| {
            for b in &bounds {
                rig.store.verif_set_responsible_distance_range(*b);
                let want = held.iter().filter(|i| dist(&keys[**i]) < *b).count();
                let got = rig.store.verif_quoting_metrics(&keys[0], None).0.close_records_stored;
                run.case(format!("store-range:{what}:{b}").as_bytes(), true);
                if got != want {
                    run.violation(
                        "range-filter",
                        "records-within-range",
                        format!("{what}: the store counts {got} records within range bound {b}, the distance integer puts {want} of the {} held records below it", held.len()),
                        json!({"op": "records-within-range", "phase": what, "bound": b.to_string()}),
                    );
                }
            }
        };
        phase(&mut rig, &held, "after the initial writes");
        // a new version of every held mutable record (odd indices are registers), range left where the last phase put it
        for i in (1..keys.len()).step_by(2) {
            rig.store.verif_set_responsible_distance_range(U256::MAX);
            rig.put(&keys[i], &value(i, 1)).expect("update");
            rig.settle();
            let want = held.len();
            let got = rig.store.verif_quoting_metrics(&keys[0], None).0.close_records_stored;
            run.case(format!("store-range:update:{i}").as_bytes(), true);
            if got != want {
                run.violation("range-filter", "records-within-range", format!("after an update of held record {i} with the range unchanged the store counts {got} records within range MAX, {want} are held"), json!({"op": "records-within-range", "phase": "update", "record": i}));
            }
        }
        phase(&mut rig, &held, "after updating the held mutable records");
        rig.remove(&keys[2]);
        rig.settle();
        held.retain(|i| *i != 2);
        phase(&mut rig, &held, "after a removal");
        drop(rig);
        let _ = std::fs::remove_dir_all(&root);
    }

    // 6. the record a real store names as its farthest (the one a full store evicts, and what the replication fetcher is
    //    told): after every step of every sequence of <=4 settled writes / removals over 4 keys at known distances it is
    //    the held key with the largest distance integer
    {
        use crate::store_rig::{ranked_keys, RigCfg, StoreRig};
        let me = rigs::fixtures::peer_id(1);
        let keys = ranked_keys(me, 4, "c11-farthest");
        let me_bytes = NetworkAddress::from_peer(me).as_bytes();
        let dist = |k: &libp2p::kad::RecordKey| u(&xor_distance(&me_bytes, k.as_ref()));
        let ops: Vec<u8> = (0..8).collect(); // 0..4 write key i, 4..8 remove key i-4
        enumerate::sequences(&ops, 4, |seq| {
            if seq.is_empty() {
                return;
            }
            let root = crate::c01::fresh_scratch("c11-far");
            let mut rig = StoreRig::new(&root, RigCfg { max_records: 64, cache_size: 4, max_value_bytes: None }, me);
            rig.settle();
            let mut held: std::collections::BTreeSet<usize> = Default::default();
            for (pos, op) in seq.iter().enumerate() {
                let i = (*op % 4) as usize;
                if *op < 4 {
                    rig.put(&keys[i], &[&[0x91u8, 1][..], format!("c11-far-{i}").as_bytes()].concat()).expect("put");
                    held.insert(i);
                } else {
                    rig.remove(&keys[i]);
                    held.remove(&i);
                }
                rig.settle();
                let want = held.iter().max_by_key(|i| dist(&keys[**i])).map(|i| keys[*i].clone());
                let got = rig.store.get_farthest();
                if pos + 1 == seq.len() {
                    run.case(format!("farthest:{seq:?}").as_bytes(), seq.len() > 1);
                }
                if got != want {
                    let names: Vec<String> = seq[..=pos].iter().map(|o| format!("{}{}", if *o < 4 { "write k" } else { "remove k" }, o % 4)).collect();
                    run.violation(
                        "farthest-record",
                        "selection",
                        format!("after {names:?} (keys ranked by distance) the store names {:?} as its farthest record, by the distance integer it is {:?}", got.as_ref().map(crate::store_rig::short), want.as_ref().map(crate::store_rig::short)),
                        json!({"op": "farthest-record", "sequence": names}),
                    );
                    break;
                }
            }
            drop(rig);
            let _ = std::fs::remove_dir_all(&root);
        });
    }
    // 7. the replication fetcher's full-node bound ("nothing farther than the farthest held record") filters exactly as the
    //    integer does: with the bound at key f, an advertised key — new, or held in another version — is taken iff its
    //    distance integer is <= f's (so f itself still is), from single-key and from multi-key lists alike; and entries that
    //    are in flight when the bound arrives survive iff their distance is <= f's
    {
        use ant_networking::verif_hooks::VerifFetcher;
        use ant_protocol::storage::RecordType;
        use std::collections::{BTreeSet, HashMap};
        let me = rigs::fixtures::peer_id(1);
        let holder = rigs::fixtures::peer_id(2);
        let keys = crate::store_rig::ranked_keys(me, 6, "c11-fetcher");
        let me_bytes = NetworkAddress::from_peer(me).as_bytes();
        let d: Vec<U256> = keys.iter().map(|k| u(&xor_distance(&me_bytes, k.as_ref()))).collect();
        let a = |i: usize| NetworkAddress::from_record_key(&keys[i]);
        let (v1, v2) = (RecordType::NonChunk(xor_name::XorName([1; 32])), RecordType::NonChunk(xor_name::XorName([2; 32])));
        let tracked = |f: &VerifFetcher| -> BTreeSet<usize> {
            f.to_be_fetched().into_iter().chain(f.on_going_fetches()).filter_map(|(k, _, _, _)| keys.iter().position(|x| *x == k)).collect()
        };
        for f in 0..keys.len() {
            for mode in ["single key, not held", "single key, held in another version", "six-key list, nothing held", "six-key list, all held in another version", "in flight when the bound arrives"] {
                let (tx, _rx) = tokio::sync::mpsc::channel(1000);
                let mut fetcher = VerifFetcher::new(me, tx);
                let want: BTreeSet<usize> = (0..keys.len()).filter(|k| d[*k] <= d[f]).collect();
                let held_other: HashMap<libp2p::kad::RecordKey, (NetworkAddress, RecordType)> = (0..keys.len()).map(|k| (keys[k].clone(), (a(k), v1.clone()))).collect();
                let none: HashMap<libp2p::kad::RecordKey, (NetworkAddress, RecordType)> = HashMap::new();
                let got: BTreeSet<usize> = crate::c08::with_ctx(|| {
                    let mut got = BTreeSet::new();
                    match mode {
                        "in flight when the bound arrives" => {
                            let _ = fetcher.add_keys(holder, (0..keys.len()).map(|k| (a(k), v2.clone())).collect(), &none);
                            fetcher.set_farthest_on_full(Some(keys[f].clone()));
                            got = tracked(&fetcher);
                        }
                        m if m.starts_with("single") => {
                            fetcher.set_farthest_on_full(Some(keys[f].clone()));
                            for k in 0..keys.len() {
                                let _ = fetcher.add_keys(holder, vec![(a(k), v2.clone())], if m.contains("held") { &held_other } else { &none });
                            }
                            got = tracked(&fetcher);
                        }
                        m => {
                            fetcher.set_farthest_on_full(Some(keys[f].clone()));
                            let _ = fetcher.add_keys(holder, (0..keys.len()).map(|k| (a(k), v2.clone())).collect(), if m.contains("all held") { &held_other } else { &none });
                            got = tracked(&fetcher);
                        }
                    }
                    got
                });
                run.case(format!("fetcher-bound:{f}:{mode}").as_bytes(), true);
                if got != want {
                    run.violation(
                        "range-filter",
                        "fetcher-full-node-bound",
                        format!("bound at the distance of k{f} ({mode}): the fetcher tracks {got:?}, by the distance integer the keys not farther than k{f} are {want:?}"),
                        json!({"op": "fetcher-full-node-bound", "bound_at_rank": f, "mode": mode}),
                    );
                }
            }
        }
        // 7b. both limits at once — the full-node bound at key f and a responsible range ending after rank g, set in either
        //     order — and a six-key list: taken are exactly the keys within BOTH by the integer
        for f in 0..keys.len() {
            for g in 1..keys.len() {
                for bound_first in [true, false] {
                    let (tx, _rx) = tokio::sync::mpsc::channel(1000);
                    let mut fetcher = VerifFetcher::new(me, tx);
                    let range = d[g - 1] + (d[g] - d[g - 1]) / U256::from(2u8);
                    let want: BTreeSet<usize> = (0..keys.len()).filter(|k| d[*k] <= d[f] && d[*k] <= range).collect();
                    let none: HashMap<libp2p::kad::RecordKey, (NetworkAddress, RecordType)> = HashMap::new();
                    let got: BTreeSet<usize> = crate::c08::with_ctx(|| {
                        if bound_first {
                            fetcher.set_farthest_on_full(Some(keys[f].clone()));
                            fetcher.set_replication_distance_range(range);
                        } else {
                            fetcher.set_replication_distance_range(range);
                            fetcher.set_farthest_on_full(Some(keys[f].clone()));
                        }
                        let _ = fetcher.add_keys(holder, (0..keys.len()).map(|k| (a(k), v2.clone())).collect(), &none);
                        tracked(&fetcher)
                    });
                    run.case(format!("fetcher-bound-and-range:{f}:{g}:{bound_first}").as_bytes(), true);
                    if got != want {
                        run.violation(
                            "range-filter",
                            "fetcher-bound-and-range",
                            format!("full-node bound at the distance of k{f}, responsible range ending after rank {g} (bound set {}): from a six-key list the fetcher tracks {got:?}, by the distance integer the keys within both are {want:?}", if bound_first { "first" } else { "second" }),
                            json!({"op": "fetcher-bound-and-range", "bound_at_rank": f, "range_after_rank": g, "bound_set_first": bound_first}),
                        );
                    }
                }
            }
        }
    }
    run.finish();
}
