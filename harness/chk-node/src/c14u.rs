//! C14, upload layer — "encrypting it" as a user does it: `Client::data_put` / `data_put_public` with a receipt
//! covering every chunk. The harness is the network: it takes every `PutRecordTo`, answers the closest-peer and
//! chunk-proof queries of the client's store verification from what it really holds, and moves the (virtual) clock
//! when the client sleeps. Environment answers that deviate from the default: one put answered with an error, one
//! put acknowledged but lost (so the proof query fails and the client has to put again). Whatever the upload path
//! does — batching, retries, skipping — once it reports success the bytes must come back through the returned data
//! map, the network must hold exactly the chunks of the reference encryption under the hashes of their contents,
//! and the returned data map must be the one `encrypt` yields (same input, same data map).
use crate::client_rig::ClientRig;
use ant_evm::{AttoTokens, ProofOfPayment};
use ant_networking::verif_hooks::NetworkSwarmCmd;
use ant_networking::{GetRecordError, NetworkError};
use ant_protocol::messages::{ChunkProof, Query, QueryResponse, Request, Response};
use ant_protocol::storage::{try_deserialize_record, try_serialize_record, Chunk, RecordHeader, RecordKind};
use ant_protocol::NetworkAddress;
use autonomi::client::data::DataMapChunk;
use autonomi::client::payment::{PaymentOption, Receipt};
use bytes::Bytes;
use libp2p::kad::{Record, RecordKey};
use mc_core::sched::{explore_seq, Chooser};
use mc_core::Run;
use serde_json::json;
use std::collections::HashMap;
use std::time::{Duration, SystemTime};
use xor_name::XorName;

#[derive(Clone, Copy, Debug, PartialEq)]
pub enum Fault {
    None,
    /// the n-th put the network receives is answered with an error
    PutRefused(usize),
    /// the n-th put is acknowledged but not kept
    PutLost(usize),
    /// every put of one chunk — the k-th distinct chunk the network is offered — is answered with an error, the first
    /// `times` times it is offered (`usize::MAX`: for good): a fault that outlasts the retries of one layer
    ChunkRefused(usize, usize),
}

fn key_of(c: &Chunk) -> RecordKey {
    NetworkAddress::from_chunk_address(*c.address()).to_record_key()
}

enum Up {
    Private(Result<DataMapChunk, String>),
    Public(Result<XorName, String>),
}

/// One upload to quiescence. Returns (result, what the network holds, puts seen).
fn upload(data: &Bytes, receipt: &Receipt, public: bool, fault: Fault, ch: &mut Chooser) -> (Option<Up>, HashMap<RecordKey, Vec<u8>>, usize) {
    let mut rig = ClientRig::new_paused();
    let client = rig.client.clone();
    let (d, r) = (data.clone(), receipt.clone());
    let slot = rig.start(async move {
        if public {
            Up::Public(client.data_put_public(d, PaymentOption::Receipt(r)).await.map_err(|e| format!("{e:?}")))
        } else {
            Up::Private(client.data_put(d, PaymentOption::Receipt(r)).await.map_err(|e| format!("{e:?}")))
        }
    });
    let peers: Vec<libp2p::PeerId> = (0..7u8).map(|i| rigs::fixtures::peer_id(100 + i)).collect();
    let mut held: HashMap<RecordKey, Vec<u8>> = HashMap::new();
    let mut puts = 0usize;
    let mut idle = 0usize;
    let mut first_seen: Vec<RecordKey> = vec![];
    let mut offered: HashMap<RecordKey, usize> = HashMap::new();
    // puts wait for the harness to pick which one the network takes next (a search choice); the queries of the
    // client's store verification are answered at once, in the order they were asked
    let mut waiting_puts: Vec<(Record, tokio::sync::oneshot::Sender<Result<(), NetworkError>>)> = vec![];
    for _ in 0..200_000 {
        rig.run_until_blocked();
        if let Some(v) = slot.lock().unwrap().take() {
            return (Some(v), held, puts);
        }
        // reads are not expected during an upload; answer them from what is held
        while let Some(p) = rig.pending.pop() {
            let reply = match held.get(&p.key) {
                Some(v) => Ok(Record { key: p.key.clone(), value: v.clone(), publisher: None, expires: None }),
                None => Err(GetRecordError::RecordNotFound),
            };
            let _ = p.reply.send(reply);
        }
        let cmds = std::mem::take(&mut rig.other_cmds);
        let mut answered = false;
        for cmd in cmds {
            match cmd {
                NetworkSwarmCmd::PutRecordTo { record, sender, .. } | NetworkSwarmCmd::PutRecord { record, sender, .. } => waiting_puts.push((record, sender)),
                NetworkSwarmCmd::GetClosestPeersToAddressFromNetwork { sender, .. } => {
                    answered = true;
                    let _ = sender.send(peers.clone());
                }
                NetworkSwarmCmd::SendRequest { req, sender, .. } => {
                    answered = true;
                    let resp = match req {
                        Request::Query(Query::GetChunkExistenceProof { key, nonce, .. }) => {
                            let proof = match held.get(&key.to_record_key()) {
                                Some(v) => Ok(ChunkProof::new(v, nonce)),
                                None => Err(ant_protocol::error::Error::ChunkDoesNotExist(key.clone())),
                            };
                            Ok(Response::Query(QueryResponse::GetChunkExistenceProof(vec![(key, proof)])))
                        }
                        other => Err(NetworkError::RecordNotStoredByNodes(other.dst())),
                    };
                    if let Some(s) = sender {
                        let _ = s.send(resp);
                    }
                }
                _ => {}
            }
        }
        if answered {
            idle = 0;
            continue;
        }
        if waiting_puts.is_empty() {
            // the client sleeps (back-off, wait before verification): move the clock.
            // One large step: every pending sleep ends in the same advance, in the order the sleeps were started, so the
            // random waits the code draws do not decide which command reaches the network first
            idle += 1;
            if idle > 200 {
                return (None, held, puts);
            }
            rig.exec.advance(Duration::from_secs(120));
            continue;
        }
        idle = 0;
        let i = if waiting_puts.len() == 1 { 0 } else { ch.choose(waiting_puts.len(), "which-put-next") };
        let (record, sender) = waiting_puts.remove(i);
        let n = puts;
        puts += 1;
        if let Fault::ChunkRefused(which, times) = fault {
            if !first_seen.contains(&record.key) {
                first_seen.push(record.key.clone());
            }
            if first_seen.iter().position(|k| *k == record.key) == Some(which) {
                let seen = offered.entry(record.key.clone()).or_insert(0usize);
                *seen += 1;
                if *seen <= times {
                    let _ = sender.send(Err(NetworkError::RecordNotStoredByNodes(NetworkAddress::from_record_key(&record.key))));
                    continue;
                }
            }
        }
        if fault == Fault::PutRefused(n) {
            let _ = sender.send(Err(NetworkError::RecordNotStoredByNodes(NetworkAddress::from_record_key(&record.key))));
            continue;
        }
        if fault != Fault::PutLost(n) {
            // a node keeps what validation accepts: the chunk of a chunk-with-payment record, under the record's key
            let kept = match RecordHeader::from_record(&record).map(|h| h.kind) {
                Ok(RecordKind::ChunkWithPayment) => try_deserialize_record::<(ProofOfPayment, Chunk)>(&record).ok().map(|(_, c)| c),
                Ok(RecordKind::Chunk) => try_deserialize_record::<Chunk>(&record).ok(),
                _ => None,
            };
            if let Some(c) = kept {
                if key_of(&c) == record.key {
                    held.insert(record.key.clone(), try_serialize_record(&c, RecordKind::Chunk).unwrap().to_vec());
                }
            }
        }
        let _ = sender.send(Ok(()));
    }
    (None, held, puts)
}

pub struct UpTotals {
    pub executions: u64,
    pub tree_nodes: u64,
    pub uploads_ok: u64,
    pub uploads_err: u64,
    pub retried: u64,
}

pub fn upload_layer(run: &Run, lengths: &[usize], tot: &mut UpTotals) {
    let jobs: Vec<(usize, usize)> = lengths.iter().flat_map(|l| (0..3).map(move |p| (*l, p))).collect();
    let next = std::sync::atomic::AtomicUsize::new(0);
    let sum = std::sync::Mutex::new(UpTotals { executions: 0, tree_nodes: 0, uploads_ok: 0, uploads_err: 0, retried: 0 });
    std::thread::scope(|sc| {
        for _ in 0..mc_core::workers() {
            sc.spawn(|| loop {
                let i = next.fetch_add(1, std::sync::atomic::Ordering::Relaxed);
                if i >= jobs.len() {
                    break;
                }
                let mut t = UpTotals { executions: 0, tree_nodes: 0, uploads_ok: 0, uploads_err: 0, retried: 0 };
                one_upload_input(run, jobs[i].0, jobs[i].1, &mut t);
                let mut s = sum.lock().unwrap();
                s.executions += t.executions;
                s.tree_nodes += t.tree_nodes;
                s.uploads_ok += t.uploads_ok;
                s.uploads_err += t.uploads_err;
                s.retried += t.retried;
            });
        }
    });
    let s = sum.into_inner().unwrap();
    tot.executions += s.executions;
    tot.tree_nodes += s.tree_nodes;
    tot.uploads_ok += s.uploads_ok;
    tot.uploads_err += s.uploads_err;
    tot.retried += s.retried;
}

fn one_upload_input(run: &Run, len: usize, pat: usize, tot: &mut UpTotals) {
    // `encrypt` hands its chunks back in whatever order its rayon workers finished, so the order in which the client
    // starts the puts would differ from one execution to the next and replayed schedules would not mean the same
    // thing twice. Every execution of this layer therefore runs inside a one-thread rayon pool (the client, its
    // executor and the virtual clock live on that pool thread): same input, same order of puts.
    let pool = rayon::ThreadPoolBuilder::new().num_threads(1).build().expect("rayon pool");
    let quote_ts = SystemTime::UNIX_EPOCH + Duration::from_secs(1_700_000_000);
    {
        {
            if mc_core::budget_spent() {
                return;
            }
            let data = Bytes::from(super::c14::pattern(len, pat));
            let pat_name = ["zeros", "counter", "xorshift"][pat];
            let desc = json!({"layer": "upload", "len": len, "pattern": pat_name, "max_chunk_size": *self_encryption::MAX_CHUNK_SIZE});
            let Ok((dm, chunks)) = autonomi::self_encryption::encrypt(data.clone()) else { return };
            for public in [false, true] {
                let expected: Vec<&Chunk> = if public { chunks.iter().chain(std::iter::once(&dm)).collect() } else { chunks.iter().collect() };
                let mut receipt: Receipt = HashMap::new();
                for c in &expected {
                    let q = rigs::records::quote(100, *c.name(), quote_ts);
                    receipt.insert(*c.name(), (rigs::records::proof(vec![(100, q)]), AttoTokens::from_u64(1)));
                }
                let distinct: std::collections::HashSet<RecordKey> = expected.iter().map(|c| key_of(c)).collect();
                let n = distinct.len();
                let mut faults = vec![Fault::None];
                for k in 0..n.min(if run.quick() { 4 } else { 8 }) {
                    faults.push(Fault::PutRefused(k));
                    faults.push(Fault::PutLost(k));
                }
                // one chunk refused again and again: twice, as often as one `put_record` call tries (6), once more, for good
                for which in [0, n - 1] {
                    for times in if run.quick() { vec![6usize, usize::MAX] } else { vec![2usize, 6, 7, usize::MAX] } {
                        if !faults.contains(&Fault::ChunkRefused(which, times)) {
                            faults.push(Fault::ChunkRefused(which, times));
                        }
                    }
                }
                for fault in faults {
                    // (a chunk refused again and again multiplies the points at which puts wait: the quick tier takes these in FIFO order)
                    let bound = if n <= 4 && !(run.quick() && matches!(fault, Fault::ChunkRefused(..))) { 1 } else { 0 };
                    run.case(format!("upload:{len}:{pat}:{public}:{fault:?}").as_bytes(), true);
                    let (execs, _, nodes) = explore_seq(bound, |ch| {
                        let (res, held, puts) = pool.install(|| upload(&data, &receipt, public, fault, ch));
                        let w = json!({"case": desc, "public": public, "fault": format!("{fault:?}"), "choices": ch.choices()});
                        if puts > n {
                            tot.retried += 1;
                        }
                        let ok = match res {
                            None => {
                                run.violation("round-trip", "upload-blocked", format!("the upload never completed ({desc}, public={public}, {fault:?})"), w.clone());
                                return;
                            }
                            Some(Up::Private(Ok(dmc))) => {
                                if dmc != DataMapChunk::from(dm.clone()) {
                                    run.violation("deterministic", "upload-returns-another-data-map", format!("data_put returned a data map that is not the one encrypt yields for the same input ({desc})"), w.clone());
                                }
                                true
                            }
                            Some(Up::Public(Ok(addr))) => {
                                if addr != *dm.name() {
                                    run.violation("deterministic", "upload-returns-another-address", format!("data_put_public returned an address that is not the data map's ({desc})"), w.clone());
                                }
                                true
                            }
                            Some(Up::Private(Err(e))) | Some(Up::Public(Err(e))) => {
                                run.outcome(format!("upload-err:{}", e.chars().take(40).collect::<String>()).as_bytes());
                                if fault == Fault::None {
                                    run.violation("encryptable-input-accepted", "upload-failed", format!("the upload of an encryptable input failed without any fault: {e} ({desc}, public={public})"), w.clone());
                                }
                                false
                            }
                        };
                        if !ok {
                            tot.uploads_err += 1;
                            return;
                        }
                        tot.uploads_ok += 1;
                        run.outcome(format!("upload-ok:{}", puts - n.min(puts)).as_bytes());
                        // what the network holds
                        for c in &expected {
                            match held.get(&key_of(c)) {
                                None => run.violation(
                                    "round-trip",
                                    "upload-reported-success-chunk-not-stored",
                                    format!("the upload reported success but the network holds no chunk {} ({desc}, public={public}, {fault:?})", hex::encode(&c.name().0[..4])),
                                    w.clone(),
                                ),
                                Some(v) if *v != try_serialize_record(*c, RecordKind::Chunk).unwrap().to_vec() => {
                                    run.violation("content-addressed", "uploaded-bytes-differ", format!("the chunk stored under {} is not the chunk of the encryption ({desc})", hex::encode(&c.name().0[..4])), w.clone())
                                }
                                _ => {}
                            }
                        }
                        if held.len() > n {
                            run.violation("deterministic", "upload-stores-other-chunks", format!("the upload stored {} records where the encryption has {n} chunks ({desc}, public={public})", held.len()), w.clone());
                        }
                        // and the way back
                        let mut rig = ClientRig::new();
                        let client = rig.client.clone();
                        let (dmc, addr) = (DataMapChunk::from(dm.clone()), *dm.name());
                        let back = rig.drive(
                            async move {
                                if public {
                                    client.data_get_public(addr).await.map_err(|e| format!("{e:?}"))
                                } else {
                                    client.data_get(dmc).await.map_err(|e| format!("{e:?}"))
                                }
                            },
                            |pending| {
                                let reply = match held.get(&pending[0].key) {
                                    Some(v) => Ok(Record { key: pending[0].key.clone(), value: v.clone(), publisher: None, expires: None }),
                                    None => Err(GetRecordError::RecordNotFound),
                                };
                                (0, reply)
                            },
                        );
                        match back {
                            Some(Ok(b)) if b == data => {}
                            Some(Ok(b)) => run.violation("round-trip", "upload-then-fetch-wrong-bytes", format!("uploaded {} bytes, fetched {} other bytes ({desc}, public={public}, {fault:?})", data.len(), b.len()), w.clone()),
                            Some(Err(e)) => run.violation("round-trip", "upload-then-fetch-error", format!("the upload reported success, fetching it back fails with {e} ({desc}, public={public}, {fault:?})"), w.clone()),
                            None => run.violation("round-trip", "upload-then-fetch-blocked", format!("the fetch after the upload never completed ({desc})"), w.clone()),
                        }
                    });
                    tot.executions += execs;
                    tot.tree_nodes += nodes;
                }
            }
        }
    }
}
