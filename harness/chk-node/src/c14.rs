//! C14 — self-encrypted data round-trips; chunks are bounded and content-addressed.
//! The harness is the network for a real `Client`: `GetNetworkRecord` requests are answered from an
//! in-memory map, in every order (small inputs) / every order with <= 2 deviations (larger ones).
//! Two builds: the shipped chunk size, and a build with the crate's own compile-time knob
//! MAX_CHUNK_SIZE=1024 (separate target dir) in which multi-level data maps occur at 10-100 KiB.
use crate::client_rig::ClientRig;
use ant_networking::GetRecordError;
use ant_protocol::storage::{try_serialize_record, Chunk, ChunkAddress, RecordKind};
use ant_protocol::NetworkAddress;
use autonomi::client::data::DataMapChunk;
use bytes::Bytes;
use libp2p::kad::{Record, RecordKey};
use mc_core::sched::explore_seq;
use mc_core::Run;
use serde_json::json;
use std::collections::HashMap;
use std::sync::atomic::{AtomicU64, AtomicUsize, Ordering};
use xor_name::XorName;

pub fn pattern(len: usize, which: usize) -> Vec<u8> {
    match which {
        0 => vec![0u8; len],
        1 => (0..len).map(|i| (i % 251) as u8).collect(),
        _ => {
            // xorshift, fixed seed
            let mut x: u64 = 0x9e3779b97f4a7c15 ^ len as u64;
            (0..len)
                .map(|_| {
                    x ^= x << 13;
                    x ^= x >> 7;
                    x ^= x << 17;
                    (x & 0xff) as u8
                })
                .collect()
        }
    }
}

fn key_of(c: &Chunk) -> RecordKey {
    NetworkAddress::from_chunk_address(*c.address()).to_record_key()
}

fn record_of(c: &Chunk) -> Record {
    Record { key: key_of(c), value: try_serialize_record(c, RecordKind::Chunk).unwrap().to_vec(), publisher: None, expires: None }
}

struct Totals {
    executions: AtomicU64,
    max_pending: AtomicU64,
    multi_level: AtomicU64,
    max_stored_overhead: AtomicU64,
    tree_nodes: AtomicU64,
}

/// AES block padding (<= 16) plus brotli's framing of incompressible input (a few bytes per meta-block).
const STORED_OVERHEAD: usize = 64;

/// One input: encrypt, check the chunks, then fetch + decrypt through the real client for every
/// answer order within the deviation bound.
fn one_input(run: &Run, len: usize, pat: usize, full_orders_up_to: usize, tot: &Totals) {
    if mc_core::budget_spent() {
        return;
    }
    let data = Bytes::from(pattern(len, pat));
    let pat_name = ["zeros", "counter", "xorshift"][pat];
    let desc = json!({"len": len, "pattern": pat_name, "max_chunk_size": *self_encryption::MAX_CHUNK_SIZE});
    run.case(desc.to_string().as_bytes(), len >= 3);
    let enc = mc_core::catch(|| autonomi::self_encryption::encrypt(data.clone()));
    let (dm, chunks) = match enc {
        Err(p) => {
            run.violation("no-panic", "encrypt", format!("encrypt panicked for {desc}: {p}"), desc);
            return;
        }
        Ok(Err(e)) => {
            if len >= 3 {
                run.violation("encryptable-input-accepted", "error", format!("encrypt failed for {desc}: {e:?}"), desc);
            }
            return;
        }
        Ok(Ok(x)) => x,
    };
    if len < 3 {
        run.violation("too-small-rejected", "accepted", format!("an input of {len} bytes was self-encrypted instead of being rejected"), desc);
        return;
    }
    // deterministic
    match autonomi::self_encryption::encrypt(data.clone()) {
        Ok((dm2, chunks2)) => {
            let a: Vec<XorName> = chunks.iter().map(|c| *c.name()).collect();
            let mut b: Vec<XorName> = chunks2.iter().map(|c| *c.name()).collect();
            let mut a_sorted = a.clone();
            a_sorted.sort();
            b.sort();
            if dm2.value() != dm.value() || a_sorted != b {
                run.violation("deterministic", "differs", format!("two encryptions of the same input give different data maps / chunk sets ({desc})"), desc.clone());
            }
        }
        Err(e) => run.violation("deterministic", "second-run-failed", format!("{e:?}"), desc.clone()),
    }
    // bounded and content-addressed. The maximum chunk size is defined by the self_encryption crate (and used by
    // pack_data_map) over the bytes a chunk is made from; the stored form of a content chunk adds the cipher's block
    // padding and the compressor's framing for incompressible input, so: the data-map chunk, which the repository
    // sizes itself, must satisfy its own rule (serialised size <= MAX); no content chunk may be made from more than
    // MAX source bytes (equivalently: the number of first-level chunks is that of the size class); and no stored chunk
    // may exceed MAX by more than STORED_OVERHEAD.
    let max = *self_encryption::MAX_CHUNK_SIZE;
    let direct = if len < 3 * max { 3 } else { len.div_ceil(max) };
    if chunks.len() < direct {
        run.violation("chunk-size-bounded", "too-few-chunks", format!("{} chunks were produced where the size class needs {direct}: some chunk holds more than {max} source bytes ({desc})", chunks.len()), desc.clone());
    }
    if dm.serialised_size() > max {
        run.violation("chunk-size-bounded", "data-map-chunk-too-large", format!("the data-map chunk is {} bytes, above the maximum {max} ({desc})", dm.serialised_size()), desc.clone());
    }
    for c in chunks.iter().chain(std::iter::once(&dm)) {
        tot.max_stored_overhead.fetch_max(c.value().len().saturating_sub(max) as u64, Ordering::Relaxed);
        if c.value().len() > max + STORED_OVERHEAD {
            run.violation("chunk-size-bounded", "too-large", format!("a chunk of {} bytes exceeds the maximum {max} by more than the cipher/compressor overhead ({desc})", c.value().len()), desc.clone());
        }
        if *c.address() != ChunkAddress::new(XorName::from_content(c.value())) {
            run.violation("content-addressed", "address", format!("a chunk's address is not the hash of its bytes ({desc})"), desc.clone());
        }
    }
    if chunks.len() > direct {
        tot.multi_level.fetch_add(1, Ordering::Relaxed);
    }
    let mut store: HashMap<RecordKey, Record> = HashMap::new();
    for c in &chunks {
        store.insert(key_of(c), record_of(c));
    }
    store.insert(key_of(&dm), record_of(&dm));
    // is the data map multi-level? (then data_get needs more than one round of fetches)
    let first_level = chunks.len();
    // (deviation bound, also run the reverse order)
    let (bound, lifo_too) = if first_level <= full_orders_up_to {
        (usize::MAX / 2, false)
    } else if first_level <= 24 {
        (2, false)
    } else if first_level <= 64 {
        (1, false)
    } else {
        (0, true)
    };
    let dm_chunk = DataMapChunk::from(dm.clone());
    let dm_addr = *dm.name();
    let modes: &[(bool, bool)] = if lifo_too { &[(false, false), (true, false), (false, true), (true, true)] } else { &[(false, false), (true, false)] };
    for &(public, lifo) in modes {
        let (execs, _, nodes) = explore_seq(bound, |ch| {
            let mut rig = ClientRig::new();
            let client = rig.client.clone();
            let (dmc, addr) = (dm_chunk.clone(), dm_addr);
            let mut rounds = 0u64;
            let res = rig.drive(
                async move {
                    if public {
                        client.data_get_public(addr).await.map_err(|e| format!("{e:?}"))
                    } else {
                        client.data_get(dmc).await.map_err(|e| format!("{e:?}"))
                    }
                },
                |pending| {
                    rounds += 1;
                    tot.max_pending.fetch_max(pending.len() as u64, Ordering::Relaxed);
                    let i = if pending.len() == 1 {
                        0
                    } else if lifo {
                        pending.len() - 1
                    } else {
                        ch.choose(pending.len(), "answer")
                    };
                    let reply = match store.get(&pending[i].key) {
                        Some(r) => Ok(r.clone()),
                        None => Err(GetRecordError::RecordNotFound),
                    };
                    (i, reply)
                },
            );
            match res {
                Some(Ok(bytes)) if bytes == data => {}
                Some(Ok(bytes)) => run.violation(
                    "round-trip",
                    "wrong-bytes",
                    format!("fetched {} bytes that differ from the {}-byte input ({desc}, public={public}, answer order {:?})", bytes.len(), data.len(), ch.choices()),
                    json!({"case": desc, "public": public, "choices": ch.choices()}),
                ),
                Some(Err(e)) => run.violation("round-trip", "error", format!("fetch failed with {e} ({desc}, public={public}, answer order {:?})", ch.choices()), json!({"case": desc, "public": public, "choices": ch.choices()})),
                None => run.violation("round-trip", "blocked", format!("the fetch never completed ({desc}, public={public})"), json!({"case": desc, "public": public, "choices": ch.choices()})),
            }
        });
        tot.executions.fetch_add(execs, Ordering::Relaxed);
        tot.tree_nodes.fetch_add(nodes, Ordering::Relaxed);
    }
    // the environment's other answer: a chunk nobody returns. For small inputs each chunk in turn is unavailable (every
    // completion order of the other fetches): what comes back must be an error — or the original bytes —, never other
    // bytes with an Ok ("returns the original bytes" has no exception for a holder that is away).
    // (quick tier: the lengths 3..=64 and every length within one byte of a multiple of 256; thorough: every length)
    let fault_dimension = !run.quick() || len <= 64 || (len < 100_000 && matches!(len % 256, 0 | 1 | 255));
    if first_level <= full_orders_up_to && fault_dimension {
        let mut keys: Vec<RecordKey> = store.keys().cloned().collect();
        keys.sort_by(|a, b| a.as_ref().cmp(b.as_ref()));
        for missing in &keys {
            // the chunk is away for good / only the first time it is asked for (a code path that asks again gets it)
            for (public, once) in [(false, false), (true, false), (false, true), (true, true)] {
                if !public && *missing == key_of(&dm) {
                    continue; // the caller holds the data map itself
                }
                let (execs, _, nodes) = explore_seq(usize::MAX / 2, |ch| {
                    let mut refused_once = false;
                    let mut rig = ClientRig::new();
                    let client = rig.client.clone();
                    let (dmc, addr) = (dm_chunk.clone(), dm_addr);
                    let res = rig.drive(
                        async move {
                            if public {
                                client.data_get_public(addr).await.map_err(|e| format!("{e:?}"))
                            } else {
                                client.data_get(dmc).await.map_err(|e| format!("{e:?}"))
                            }
                        },
                        |pending| {
                            let i = if pending.len() == 1 { 0 } else { ch.choose(pending.len(), "answer") };
                            let k = &pending[i].key;
                            let reply = if k == missing && !(once && refused_once) {
                                refused_once = true;
                                Err(GetRecordError::RecordNotFound)
                            } else {
                                store.get(k).cloned().ok_or(GetRecordError::RecordNotFound)
                            };
                            (i, reply)
                        },
                    );
                    run.outcome(format!("missing-chunk:{}", matches!(res, Some(Ok(_)))).as_bytes());
                    match res {
                        Some(Ok(bytes)) if bytes != data => run.violation(
                            "round-trip",
                            "other-bytes-when-a-chunk-is-unavailable",
                            format!("one chunk was not returned {}, yet the fetch gave Ok with {} bytes that are not the {}-byte input ({desc}, public={public}, answer order {:?})", if once { "the first time it was asked for" } else { "by anybody" }, bytes.len(), data.len(), ch.choices()),
                            json!({"case": desc, "public": public, "choices": ch.choices(), "missing": hex::encode(missing.as_ref()), "only_the_first_request_fails": once}),
                        ),
                        None => run.violation("round-trip", "blocked", format!("the fetch never completed with a chunk unavailable ({desc}, public={public})"), json!({"case": desc, "public": public, "choices": ch.choices()})),
                        _ => {}
                    }
                });
                tot.executions.fetch_add(execs, Ordering::Relaxed);
                tot.tree_nodes.fetch_add(nodes, Ordering::Relaxed);
            }
        }
    }
}

fn sweep(run: &Run, lengths: Vec<usize>, full_orders_up_to: usize) -> Totals {
    let tot = Totals { executions: AtomicU64::new(0), max_pending: AtomicU64::new(0), multi_level: AtomicU64::new(0), max_stored_overhead: AtomicU64::new(0), tree_nodes: AtomicU64::new(0) };
    let jobs: Vec<(usize, usize)> = lengths.iter().flat_map(|l| (0..3).map(move |p| (*l, p))).collect();
    let next = AtomicUsize::new(0);
    std::thread::scope(|sc| {
        for _ in 0..mc_core::workers() {
            sc.spawn(|| loop {
                let i = next.fetch_add(1, Ordering::Relaxed);
                if i >= jobs.len() {
                    break;
                }
                one_input(run, jobs[i].0, jobs[i].1, full_orders_up_to, &tot);
            });
        }
    });
    tot
}

/// Lengths at which the packed data map changes shape: scanning the number of first-level chunks n (the data map's
/// size depends on n only), every n at which the number of additional chunks differs from that at n-1 marks a
/// size-class boundary of a nested data map (including the appearance of a further level). Around each: the first
/// lengths with n chunks and the last with n-1.
fn datamap_crossings(max: usize, limit: usize) -> (Vec<usize>, usize) {
    let mut out = vec![];
    let mut prev_additional: Option<usize> = None;
    let mut most_additional = 0usize;
    let mut n = 3usize;
    while n * max <= limit {
        let len = n * max;
        let data = Bytes::from(pattern(len, 1));
        if let Ok((_dm, chunks)) = autonomi::self_encryption::encrypt(data) {
            let additional = chunks.len().saturating_sub(n);
            most_additional = most_additional.max(additional);
            if let Some(p) = prev_additional {
                if p != additional {
                    let first_with_n = (n - 1) * max + 1;
                    out.extend([first_with_n - 2, first_with_n - 1, first_with_n, first_with_n + 1, len - 1, len, len + 1]);
                }
            }
            prev_additional = Some(additional);
        }
        n += 1;
    }
    out.sort();
    out.dedup();
    (out, most_additional)
}

pub fn main(tier: Option<&str>) {
    // fix the download concurrency of this process before the client reads it
    std::env::set_var("CHUNK_DOWNLOAD_BATCH_SIZE", "64");
    std::env::set_var("CHUNK_UPLOAD_BATCH_SIZE", "64");
    let run = Run::new("C14", "model_checking", tier);
    let max = *self_encryption::MAX_CHUNK_SIZE;
    run.rule(
        "shipped build (1 MiB chunks): lengths 0..=8 and 3*2^20 +-2, 3 content patterns, download batch 64. Small-chunk build (MAX_CHUNK_SIZE=1024, \
         download batch 3): every length 0..=4*MAX+2, k*MAX +-1 for k<=16(64), the lengths where the packed data map needs another level (found by \
         search, +-2), 3 content patterns; for inputs with <= 6 first-level chunks every answer order of the concurrently pending chunk fetches, up to 24 \
         chunks every order with <= 2 deviations from FIFO, up to 64 chunks <= 1 deviation, beyond that the FIFO and the newest-first order only; both data_get (private data map) and data_get_public. Non-trivial = length >= 3. \
         Each chunk of a small input in turn unavailable for good / the first time it is asked for. Upload layer: data_put and data_put_public with a receipt for every chunk through a harness network \
         (shipped build: lengths 3, 4, 8; small build: 3, 100, 3 and 4 chunks + 1 byte, 6000, 12 chunks (thorough: up to 100 chunks)), which waiting put the network takes next is a choice \
         (<= 1 deviation up to 4 chunks, FIFO beyond), faults: none, the k-th put refused, the k-th put acknowledged but lost (k < 4(8)), every put of one chunk (the first / the last the network is offered) refused the first 6 times or for good in FIFO order (thorough: 2, 6, 7 times or for good, <= 1 deviation).",
    );
    run.assume("contents: 3 patterns (zeros, counter, xorshift); the small-chunk build uses the self_encryption crate's own compile-time MAX_CHUNK_SIZE knob");
    if max != 1024 * 1024 {
        run.machinery_error(&format!("the default build must have the shipped chunk size, found {max}"));
    }
    let mut lengths: Vec<usize> = (0..=8).collect();
    lengths.extend([3 * max - 2, 3 * max - 1, 3 * max, 3 * max + 1, 3 * max + 2]);
    let t = sweep(&run, lengths, 6);
    // states = nodes of the explored answer-order trees (distinct prefixes of completion orders), over all inputs
    run.count("schedules", t.executions.load(Ordering::Relaxed));
    run.count("states", t.tree_nodes.load(Ordering::Relaxed));
    run.count("transitions", t.tree_nodes.load(Ordering::Relaxed));
    run.count("traces_validated_against_impl", t.executions.load(Ordering::Relaxed));
    run.extra("shipped_build", json!({"max_chunk_size": max, "max_stored_overhead": t.max_stored_overhead.load(Ordering::Relaxed)}));
    run.sample(json!({"len": 3 * max + 1, "pattern": "xorshift", "max_chunk_size": max}));
    // the upload layer (data_put / data_put_public through a harness that is the network), shipped chunk size
    {
        let mut ut = crate::c14u::UpTotals { executions: 0, tree_nodes: 0, uploads_ok: 0, uploads_err: 0, retried: 0 };
        crate::c14u::upload_layer(&run, &[3, 4, 8], &mut ut);
        run.count("schedules", ut.executions);
        run.count("states", ut.tree_nodes);
        run.count("transitions", ut.tree_nodes);
        run.count("traces_validated_against_impl", ut.executions);
        run.extra("upload_layer_shipped_build", json!({"executions": ut.executions, "uploads_reported_ok": ut.uploads_ok, "uploads_reported_err": ut.uploads_err, "executions_with_a_repeated_put": ut.retried}));
        if ut.uploads_ok == 0 && !mc_core::budget_spent() {
            run.machinery_error("upload layer: no upload completed with success, the layer would be vacuous");
        }
    }
    // the small-chunk build
    let exe = run.root.join("harness/target-se/verif/vcheck-node");
    if !exe.exists() {
        run.machinery_error("harness/target-se/verif/vcheck-node is missing: bin/check C14 builds it with MAX_CHUNK_SIZE=1024");
    }
    let out = std::process::Command::new(&exe).arg("C14-small").arg(if run.quick() { "quick" } else { "thorough" }).env("VERIF_ROOT", &run.root).env("CHUNK_DOWNLOAD_BATCH_SIZE", "3").env("CHUNK_UPLOAD_BATCH_SIZE", "3").output();
    let out = match out {
        Ok(o) => o,
        Err(e) => run.machinery_error(&format!("cannot run the small-chunk build: {e}")),
    };
    let text = String::from_utf8_lossy(&out.stdout).to_string();
    let summary = text.lines().find_map(|l| l.strip_prefix("C14-SUMMARY ")).and_then(|j| serde_json::from_str::<serde_json::Value>(j).ok());
    let Some(summary) = summary else {
        run.machinery_error(&format!("the small-chunk build produced no summary (exit {:?}): {}", out.status.code(), text.chars().take(500).collect::<String>()));
    };
    println!("[C14] small-chunk build: {summary}");
    run.count("schedules", summary["executions"].as_u64().unwrap_or(0));
    run.count("states", summary["tree_nodes"].as_u64().unwrap_or(0));
    run.count("transitions", summary["tree_nodes"].as_u64().unwrap_or(0));
    run.count("traces_validated_against_impl", summary["executions"].as_u64().unwrap_or(0));
    // the subprocess's inputs are this check's cases (it reports how many were encryptable = non-trivial)
    let (inputs, nontrivial) = (summary["inputs"].as_u64().unwrap_or(0), summary["nontrivial_inputs"].as_u64().unwrap_or(0));
    for i in 0..inputs {
        run.case(format!("small-chunk-build-input-{i}").as_bytes(), i < nontrivial);
    }
    run.extra("small_chunk_build", summary.clone());
    let child_violations = summary["violations"].as_array().map(|a| a.len()).unwrap_or(0);
    // (a run that wound down early because of violations has not reached the multi-level inputs: that is a verdict, not vacuity)
    if summary["multi_level_fetches"].as_u64().unwrap_or(0) == 0 && child_violations == 0 {
        run.machinery_error("no multi-level data map was exercised in the small-chunk build: the sweep would be vacuous for that clause");
    }
    for v in summary["violations"].as_array().cloned().unwrap_or_default() {
        run.violation(
            v["clause"].as_str().unwrap_or("round-trip"),
            v["trigger"].as_str().unwrap_or("?"),
            format!("small-chunk build: {}", v["what"].as_str().unwrap_or("")),
            json!({"engine": "small-chunk-build (MAX_CHUNK_SIZE=1024, CHUNK_DOWNLOAD_BATCH_SIZE=3)", "witness": v["witness"]}),
        );
    }
    let n_child = summary["violations"].as_array().map(|a| a.len()).unwrap_or(0);
    if (out.status.code() == Some(1)) != (n_child > 0) {
        run.machinery_error(&format!("the small-chunk build's exit status {:?} does not agree with the {n_child} violation(s) it reported", out.status.code()));
    }
    if !matches!(out.status.code(), Some(0) | Some(1)) {
        run.machinery_error(&format!("the small-chunk build failed (exit {:?}): {}", out.status.code(), String::from_utf8_lossy(&out.stderr).chars().take(400).collect::<String>()));
    }
    run.finish();
}

pub fn main_small(tier: Option<&str>) {
    let run = Run::new("C14-small", "model_checking", tier);
    let max = *self_encryption::MAX_CHUNK_SIZE;
    if max != 1024 {
        run.machinery_error(&format!("this binary must be built with MAX_CHUNK_SIZE=1024, found {max}"));
    }
    let mut lengths: Vec<usize> = (0..=4 * max + 2).collect();
    let kmax = run.pick(16, 64);
    for k in 5..=kmax {
        lengths.extend([k * max - 1, k * max, k * max + 1]);
    }
    let (crossings, most_additional) = datamap_crossings(max, run.pick(128, 1024) * max);
    lengths.extend(crossings.iter().cloned());
    lengths.sort();
    lengths.dedup();
    let n_inputs = lengths.len() * 3;
    let n_nontrivial = lengths.iter().filter(|l| **l >= 3).count() * 3;
    let t = sweep(&run, lengths, 6);
    let mut ut = crate::c14u::UpTotals { executions: 0, tree_nodes: 0, uploads_ok: 0, uploads_err: 0, retried: 0 };
    let up_lengths: Vec<usize> = if run.quick() { vec![3, 100, 3 * max + 1, 4 * max + 1, 6000, 12 * max] } else { vec![3, 4, 100, 3 * max, 3 * max + 1, 4 * max + 1, 6000, 9 * max, 12 * max, 40 * max, 100 * max + 1] };
    crate::c14u::upload_layer(&run, &up_lengths, &mut ut);
    let violations = run.dump_violations();
    println!(
        "C14-SUMMARY {}",
        json!({"max_chunk_size": max, "inputs": n_inputs, "nontrivial_inputs": n_nontrivial, "executions": t.executions.load(Ordering::Relaxed) + ut.executions, "tree_nodes": t.tree_nodes.load(Ordering::Relaxed) + ut.tree_nodes, "max_concurrently_pending": t.max_pending.load(Ordering::Relaxed),
               "multi_level_fetches": t.multi_level.load(Ordering::Relaxed), "max_stored_overhead": t.max_stored_overhead.load(Ordering::Relaxed), "datamap_shape_changes_at": crossings, "most_additional_level_chunks": most_additional,
               "upload_layer": {"lengths": up_lengths, "executions": ut.executions, "uploads_reported_ok": ut.uploads_ok, "uploads_reported_err": ut.uploads_err, "executions_with_a_repeated_put": ut.retried}, "violations": violations})
    );
    mc_core::remove_scratch_root();
    std::process::exit(if violations.is_empty() { 0 } else { 1 });
}
