//! C09 — records held by a node replicate to in-range neighbours and replicas converge.
//! Two or three real nodes (SwarmDriver + Node each) wired in-process: the harness is the
//! transport. A `SendRequest` taken from a node's command channel is an in-flight message; the
//! order in which in-flight messages are delivered is explored with the deviation-bounded DFS.
use crate::c01::fresh_scratch;
use crate::evm_stub::EvmStub;
use crate::node_rig::NodeRig;
use ant_networking::verif_hooks::NetworkSwarmCmd;
use ant_networking::{NetworkError, NetworkEvent};
use ant_node::verif_hooks::VerifNode;
use ant_protocol::messages::{Cmd, CmdResponse, Query, Request, Response};
use ant_protocol::storage::{try_deserialize_record, RecordType, Scratchpad, Transaction};
use ant_protocol::NetworkAddress;
use ant_registers::SignedRegister;
use libp2p::kad::{Record, RecordKey};
use libp2p::PeerId;
use mc_core::sched::{explore, Chooser, SchedOpts};
use mc_core::Run;
use rigs::records as rec;
use serde_json::json;
use std::collections::BTreeSet;
use std::sync::{Arc, Mutex};
use std::time::Duration;
use tokio::sync::oneshot;

type Reply = oneshot::Sender<Result<Response, NetworkError>>;

enum Msg {
    Request { from: usize, to: usize, req: Request, reply: Option<Reply> },
    Response { to: usize, reply: Reply, resp: Response },
}

impl Msg {
    fn label(&self) -> String {
        match self {
            Msg::Request { from, to, req, .. } => match req {
                Request::Cmd(Cmd::Replicate { keys, .. }) => format!("n{from}->n{to}:Replicate[{}]", keys.len()),
                Request::Query(Query::GetReplicatedRecord { .. }) => format!("n{from}->n{to}:GetReplicatedRecord"),
                other => format!("n{from}->n{to}:{}", format!("{other:?}").chars().take(30).collect::<String>()),
            },
            Msg::Response { to, .. } => format!("->n{to}:Response"),
        }
    }
}

pub struct Cluster {
    /// how far the replication throttles are aged before each round (time between rounds)
    pub spacing: Duration,
    pub nodes: Vec<NodeRig>,
    ids: Vec<PeerId>,
    inflight: Vec<Msg>,
    roots: Vec<std::path::PathBuf>,
    /// every Replicate list that left a node: (from, to, keys)
    pub advertised: Vec<(usize, usize, Vec<(NetworkAddress, RecordType)>)>,
    /// GetReplicatedRecord fetches sent: (from, to)
    pub fetches: Vec<(usize, usize)>,
}

thread_local! {
    static STUB: Arc<EvmStub> = Arc::new(EvmStub::start());
}

impl Cluster {
    pub fn new(n: usize) -> Cluster {
        let stub = STUB.with(|s| s.clone());
        let mut nodes = vec![];
        let mut roots = vec![];
        for i in 0..n {
            let root = fresh_scratch("c09");
            nodes.push(NodeRig::new(1 + i as u8, &root, stub.clone()));
            roots.push(root);
        }
        let ids: Vec<PeerId> = nodes.iter().map(|n| n.d.peer_id()).collect();
        for i in 0..n {
            for j in 0..n {
                if i != j {
                    let ok = nodes[i].d.driver.verif_add_peer(ids[j], format!("/ip4/127.0.0.1/udp/{}/quic-v1", 41000 + j).parse().unwrap());
                    assert!(ok);
                }
            }
        }
        Cluster { spacing: Duration::from_secs(120),  nodes, ids, inflight: vec![], roots, advertised: vec![], fetches: vec![] }
    }

    fn idx_of(&self, p: &PeerId) -> Option<usize> {
        self.ids.iter().position(|x| x == p)
    }

    /// Let every node run to quiescence (FIFO inside a node), feed node events to the node layer, and
    /// move outgoing requests into the in-flight pool.
    fn settle_nodes(&mut self) {
        loop {
            let mut moved = false;
            for i in 0..self.nodes.len() {
                self.nodes[i].d.settle();
                // node-layer event handling (KeysToFetchForReplication -> fetch tasks)
                self.nodes[i].d.drain_events();
                while let Some(ev) = self.nodes[i].d.events.pop_front() {
                    if matches!(ev, NetworkEvent::KeysToFetchForReplication(_)) {
                        let node = self.nodes[i].node.clone();
                        let d = &mut self.nodes[i].d;
                        let _ = d.exec.capture(None, "node-event", || node.handle_network_event(ev));
                        moved = true;
                    }
                }
                self.nodes[i].d.settle();
                while let Some(cmd) = self.nodes[i].d.outbox.pop_front() {
                    moved = true;
                    match cmd {
                        NetworkSwarmCmd::SendRequest { req, peer, sender } => match self.idx_of(&peer) {
                            Some(to) => {
                                match &req {
                                    Request::Cmd(Cmd::Replicate { keys, .. }) => self.advertised.push((i, to, keys.clone())),
                                    Request::Query(Query::GetReplicatedRecord { .. }) => self.fetches.push((i, to)),
                                    _ => {}
                                }
                                self.inflight.push(Msg::Request { from: i, to, req, reply: sender });
                            }
                            None => drop(sender), // a peer that does not exist: the request fails
                        },
                        _other => {} // GetNetworkRecord fall-backs etc.: no network beyond the cluster
                    }
                }
            }
            if !moved {
                break;
            }
        }
    }

    fn deliver(&mut self, k: usize) {
        let m = self.inflight.remove(k);
        match m {
            Msg::Request { from, to, req, reply } => match req {
                Request::Cmd(Cmd::Replicate { holder, keys }) => {
                    let d = &mut self.nodes[to].d;
                    let driver = &mut d.driver;
                    let _ = d.exec.capture(None, "replicate", || driver.verif_handle_replicate(holder, keys));
                    if let Some(r) = reply {
                        self.inflight.push(Msg::Response { to: from, reply: r, resp: Response::Cmd(CmdResponse::Replicate(Ok(()))) });
                    }
                }
                Request::Query(q) => {
                    let net = self.nodes[to].d.network.clone();
                    let resp = self.nodes[to].run_no_io("query", async move { VerifNode::handle_query(&net, q, ant_evm::RewardsAddress::from([9u8; 20])).await });
                    if let (Some(resp), Some(r)) = (resp, reply) {
                        self.inflight.push(Msg::Response { to: from, reply: r, resp });
                    }
                }
                _ => {}
            },
            Msg::Response { reply, resp, .. } => {
                let _ = reply.send(Ok(resp));
            }
        }
    }

    /// One replication round on every node, all message delivery orders chosen by `ch`.
    pub fn round(&mut self, ch: &mut Chooser) {
        for i in 0..self.nodes.len() {
            self.nodes[i].d.driver.verif_age_replication(self.spacing);
            let net = self.nodes[i].d.network.clone();
            let _ = self.nodes[i].d.exec.capture(None, "trigger", || net.trigger_interval_replication());
        }
        let mut guard = 0;
        loop {
            self.settle_nodes();
            if self.inflight.is_empty() {
                break;
            }
            guard += 1;
            assert!(guard < 2000, "replication round does not quiesce");
            let labels: Vec<String> = self.inflight.iter().map(|m| m.label()).collect();
            let k = if self.inflight.len() == 1 { 0 } else { ch.choose(self.inflight.len(), &labels.join("|").chars().take(60).collect::<String>()) };
            self.deliver(k);
        }
    }

    /// Seed a record on `node` but hold back its disk write (and therefore the completion
    /// notification): the node has accepted the record and serves it, the store index does not list it yet.
    pub fn seed_with_write_pending(&mut self, node: usize, record: Record) {
        let n = self.nodes[node].node.clone();
        let rig = &mut self.nodes[node];
        rig.d.exec.add("seed", async move {
            let _ = n.store_replicated_in_record(record).await;
        });
        loop {
            let en = rig.d.enabled_steps();
            // everything except the store's write task
            let pick = en.into_iter().find(|s| !matches!(s, crate::driver_rig::Step::Poll(id) if rig.d.exec.info(*id).func.ends_with("record_store.rs::put_verified")));
            match pick {
                Some(s) => rig.d.take_step(s),
                None => break,
            }
        }
        for id in rig.d.exec.unfinished() {
            if rig.d.exec.info(id).func.ends_with("record_store.rs::put_verified") {
                rig.d.exec.held.insert(id);
            }
        }
        self.inflight.clear();
        self.advertised.clear();
        self.fetches.clear();
    }

    pub fn release_held(&mut self) {
        for n in self.nodes.iter_mut() {
            n.d.exec.held.clear();
        }
    }

    pub fn seed(&mut self, node: usize, record: Record) {
        let n = self.nodes[node].node.clone();
        let _ = self.nodes[node].run_no_io("seed", async move { n.store_replicated_in_record(record).await });
        // seeding must not leave traffic behind
        self.settle_nodes();
        self.inflight.clear();
        self.advertised.clear();
        self.fetches.clear();
    }
}

impl Drop for Cluster {
    fn drop(&mut self) {
        self.inflight.clear();
        self.nodes.clear();
        for r in &self.roots {
            let _ = std::fs::remove_dir_all(r);
        }
    }
}

#[derive(Clone)]
struct Scenario {
    name: &'static str,
    nodes: usize,
    /// (node, record) seeds
    seeds: Vec<(usize, Record)>,
    key: RecordKey,
    kind: &'static str,
    /// the first seed's disk write is held back during round 1
    first_write_pending: bool,
    /// (node, record) accepted after the first round
    late: Vec<(usize, Record)>,
    /// seconds between rounds (the replication throttles are aged by this much) and number of rounds
    spacing: u64,
    rounds: usize,
    /// responsible range in force on node A (set the way the driver's periodic estimate sets it), if any
    a_range: Option<ant_evm::U256>,
    /// issues of one kind recorded at A against B before the first round (fewer than the three that make a peer bad:
    /// B stays an honest replication target)
    issues_against_b: usize,
    /// B's disk refuses the record's file during round 1 (a directory squats on its name) and takes it from round 2 on:
    /// the write of the first copy B fetches fails
    b_disk_fails_in_round_1: bool,
}

fn scenarios() -> Vec<Scenario> {
    let chunk = rec::chunk(b"c09 chunk");
    let chunk2 = rec::chunk(b"c09 second chunk");
    let fx = rec::reg_fixture(5, b"c09-reg");
    let t = [rec::tx(5, 1, 5), rec::tx(5, 2, 5), rec::tx(5, 3, 5)];
    let tk = rec::tx_key(&t[0]);
    let p1 = rec::pad(5, 1, b"pad one", 5);
    let p3 = rec::pad(5, 3, b"pad three", 5);
    // a chunk that lies inside A's responsible range but is farther from B than that range is wide (ranges are per node:
    // what A is responsible for says nothing about what its neighbour will take)
    let (a_id, b_id) = (NetworkAddress::from_peer(rigs::fixtures::peer_id(1)), NetworkAddress::from_peer(rigs::fixtures::peer_id(2)));
    let gap_chunk = (0..=255u8)
        .map(|i| rec::chunk(&[b'c', b'0', b'9', b'g', i]))
        .find(|c| {
            let ca = NetworkAddress::from_chunk_address(*c.address());
            a_id.distance(&ca) < b_id.distance(&ca)
        })
        .expect("a chunk nearer to A than to B");
    let gap_addr = NetworkAddress::from_chunk_address(*gap_chunk.address());
    let dist = |x: &NetworkAddress| ant_evm::U256::from_be_bytes(rigs::reference::xor_distance(&x.as_bytes(), &gap_addr.as_bytes()));
    let covers_record_not_target = dist(&a_id) + ant_evm::U256::from(1u8);
    assert!(covers_record_not_target < dist(&b_id));
    vec![
        Scenario { name: "chunk on A only; A's responsible range covers the chunk but is narrower than the chunk's distance from B", nodes: 2, seeds: vec![(0, rec::chunk_record(&gap_chunk))], key: rec::chunk_key(&gap_chunk), kind: "chunk", first_write_pending: false, late: vec![], spacing: 120, rounds: 3, a_range: Some(covers_record_not_target), issues_against_b: 0, b_disk_fails_in_round_1: false },
        Scenario { name: "chunk on A only; A's responsible range is the narrowest possible", nodes: 2, seeds: vec![(0, rec::chunk_record(&chunk))], key: rec::chunk_key(&chunk), kind: "chunk", first_write_pending: false, late: vec![], spacing: 120, rounds: 3, a_range: Some(ant_evm::U256::from(1u8)), issues_against_b: 0, b_disk_fails_in_round_1: false },
        Scenario { name: "register ops{0} on A, ops{1} on B; A's responsible range is the narrowest possible", nodes: 2, seeds: vec![(0, rec::reg_record(&fx.with_ops(&[0]))), (1, rec::reg_record(&fx.with_ops(&[1])))], key: rec::reg_key(&fx.base), kind: "register", first_write_pending: false, late: vec![], spacing: 120, rounds: 3, a_range: Some(ant_evm::U256::from(1u8)), issues_against_b: 0, b_disk_fails_in_round_1: false },
        Scenario { name: "chunk on A only; A has recorded one transient issue against B", nodes: 2, seeds: vec![(0, rec::chunk_record(&chunk))], key: rec::chunk_key(&chunk), kind: "chunk", first_write_pending: false, late: vec![], spacing: 120, rounds: 3, a_range: None, issues_against_b: 1, b_disk_fails_in_round_1: false },
        Scenario { name: "register ops{0} on A, ops{1} on B; A has recorded two transient issues against B", nodes: 2, seeds: vec![(0, rec::reg_record(&fx.with_ops(&[0]))), (1, rec::reg_record(&fx.with_ops(&[1])))], key: rec::reg_key(&fx.base), kind: "register", first_write_pending: false, late: vec![], spacing: 120, rounds: 3, a_range: None, issues_against_b: 2, b_disk_fails_in_round_1: false },
        Scenario { name: "chunk on A only", nodes: 2, seeds: vec![(0, rec::chunk_record(&chunk))], key: rec::chunk_key(&chunk), kind: "chunk", first_write_pending: false, late: vec![], spacing: 120, rounds: 3, a_range: None, issues_against_b: 0, b_disk_fails_in_round_1: false },
        Scenario { name: "chunk on A only, 3 nodes", nodes: 3, seeds: vec![(0, rec::chunk_record(&chunk))], key: rec::chunk_key(&chunk), kind: "chunk", first_write_pending: false, late: vec![], spacing: 120, rounds: 3, a_range: None, issues_against_b: 0, b_disk_fails_in_round_1: false },
        Scenario { name: "register ops{0} on A, ops{1} on B", nodes: 2, seeds: vec![(0, rec::reg_record(&fx.with_ops(&[0]))), (1, rec::reg_record(&fx.with_ops(&[1])))], key: rec::reg_key(&fx.base), kind: "register", first_write_pending: false, late: vec![], spacing: 120, rounds: 3, a_range: None, issues_against_b: 0, b_disk_fails_in_round_1: false },
        Scenario { name: "register ops{0,1} on A, ops{1} on B", nodes: 2, seeds: vec![(0, rec::reg_record(&fx.with_ops(&[0, 1]))), (1, rec::reg_record(&fx.with_ops(&[1])))], key: rec::reg_key(&fx.base), kind: "register", first_write_pending: false, late: vec![], spacing: 120, rounds: 3, a_range: None, issues_against_b: 0, b_disk_fails_in_round_1: false },
        Scenario { name: "transactions [t1] on A, [t2] on B", nodes: 2, seeds: vec![(0, rec::txs_record(tk.clone(), &[t[0].clone()])), (1, rec::txs_record(tk.clone(), &[t[1].clone()]))], key: tk.clone(), kind: "transaction", first_write_pending: false, late: vec![], spacing: 120, rounds: 3, a_range: None, issues_against_b: 0, b_disk_fails_in_round_1: false },
        Scenario { name: "transactions [t1] on A, [t2] on B, [t3] on C", nodes: 3, seeds: vec![(0, rec::txs_record(tk.clone(), &[t[0].clone()])), (1, rec::txs_record(tk.clone(), &[t[1].clone()])), (2, rec::txs_record(tk.clone(), &[t[2].clone()]))], key: tk.clone(), kind: "transaction", first_write_pending: false, late: vec![], spacing: 120, rounds: 3, a_range: None, issues_against_b: 0, b_disk_fails_in_round_1: false },
        Scenario { name: "scratchpad c=1 on A, c=3 on B", nodes: 2, seeds: vec![(0, rec::pad_record(&p1)), (1, rec::pad_record(&p3))], key: rec::pad_key(&p1), kind: "scratchpad", first_write_pending: false, late: vec![], spacing: 120, rounds: 3, a_range: None, issues_against_b: 0, b_disk_fails_in_round_1: false },
        Scenario { name: "scratchpad c=3 on A only", nodes: 2, seeds: vec![(0, rec::pad_record(&p3))], key: rec::pad_key(&p3), kind: "scratchpad", first_write_pending: false, late: vec![], spacing: 120, rounds: 3, a_range: None, issues_against_b: 0, b_disk_fails_in_round_1: false },
        // A has accepted its copy but the disk write is still pending when B's advertisement arrives
        Scenario { name: "transactions [t1] on A (write pending), [t2] on B", nodes: 2, seeds: vec![(0, rec::txs_record(tk.clone(), &[t[0].clone()])), (1, rec::txs_record(tk.clone(), &[t[1].clone()]))], key: tk.clone(), kind: "transaction", first_write_pending: true, late: vec![], spacing: 120, rounds: 3, a_range: None, issues_against_b: 0, b_disk_fails_in_round_1: false },
        Scenario { name: "register ops{0} on A (write pending), ops{1} on B", nodes: 2, seeds: vec![(0, rec::reg_record(&fx.with_ops(&[0]))), (1, rec::reg_record(&fx.with_ops(&[1])))], key: rec::reg_key(&fx.base), kind: "register", first_write_pending: true, late: vec![], spacing: 120, rounds: 3, a_range: None, issues_against_b: 0, b_disk_fails_in_round_1: false },
        Scenario { name: "chunk on A only (write pending)", nodes: 2, seeds: vec![(0, rec::chunk_record(&chunk))], key: rec::chunk_key(&chunk), kind: "chunk", first_write_pending: true, late: vec![], spacing: 120, rounds: 3, a_range: None, issues_against_b: 0, b_disk_fails_in_round_1: false },
        // records accepted after the first round, with rounds 31 s apart (inside the 45 s per-target throttle, outside the 30 s
        // per-node one — the rhythm of a node whose routing table keeps changing) and 46 s apart
        Scenario { name: "chunk on A, a second chunk on A after round 1 (rounds 31 s apart)", nodes: 2, seeds: vec![(0, rec::chunk_record(&chunk))], key: rec::chunk_key(&chunk2), kind: "chunk", first_write_pending: false, late: vec![(0, rec::chunk_record(&chunk2))], spacing: 31, rounds: 6, a_range: None, issues_against_b: 0, b_disk_fails_in_round_1: false },
        Scenario { name: "chunk on A, a second chunk on A after round 1 (rounds 46 s apart)", nodes: 2, seeds: vec![(0, rec::chunk_record(&chunk))], key: rec::chunk_key(&chunk2), kind: "chunk", first_write_pending: false, late: vec![(0, rec::chunk_record(&chunk2))], spacing: 46, rounds: 4, a_range: None, issues_against_b: 0, b_disk_fails_in_round_1: false },
        Scenario { name: "register ops{0} on A and B, ops{0,1} accepted by A after round 1 (rounds 31 s apart)", nodes: 2, seeds: vec![(0, rec::reg_record(&fx.with_ops(&[0]))), (1, rec::reg_record(&fx.with_ops(&[0])))], key: rec::reg_key(&fx.base), kind: "register", first_write_pending: false, late: vec![(0, rec::reg_record(&fx.with_ops(&[0, 1])))], spacing: 31, rounds: 6, a_range: None, issues_against_b: 0, b_disk_fails_in_round_1: false },
        // a transient fault at the receiving neighbour: its first write of the fetched copy fails; later rounds must repair that
        Scenario { name: "chunk on A only; B's disk refuses the file during round 1", nodes: 2, seeds: vec![(0, rec::chunk_record(&chunk))], key: rec::chunk_key(&chunk), kind: "chunk", first_write_pending: false, late: vec![], spacing: 120, rounds: 4, a_range: None, issues_against_b: 0, b_disk_fails_in_round_1: true },
        Scenario { name: "scratchpad c=3 on A only; B's disk refuses the file during round 1", nodes: 2, seeds: vec![(0, rec::pad_record(&p3))], key: rec::pad_key(&p3), kind: "scratchpad", first_write_pending: false, late: vec![], spacing: 120, rounds: 4, a_range: None, issues_against_b: 0, b_disk_fails_in_round_1: true },
        Scenario { name: "register ops{0,1} on A only; B's disk refuses the file during round 1", nodes: 2, seeds: vec![(0, rec::reg_record(&fx.with_ops(&[0, 1])))], key: rec::reg_key(&fx.base), kind: "register", first_write_pending: false, late: vec![], spacing: 120, rounds: 4, a_range: None, issues_against_b: 0, b_disk_fails_in_round_1: true },
    ]
}

/// content of the key on a node, in comparable form
fn content(rig: &mut NodeRig, key: &RecordKey, kind: &str) -> String {
    let Some(bytes) = rig.stored(key) else { return "absent".into() };
    // a copy the node merely serves (from its read cache) without listing the key is not a stored copy: it is not
    // advertised, not counted, and gone after a restart
    if !rig.contains(key) {
        return "served-but-not-listed".into();
    }
    let r = Record { key: key.clone(), value: bytes.clone(), publisher: None, expires: None };
    match kind {
        "chunk" => format!("chunk:{}", mc_core::hex8(&bytes)),
        "register" => match try_deserialize_record::<SignedRegister>(&r) {
            Ok(reg) => format!("register:{} ops:{}", reg.ops().len(), mc_core::hex8(format!("{:?}", reg.ops()).as_bytes())),
            Err(_) => "undecodable".into(),
        },
        "transaction" => match try_deserialize_record::<Vec<Transaction>>(&r) {
            Ok(ts) => {
                let s: BTreeSet<u8> = ts.iter().map(|t| t.content[0]).collect();
                format!("transactions:{s:?}")
            }
            Err(_) => "undecodable".into(),
        },
        _ => match try_deserialize_record::<Scratchpad>(&r) {
            Ok(p) => format!("scratchpad:c={} valid={}", p.count(), p.is_valid()),
            Err(_) => "undecodable".into(),
        },
    }
}

fn expected_converged(sc: &Scenario) -> String {
    match sc.kind {
        "chunk" => format!("chunk:{}", mc_core::hex8(&sc.seeds.iter().chain(sc.late.iter()).find(|(_, r)| r.key == sc.key).unwrap().1.value)),
        "register" => {
            let mut merged: Option<SignedRegister> = None;
            for (_, r) in sc.seeds.iter().chain(sc.late.iter()) {
                let reg: SignedRegister = try_deserialize_record(r).unwrap();
                match &mut merged {
                    None => merged = Some(reg),
                    Some(m) => m.merge(&reg).unwrap(),
                }
            }
            let m = merged.unwrap();
            format!("register:{} ops:{}", m.ops().len(), mc_core::hex8(format!("{:?}", m.ops()).as_bytes()))
        }
        "transaction" => {
            let mut s: BTreeSet<u8> = BTreeSet::new();
            for (_, r) in sc.seeds.iter().chain(sc.late.iter()) {
                let ts: Vec<Transaction> = try_deserialize_record(r).unwrap();
                s.extend(ts.iter().map(|t| t.content[0]));
            }
            format!("transactions:{s:?}")
        }
        _ => {
            let best = sc.seeds.iter().chain(sc.late.iter()).map(|(_, r)| try_deserialize_record::<Scratchpad>(r).unwrap().count()).max().unwrap();
            format!("scratchpad:c={best} valid=true")
        }
    }
}

fn run_scenario(run: &Run, sc: &Scenario, bound: usize, rounds: usize) {
    let outcomes: Mutex<BTreeSet<String>> = Mutex::new(BTreeSet::new());
    let want = expected_converged(sc);
    explore(
        run,
        SchedOpts { label: sc.name.to_string(), bound, wall_cap: Some(Duration::from_secs(run.pick(30, 900))), exec_cap: None },
        |ch: &mut Chooser| {
            let mut cl = Cluster::new(sc.nodes);
            cl.spacing = Duration::from_secs(sc.spacing);
            for (i, (n, r)) in sc.seeds.iter().enumerate().rev() {
                if i == 0 && sc.first_write_pending {
                    cl.seed_with_write_pending(*n, r.clone());
                } else {
                    cl.seed(*n, r.clone());
                }
            }
            if let Some(r) = sc.a_range {
                cl.nodes[0].d.driver.verif_set_responsible_range(r);
            }
            for _ in 0..sc.issues_against_b {
                let b = cl.ids[1];
                let _ = cl.nodes[0].d.handle_local(ant_networking::verif_hooks::LocalSwarmCmd::RecordNodeIssue { peer_id: b, issue: ant_networking::NodeIssue::ReplicationFailure });
                cl.nodes[0].d.settle();
            }
            if sc.issues_against_b > 0 {
                // the premise of the scenario: B is still a peer A knows and does not consider bad
                let b = cl.ids[1];
                let issues = cl.nodes[0].d.driver.verif_node_issues(&b);
                if issues.1 {
                    run.machinery_error("C09: fewer than three issues made the neighbour a bad node — the scenario's premise does not hold");
                }
            }
            // nodes that hold the record under sc.key by an accepted upload (they must advertise it)
            let seeded: Vec<usize> = sc.seeds.iter().chain(sc.late.iter()).filter(|(_, r)| r.key == sc.key).map(|(n, _)| *n).collect();
            let squat = cl.roots[1].join("record_store").join(hex::encode(sc.key.as_ref()));
            if sc.b_disk_fails_in_round_1 {
                std::fs::create_dir_all(&squat).expect("squat");
            }
            for round in 0..rounds.max(sc.rounds) {
                cl.round(ch);
                if round == 0 {
                    if sc.b_disk_fails_in_round_1 {
                        let _ = std::fs::remove_dir(&squat);
                        if squat.exists() {
                            run.machinery_error("C09: the squatting directory could not be removed again (B wrote into it?)");
                        }
                    }
                    cl.release_held();
                    for (n, r) in &sc.late {
                        cl.seed(*n, r.clone());
                    }
                }
            }
            let got: Vec<String> = (0..sc.nodes).map(|i| content(&mut cl.nodes[i], &sc.key, sc.kind)).collect();
            outcomes.lock().unwrap().insert(format!("{got:?}"));
            run.outcome(format!("{}:{got:?}", sc.name).as_bytes());
            let witness = json!({"engine":"sched","scenario": sc.name, "choices": ch.choices(), "deviations": ch.deviations(), "held_after": got});
            // every node holds the converged value
            for (i, g) in got.iter().enumerate() {
                if *g != want {
                    let (clause, trig) = match sc.kind {
                        "chunk" => ("immutable-data-replicates", "chunk-not-replicated"),
                        "scratchpad" if seeded.len() > 1 => ("mutable-records-converge", "scratchpad-versions-differ"),
                        "scratchpad" => ("mutable-records-converge", "scratchpad-not-replicated"),
                        "register" => ("mutable-records-converge", "register-versions-differ"),
                        _ => ("mutable-records-converge", "transaction-versions-differ"),
                    };
                    run.violation(clause, trig, format!("{}: after {rounds} rounds node {i} holds {g}, expected {want}", sc.name), witness.clone());
                }
            }
            // every held record is advertised to every replication target
            for i in 0..sc.nodes {
                if seeded.contains(&i) {
                    for j in 0..sc.nodes {
                        if i != j && !cl.advertised.iter().any(|(f, t, keys)| *f == i && *t == j && keys.iter().any(|(a, _)| a.to_record_key() == sc.key)) {
                            run.violation("advertises-all-held", "missing", format!("{}: node {i} never advertised the record to neighbour {j}", sc.name), witness.clone());
                        }
                    }
                }
            }
        },
    );
    let n = outcomes.lock().unwrap().len();
    run.count(if n > 1 { "scenarios_with_several_outcomes" } else { "scenarios_with_single_outcome" }, 1);
}

/// Advertisements from a peer outside the routing table and from the node itself cause no fetch.
fn foreign_advertisements(run: &Run) {
    let mut cl = Cluster::new(2);
    let chunk = rec::chunk(b"c09 foreign");
    let keys = vec![(NetworkAddress::from_chunk_address(*chunk.address()), RecordType::Chunk)];
    for (who, holder) in [("a peer outside the routing table", rigs::fixtures::peer_id(77)), ("the node itself", cl.ids[1])] {
        let d = &mut cl.nodes[1].d;
        let driver = &mut d.driver;
        let k = keys.clone();
        let _ = d.exec.capture(None, "replicate", || driver.verif_handle_replicate(NetworkAddress::from_peer(holder), k));
        cl.settle_nodes();
        run.case(format!("foreign-ad:{who}").as_bytes(), true);
        if !cl.fetches.is_empty() || !cl.inflight.is_empty() {
            run.violation("only-close-peers-advertise", "fetch-issued", format!("an advertisement from {who} caused a fetch"), json!({"engine":"sequential","holder": who}));
        }
        cl.inflight.clear();
    }
    // and from a real neighbour it does (otherwise the clause above is vacuous)
    let holder = cl.ids[0];
    let d = &mut cl.nodes[1].d;
    let driver = &mut d.driver;
    let _ = d.exec.capture(None, "replicate", || driver.verif_handle_replicate(NetworkAddress::from_peer(holder), keys));
    cl.settle_nodes();
    if cl.fetches.is_empty() {
        run.machinery_error("an advertisement from a routing-table neighbour caused no fetch: the foreign-advertisement clause would be vacuous");
    }
}

/// A node whose routing table holds more peers than its K closest: advertisements from every peer outside the K closest
/// (single-key lists for a record right next to the sender, and multi-key lists) must cause no fetch and queue nothing;
/// the same lists from peers among the K closest must.
fn far_peer_advertisements(run: &Run) {
    let root = crate::c01::fresh_scratch("c09-far");
    let mut rig = crate::driver_rig::DriverRig::new_node(1, &root);
    let peers: Vec<libp2p::PeerId> = (0..45u8).map(|i| rigs::fixtures::peer_id(100 + i)).collect();
    for (i, p) in peers.iter().enumerate() {
        let ok = rig.driver.verif_add_peer(*p, format!("/ip4/127.0.0.1/udp/{}/quic-v1", 31000 + i).parse().unwrap());
        if !ok {
            run.machinery_error("routing table insert failed");
        }
    }
    let close: Vec<libp2p::PeerId> = rig.driver.verif_closest_k_value_local_peers();
    let far: Vec<libp2p::PeerId> = peers.iter().filter(|p| !close.contains(p)).cloned().collect();
    if far.is_empty() {
        run.machinery_error("every routing-table peer is among the K closest: the far-peer clause would be vacuous");
    }
    let chunk = rec::chunk(b"c09 far list");
    let mut acted_on_close = 0usize;
    for (who, set) in [("outside the K closest", &far), ("among the K closest", &close)] {
        for p in set.iter() {
            if !peers.contains(p) {
                continue; // the node itself
            }
            // a record whose address is the sender's own (nothing is closer to it than the sender), in raw form
            let next_to_sender = NetworkAddress::from_record_key(&NetworkAddress::from_peer(*p).to_record_key());
            let lists: Vec<(&str, Vec<(NetworkAddress, RecordType)>)> = vec![
                ("one key next to the sender", vec![(next_to_sender.clone(), RecordType::Chunk)]),
                ("two keys", vec![(next_to_sender, RecordType::Chunk), (NetworkAddress::from_chunk_address(*chunk.address()), RecordType::Chunk)]),
            ];
            for (lname, list) in lists {
                let before = rig.driver.verif_fetcher_view();
                let driver = &mut rig.driver;
                let _ = rig.exec.capture(None, "replicate", || driver.verif_handle_replicate(NetworkAddress::from_peer(*p), list));
                rig.settle();
                let after = rig.driver.verif_fetcher_view();
                run.case(format!("far-ad:{who}:{p}:{lname}").as_bytes(), true);
                if who == "outside the K closest" {
                    if after != before {
                        run.violation(
                            "only-close-peers-advertise",
                            "far-peer-list-acted-on",
                            format!("a list ({lname}) from a routing-table peer outside the K closest changed the fetcher from {before:?} to {after:?} (queued, in flight)"),
                            json!({"engine": "sequential", "routing_table_peers": peers.len(), "k_closest": close.len(), "list": lname}),
                        );
                    }
                } else if after != before {
                    acted_on_close += 1;
                } else if lname == "one key next to the sender" {
                    // a record nobody advertised before (its address is this sender's own), no range set, nothing held:
                    // a list from one of the K closest peers has to be acted on, whichever of the K it is
                    run.violation(
                        "only-close-peers-advertise",
                        "close-peer-list-ignored",
                        format!("a one-key list from a routing-table peer among the K closest (rank {:?} of {}) left the fetcher unchanged at {before:?}: the record is never fetched from it", close.iter().position(|c| c == p), close.len()),
                        json!({"engine": "sequential", "routing_table_peers": peers.len(), "k_closest": close.len(), "list": lname, "sender_rank_among_closest": close.iter().position(|c| c == p)}),
                    );
                }
            }
        }
    }
    if acted_on_close == 0 {
        run.machinery_error("no list from a peer among the K closest was acted on: the far-peer clause would be vacuous");
    }
    run.extra("far_peer_advertisements", json!({"routing_table_peers": peers.len(), "k_closest": close.len(), "far_peers": far.len()}));
    drop(rig);
    let _ = std::fs::remove_dir_all(&root);
}


/// A node whose store is full (capacity 2, a third and farther record was refused, so the fetcher was told the
/// farthest acceptable distance) and whose *farthest* record is a mutable record the neighbour holds in another
/// version: the two versions must still converge (updating a held record needs no free slot and evicts nothing).
fn full_node_divergence(run: &Run, bound: usize) {
    let fx = rec::reg_fixture(5, b"c09-reg");
    let t = [rec::tx(5, 1, 5), rec::tx(5, 2, 5)];
    let tk = rec::tx_key(&t[0]);
    let cases: Vec<(&'static str, &'static str, RecordKey, Record, Record)> = vec![
        ("full node A (capacity 2) whose farthest record is a register that B holds with other ops", "register", rec::reg_key(&fx.base), rec::reg_record(&fx.with_ops(&[0])), rec::reg_record(&fx.with_ops(&[1]))),
        ("full node A (capacity 2) whose farthest record is a transaction set that B holds with another entry", "transaction", tk.clone(), rec::txs_record(tk.clone(), &[t[0].clone()]), rec::txs_record(tk.clone(), &[t[1].clone()])),
    ];
    for (name, kind, key, on_a, on_b) in cases {
        let sc = Scenario { name, nodes: 2, seeds: vec![(0, on_a.clone()), (1, on_b.clone())], key: key.clone(), kind, first_write_pending: false, late: vec![], spacing: 120, rounds: 3, a_range: None, issues_against_b: 0, b_disk_fails_in_round_1: false };
        let want = expected_converged(&sc);
        explore(
            run,
            SchedOpts { label: name.to_string(), bound, wall_cap: Some(Duration::from_secs(run.pick(30, 900))), exec_cap: None },
            |ch: &mut Chooser| {
                let mut cl = Cluster::new(2);
                let me = NetworkAddress::from_peer(cl.ids[0]);
                let d_f = me.distance(&NetworkAddress::from_record_key(&key));
                let (mut near, mut far) = (None, None);
                for i in 0..=255u8 {
                    let c = rec::chunk(&[b'c', b'0', b'9', b'f', i]);
                    let d = me.distance(&NetworkAddress::from_chunk_address(*c.address()));
                    if d < d_f && near.is_none() {
                        near = Some(c);
                    } else if d > d_f && far.is_none() {
                        far = Some(c);
                    }
                }
                let (Some(near), Some(far)) = (near, far) else { run.machinery_error("no chunk nearer / farther than the mutable record found among 256 candidates") };
                cl.nodes[0].set_max_records(2);
                cl.seed(0, on_a.clone());
                cl.seed(0, rec::chunk_record(&near));
                cl.seed(0, rec::chunk_record(&far)); // refused for lack of space: the driver tells the fetcher the node is full
                let listed = cl.nodes[0].listed();
                let told = cl.nodes[0].d.driver.verif_fetcher_farthest();
                if listed.len() != 2 || !cl.nodes[0].contains(&key) || cl.nodes[0].contains(&rec::chunk_key(&far)) || told != Some(d_f) {
                    run.machinery_error(&format!("full-node set-up not reached: A lists {listed:?}, fetcher's farthest acceptable distance {told:?}, distance of the mutable record {d_f:?}"));
                }
                cl.seed(1, on_b.clone());
                for _ in 0..sc.rounds {
                    cl.round(ch);
                }
                let got: Vec<String> = (0..2).map(|i| content(&mut cl.nodes[i], &key, kind)).collect();
                run.outcome(format!("{name}:{got:?}").as_bytes());
                let witness = json!({"engine":"sched","scenario": name, "choices": ch.choices(), "deviations": ch.deviations(), "held_after": got});
                for (i, g) in got.iter().enumerate() {
                    if *g != want {
                        run.violation("mutable-records-converge", if kind == "register" { "register-versions-differ" } else { "transaction-versions-differ" }, format!("{name}: after {} rounds node {i} holds {g}, expected {want}", sc.rounds), witness.clone());
                    }
                }
                // the refused record stays out and the nearer chunk stays in: convergence must not cost the full node a record
                if !cl.nodes[0].contains(&rec::chunk_key(&near)) {
                    run.violation("mutable-records-converge", "full-node-lost-a-record", format!("{name}: merging the neighbour's version evicted the nearer chunk"), witness.clone());
                }
            },
        );
    }
}

pub fn main(tier: Option<&str>) {
    let run = Run::new("C09", "model_checking", tier);
    run.rule(
        "2-3 real nodes (SwarmDriver + Node) wired in-process, mutual routing-table neighbours; seeds through the real replication-store \
         path: a chunk on A only, divergent registers (disjoint and nested op sets), divergent transaction sets (2 and 3 nodes), scratchpads \
         with counters 1 and 3, a scratchpad on A only, the same with A's disk write held back during round 1, records accepted by A after the first round, and a full node A (capacity 2, fetcher told so by a refused third record) whose farthest record is a register / transaction set that B holds in another version, and three scenarios with a responsible range set on A (covering the record but narrower than its distance from B; the narrowest possible), and three in which the receiving neighbour's disk refuses the record's file during the first round only (chunk, scratchpad, register; 4 rounds); then 3 rounds of \
         interval replication on every node 120 s apart (6 rounds 31 s apart / 4 rounds 46 s apart for the late-record scenarios); every \
         delivery order of the in-flight requests/responses with <=1(2) deviations from FIFO. Plus advertisements from a stranger and from self, and — on a node whose routing table holds 45 peers — one-key (record next to the sender) and two-key lists from every peer outside / among the K closest.",
    );
    run.assume("the harness is the transport: it delivers a Replicate to the receiver's real handler with the holder claimed in the message (the real handler also only sees the claimed holder)");
    run.assume("no responsible range is set (small networks) except in the three scenarios that set one on A; with fewer than five peers in range the code falls back to the closest peers, so B stays A's replication target");
    let bound = run.pick(1, 2);
    for sc in scenarios() {
        run_scenario(&run, &sc, bound, sc.rounds);
    }
    full_node_divergence(&run, bound);
    foreign_advertisements(&run);
    far_peer_advertisements(&run);
    run.finish();
}
