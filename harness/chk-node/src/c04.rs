//! C04 — every accepted record's address is derived from its own content or owner.
//! For each record kind and each acceptance path (paid client put, unpaid update, replication,
//! kad inbound put) every (key, content) pairing from a key pool {derived, key of another object of
//! the same kind, key of an object of another kind, random} is presented to a real Node on a real
//! SwarmDriver, against an empty store and a store that already holds the derived key.
use crate::c01::fresh_scratch;
use crate::c03::{upload_for, Kind};
use crate::evm_stub::{Chain, EvmStub};
use crate::node_rig::NodeRig;
use ant_networking::NetworkEvent;
use ant_protocol::storage::{try_deserialize_record, Chunk, RecordHeader, RecordKind, Scratchpad, Transaction};
use ant_protocol::NetworkAddress;
use ant_registers::SignedRegister;
use libp2p::kad::store::RecordStore;
use libp2p::kad::{Record, RecordKey};
use mc_core::Run;
use rigs::records as rec;
use serde_json::json;
use std::sync::Arc;
use std::time::{Duration, SystemTime};
use xor_name::XorName;

const KINDS: [Kind; 4] = [Kind::Chunk, Kind::Scratchpad, Kind::Transaction, Kind::Register];

#[derive(Clone, Copy, Debug, PartialEq)]
enum Path {
    PaidPut,
    UnpaidUpdate,
    Replication,
    KadInbound,
}

#[derive(Clone, Copy, Debug, PartialEq)]
enum KeyChoice {
    Derived,
    SameKindOther,
    OtherKind,
    Random,
    /// the derived key without its last byte / with one byte appended / the empty key
    Prefix31,
    Extended33,
    Empty,
}

/// The key the content of a stored record determines, recomputed independently of the node.
fn derived_key_of(bytes: &[u8]) -> Option<RecordKey> {
    let r = Record { key: RecordKey::new(&[0u8; 32]), value: bytes.to_vec(), publisher: None, expires: None };
    let kind = RecordHeader::from_record(&r).ok()?.kind;
    match kind {
        RecordKind::Chunk => {
            // independent of the code under test: a stored chunk is the two header bytes followed by one MessagePack
            // byte string, and its key is the hash of that string
            let body = bytes.get(2..)?;
            let (len, at) = match *body.first()? {
                0xc4 => (*body.get(1)? as usize, 2),
                0xc5 => (u16::from_be_bytes([*body.get(1)?, *body.get(2)?]) as usize, 3),
                0xc6 => (u32::from_be_bytes([*body.get(1)?, *body.get(2)?, *body.get(3)?, *body.get(4)?]) as usize, 5),
                _ => return None,
            };
            if body.len() != at + len {
                return None;
            }
            let by_hand = RecordKey::new(&XorName::from_content(&body[at..]));
            // and the repository's decoder must agree with that reading
            let c: Chunk = try_deserialize_record(&r).ok()?;
            if RecordKey::new(&XorName::from_content(c.value())) != by_hand || NetworkAddress::from_chunk_address(*c.address()).to_record_key() != by_hand {
                return None;
            }
            Some(by_hand)
        }
        RecordKind::Scratchpad => {
            let s: Scratchpad = try_deserialize_record(&r).ok()?;
            Some(RecordKey::new(&XorName::from_content(&s.owner().to_bytes())))
        }
        RecordKind::Transaction => {
            let ts: Vec<Transaction> = try_deserialize_record(&r).ok()?;
            let k = ts.first().map(|t| NetworkAddress::from_transaction_address(t.address()).to_record_key())?;
            // every entry must belong to the same address
            if ts.iter().all(|t| NetworkAddress::from_transaction_address(t.address()).to_record_key() == k) {
                Some(k)
            } else {
                None
            }
        }
        RecordKind::Register => {
            let reg: SignedRegister = try_deserialize_record(&r).ok()?;
            let mut b = reg.address().meta().0.to_vec();
            b.extend_from_slice(&reg.owner().to_bytes());
            Some(RecordKey::new(&XorName::from_content(&b)))
        }
        _ => None,
    }
}

fn other_same_kind_key(kind: Kind) -> RecordKey {
    match kind {
        Kind::Chunk => rec::chunk_key(&rec::chunk(b"another chunk")),
        Kind::Scratchpad => rec::pad_key(&rec::pad(9, 1, b"x", 9)),
        Kind::Transaction => rec::tx_key(&rec::tx(9, 1, 9)),
        Kind::Register => rec::reg_key(&rec::reg_fixture(9, b"other").base),
    }
}

/// What is already held when the case starts.
#[derive(Clone, Copy, Debug, PartialEq)]
enum Held {
    Nothing,
    /// an (older) version of the honest object, under the key the content determines
    DerivedKey,
    /// the legitimate object of the *presented* foreign key
    PresentedKey,
    /// the store is full (capacity 2) of two unrelated chunks that are farther from the node than every key of the case:
    /// a presented key is nearer than the farthest held record, so anything that runs the capacity step evicts
    FullOfOthers,
}

/// The honest record living under the foreign key a case presents.
fn legit_record_under(kind: Kind, choice: KeyChoice) -> Option<Record> {
    match (choice, kind) {
        (KeyChoice::SameKindOther, Kind::Chunk) => Some(rec::chunk_record(&rec::chunk(b"another chunk"))),
        (KeyChoice::SameKindOther, Kind::Scratchpad) => Some(rec::pad_record(&rec::pad(9, 1, b"x", 9))),
        (KeyChoice::SameKindOther, Kind::Transaction) => {
            let t = rec::tx(9, 1, 9);
            Some(rec::txs_record(rec::tx_key(&t), &[t]))
        }
        (KeyChoice::SameKindOther, Kind::Register) => Some(rec::reg_record(&rec::reg_fixture(9, b"other").base)),
        (KeyChoice::OtherKind, Kind::Chunk) => Some(rec::pad_record(&rec::pad(5, 2, b"pad v2", 5))),
        (KeyChoice::OtherKind, _) => Some(rec::chunk_record(&rec::chunk(b"c03 chunk payload"))),
        _ => None,
    }
}

fn other_kind_key(kind: Kind) -> RecordKey {
    match kind {
        Kind::Chunk => rec::pad_key(&rec::pad(5, 2, b"pad v2", 5)),
        _ => rec::chunk_key(&rec::chunk(b"c03 chunk payload")),
    }
}

fn snapshot(rig: &mut NodeRig, keys: &[RecordKey]) -> String {
    let reads: Vec<Option<usize>> = keys.iter().map(|k| rig.stored(k).map(|v| v.len())).collect();
    format!("{:?}|{reads:?}", rig.listed())
}

fn check_all_stored_keys_derived(run: &Run, rig: &mut NodeRig, desc: &serde_json::Value) {
    let listed = rig.listed();
    for l in listed {
        let hexk = l.split(':').next().unwrap_or("");
        let key = RecordKey::new(&hex::decode(hexk).unwrap_or_default());
        if let Some(bytes) = rig.stored(&key) {
            match derived_key_of(&bytes) {
                Some(k) if k == key => {}
                other => run.violation(
                    "stored-key-is-derived",
                    "mismatch",
                    format!("a record is stored under {hexk} but its content determines {:?} ({desc})", other.map(|k| hex::encode(k.as_ref()))),
                    json!({"case": desc}),
                ),
            }
        }
    }
}

fn run_case(run: &Run, stub: &Arc<EvmStub>, kind: Kind, path: Path, choice: KeyChoice, held_what: Held) {
    let held = held_what == Held::DerivedKey;
    let up = upload_for(kind);
    if path == Path::UnpaidUpdate && !matches!(kind, Kind::Scratchpad | Kind::Register) {
        return;
    }
    let root = fresh_scratch("c04");
    let mut rig = NodeRig::new(1, &root, stub.clone());
    rig.add_peers(&[2, 3]);
    stub.set(Chain::Paid);
    if held {
        let (n, r) = (rig.node.clone(), up.prior_other.clone().unwrap_or(up.prior_same.clone()));
        let _ = rig.run("prior", async move { n.store_replicated_in_record(r).await });
    }
    if held_what == Held::PresentedKey {
        let Some(r) = legit_record_under(kind, choice) else {
            return;
        };
        let (n, k) = (rig.node.clone(), r.key.clone());
        let _ = rig.run("prior-foreign", async move { n.store_replicated_in_record(r).await });
        if rig.stored(&k).is_none() {
            run.machinery_error(&format!("the legitimate holder of the foreign key could not be stored ({kind:?}, {choice:?})"));
        }
    }
    let key = match choice {
        KeyChoice::Derived => up.key.clone(),
        KeyChoice::SameKindOther => other_same_kind_key(kind),
        KeyChoice::OtherKind => other_kind_key(kind),
        KeyChoice::Random => RecordKey::new(&[0xabu8; 32]),
        KeyChoice::Prefix31 => RecordKey::new(&up.key.as_ref()[..31].to_vec()),
        KeyChoice::Extended33 => RecordKey::new(&[up.key.as_ref(), &[0u8][..]].concat()),
        KeyChoice::Empty => RecordKey::new(&Vec::<u8>::new()),
    };
    let mut watch = vec![up.key.clone(), key.clone(), other_same_kind_key(kind), other_kind_key(kind)];
    if held_what == Held::FullOfOthers {
        let me = ant_protocol::NetworkAddress::from_peer(rig.d.peer_id());
        let far_edge = watch.iter().map(|k| me.distance(&ant_protocol::NetworkAddress::from_record_key(k))).max().expect("watch keys");
        let mut fillers = vec![];
        for i in 0..=255u8 {
            let c = rec::chunk(&[b'c', b'0', b'4', b'f', i]);
            if me.distance(&ant_protocol::NetworkAddress::from_chunk_address(*c.address())) > far_edge {
                fillers.push(c);
                if fillers.len() == 2 {
                    break;
                }
            }
        }
        if fillers.len() < 2 {
            run.machinery_error("C04: no two chunks farther than every key of the case among 256 candidates");
        }
        for c in &fillers {
            let (n, r) = (rig.node.clone(), rec::chunk_record(c));
            let _ = rig.run("filler", async move { n.store_replicated_in_record(r).await });
            watch.push(rec::chunk_key(c));
        }
        rig.set_max_records(2);
        if rig.listed().len() != 2 {
            run.machinery_error("C04: the full-store set-up does not hold its two filler chunks");
        }
    }
    let before = snapshot(&mut rig, &watch);
    let desc = json!({"kind": format!("{kind:?}"), "path": format!("{path:?}"), "key": format!("{choice:?}"), "already_held": format!("{held_what:?}")});
    run.case(desc.to_string().as_bytes(), choice != KeyChoice::Derived);
    // the attacker pays for the key it presents
    let now = SystemTime::now() - Duration::from_secs(30);
    // (a key that is not 32 bytes long has no address of its own: pay for the derived one)
    let addr = if key.as_ref().len() >= 32 { rec::xorname_of_key(&key) } else { rec::xorname_of_key(&up.key) };
    let proof = rec::proof(vec![(1, rec::quote(1, addr, now)), (2, rec::quote(2, addr, now)), (3, rec::quote(3, addr, now))]);
    let mut record = match path {
        Path::PaidPut => (up.with_payment)(&proof),
        _ => up.prior_same.clone(),
    };
    record.key = key.clone();
    let result: Option<Result<(), String>> = match path {
        Path::PaidPut | Path::UnpaidUpdate => {
            let n = rig.node.clone();
            rig.run("put", async move { n.validate_and_store_record(record).await })
        }
        Path::Replication => {
            let n = rig.node.clone();
            rig.run("repl", async move { n.store_replicated_in_record(record).await })
        }
        Path::KadInbound => {
            // RecordStore::put only forwards the record for validation: nothing new is readable before that
            let d = &mut rig.d;
            let driver = &mut d.driver;
            let (r, _) = d.exec.capture(None, "kad-put", || driver.verif_store().put(record));
            let mid = snapshot(&mut rig, &watch);
            if mid != before {
                run.violation("not-readable-before-validation", "kad-put", format!("RecordStore::put changed what is readable before validation ({desc})"), json!({"case": desc}));
            }
            rig.settle();
            let mut events = vec![];
            rig.d.drain_events();
            while let Some(e) = rig.d.events.pop_front() {
                events.push(e);
            }
            let mut res = None;
            for e in events {
                if let NetworkEvent::UnverifiedRecord(rcd) = e {
                    let n = rig.node.clone();
                    res = rig.run("validate", async move { n.validate_and_store_record(rcd).await });
                }
            }
            let _ = r;
            res.or(Some(Err("no validation event".into())))
        }
    };
    let after = snapshot(&mut rig, &watch);
    run.outcome(format!("{:?}/{}", result.as_ref().map(|r| r.is_ok()), after != before).as_bytes());
    if choice != KeyChoice::Derived {
        if after != before {
            run.violation("mismatched-key-rejected", &format!("{path:?}"), format!("a record presented under a key its content does not determine changed the store ({desc}): {before} -> {after}"), json!({"case": desc}));
        }
        if matches!(result, Some(Ok(()))) && path != Path::KadInbound {
            run.violation("mismatched-key-rejected", "returned-ok", format!("a record presented under a foreign key was answered Ok ({desc})"), json!({"case": desc}));
        }
    } else if path != Path::UnpaidUpdate || held {
        // the honest pairing is accepted on every path (unpaid updates need the key to be held)
        if path == Path::KadInbound && kind != Kind::Chunk && !held {
            // kad-inbound unpaid non-chunk records for keys not held need payment: refusal is correct
        } else if path == Path::KadInbound && kind == Kind::Chunk {
            // an unpaid plain chunk arriving over kad is refused by design (chunks need payment)
        } else if rig.stored(&up.key).is_none() {
            run.violation("derived-key-accepted", &format!("{path:?}"), format!("the honest (key, content) pairing was not stored ({desc}): {result:?}"), json!({"case": desc}));
        }
    }
    check_all_stored_keys_derived(run, &mut rig, &desc);
    drop(rig);
    let _ = std::fs::remove_dir_all(&root);
}

fn malformed_and_oversized(run: &Run, stub: &Arc<EvmStub>) {
    let root = fresh_scratch("c04m");
    let mut rig = NodeRig::new(1, &root, stub.clone());
    let key = RecordKey::new(&[7u8; 32]);
    let max = ant_networking::MAX_PACKET_SIZE;
    let mut inputs: Vec<(String, Vec<u8>, &str)> = vec![
        ("empty".into(), vec![], "ignored"),
        ("1 byte".into(), vec![0x91], "ignored"),
        ("2 bytes (header only)".into(), vec![0x91, 0x01], "ignored"),
        ("3 bytes, unknown kind 9".into(), vec![0x91, 0x09, 0x00], "ignored"),
        ("3 bytes, kind 200".into(), vec![0x91, 0xcc, 0xc8], "ignored"),
        ("not msgpack".into(), vec![0xff, 0xff, 0xff, 0xff], "ignored"),
    ];
    // oversized records under the header of every record kind (the size rule is about the record, not about its kind:
    // a kind that is "always passed on" for its payment is still bounded), at the limit, just above, and at twice the limit
    for kind in 0u8..8 {
        for (sname, size) in [("exactly max_value_bytes", max), ("max_value_bytes + 1", max + 1), ("twice max_value_bytes", 2 * max)] {
            let mut big = vec![0x91u8, kind, 0xc6];
            big.extend_from_slice(&((size - 7) as u32).to_be_bytes());
            big.resize(size, 0xaa);
            inputs.push((format!("{sname} ({size}) under the header of kind {kind}"), big, "too-large"));
        }
    }
    for (name, bytes, expect) in inputs {
        let before = rig.listed();
        let record = Record { key: key.clone(), value: bytes, publisher: None, expires: None };
        let d = &mut rig.d;
        let driver = &mut d.driver;
        let (r, _) = d.exec.capture(None, "kad-put", || driver.verif_store().put(record));
        rig.settle();
        rig.d.drain_events();
        let events = rig.d.events.iter().filter(|e| matches!(e, NetworkEvent::UnverifiedRecord(_))).count();
        rig.d.events.clear();
        let desc = json!({"kad_put_of": name});
        run.case(desc.to_string().as_bytes(), true);
        match expect {
            "too-large" => {
                if !format!("{r:?}").contains("ValueTooLarge") {
                    run.violation("oversized-refused", "kad-put", format!("an oversized record ({name}) was answered {r:?}"), json!({"case": desc}));
                }
            }
            _ => {}
        }
        if events != 0 {
            run.violation("unparseable-refused", "event-emitted", format!("{name}: a validation event was emitted for a record that cannot be parsed / is too large"), json!({"case": desc}));
        }
        if rig.listed() != before || rig.stored(&key).is_some() {
            run.violation("unparseable-refused", "stored", format!("{name}: something was stored"), json!({"case": desc}));
        }
    }
    drop(rig);
    let _ = std::fs::remove_dir_all(&root);
}

/// A replicated transaction record is a whole vector supplied by a peer: every entry must belong to
/// the address of the key it is stored under, whatever its position in the vector.
fn mixed_transaction_vectors(run: &Run, stub: &Arc<EvmStub>) {
    let a = [rec::tx(6, 1, 6), rec::tx(6, 2, 6)];
    let b = rec::tx(9, 7, 9); // validly signed transaction of another owner
    let key = rec::tx_key(&a[0]);
    let vectors: Vec<(&str, Vec<Transaction>)> = vec![
        ("[own, foreign]", vec![a[0].clone(), b.clone()]),
        ("[foreign, own]", vec![b.clone(), a[0].clone()]),
        ("[own, own2, foreign]", vec![a[0].clone(), a[1].clone(), b.clone()]),
        ("[own, foreign, own2]", vec![a[0].clone(), b.clone(), a[1].clone()]),
        ("[foreign]", vec![b.clone()]),
    ];
    for held in [false, true] {
        for (name, v) in &vectors {
            let root = fresh_scratch("c04t");
            let mut rig = NodeRig::new(1, &root, stub.clone());
            if held {
                let (n, r) = (rig.node.clone(), rec::txs_record(key.clone(), &[a[1].clone()]));
                let _ = rig.run("prior", async move { n.store_replicated_in_record(r).await });
            }
            let (n, r) = (rig.node.clone(), rec::txs_record(key.clone(), v));
            let res = rig.run("repl", async move { n.store_replicated_in_record(r).await });
            let desc = json!({"replicated_transaction_vector": name, "key": "own", "own_key_already_held": held});
            run.case(desc.to_string().as_bytes(), true);
            if let Some(bytes) = rig.stored(&key) {
                let r = Record { key: key.clone(), value: bytes, publisher: None, expires: None };
                match try_deserialize_record::<Vec<Transaction>>(&r) {
                    Ok(ts) => {
                        if ts.iter().any(|t| rec::tx_key(t) != key) {
                            run.violation("stored-key-is-derived", "foreign-entry-in-vector", format!("{name}: a transaction of another owner is stored under this key (result {res:?})"), json!({"case": desc}));
                        }
                    }
                    Err(_) => run.violation("stored-key-is-derived", "undecodable", format!("{name}: stored bytes do not decode"), json!({"case": desc})),
                }
            }
            check_all_stored_keys_derived(run, &mut rig, &desc);
            drop(rig);
            let _ = std::fs::remove_dir_all(&root);
        }
    }
}


/// Chunk records whose body is well-formed MessagePack of *another shape* than the one the encoder writes — an
/// explicit address next to the content (sequence or map, either order), nesting, the content as a sequence of
/// integers — presented under the address they claim, on every path, paid for that address. Nothing may be stored
/// under a key its content does not hash to; the honest shape under its own hash is the control.
fn reshaped_chunk_bodies(run: &Run, stub: &Arc<EvmStub>) {
    use bytes::Bytes;
    use serde::Serialize;
    #[derive(Serialize)]
    struct AddrAndValue {
        address: ant_protocol::storage::ChunkAddress,
        value: Bytes,
    }
    let content = Bytes::from_static(b"content of the crafted chunk");
    let claimed = XorName::from_content(b"the address of some other chunk");
    let victim = ant_protocol::storage::ChunkAddress::new(claimed);
    let honest_key = RecordKey::new(&XorName::from_content(&content));
    let claimed_key = NetworkAddress::from_chunk_address(victim).to_record_key();
    let shapes: Vec<(&str, Vec<u8>)> = vec![
        ("honest: the content as one byte string", rmp_serde::to_vec(&content).unwrap()),
        ("(address, value) as a sequence", rmp_serde::to_vec(&(victim, content.clone())).unwrap()),
        ("(value, address) as a sequence", rmp_serde::to_vec(&(content.clone(), victim)).unwrap()),
        ("(address as a byte string, value)", rmp_serde::to_vec(&(Bytes::copy_from_slice(&claimed.0), content.clone())).unwrap()),
        ("{address, value} as a map", rmp_serde::to_vec_named(&AddrAndValue { address: victim, value: content.clone() }).unwrap()),
        ("[value] as a one-element sequence", rmp_serde::to_vec(&(content.clone(),)).unwrap()),
        ("[[value]] nested", rmp_serde::to_vec(&((content.clone(),),)).unwrap()),
        ("value as a sequence of integers", rmp_serde::to_vec(&content.to_vec()).unwrap()),
    ];
    let mut n = 0u64;
    for (si, (sname, body)) in shapes.iter().enumerate() {
        for path in [Path::PaidPut, Path::Replication, Path::KadInbound] {
            for (kname, key) in [("the claimed address", &claimed_key), ("the hash of the content", &honest_key)] {
                for claimed_held in [false, true] {
                    n += 1;
                    let root = fresh_scratch("c04s");
                    let mut rig = NodeRig::new(1, &root, stub.clone());
                    rig.add_peers(&[2, 3]);
                    stub.set(Chain::Paid);
                    if claimed_held {
                        // the claimed address is held by its legitimate chunk
                        let c = Chunk::new(Bytes::from_static(b"the address of some other chunk"));
                        let (nd, r) = (rig.node.clone(), rec::chunk_record(&c));
                        let _ = rig.run("prior", async move { nd.store_replicated_in_record(r).await });
                    }
                    let watch = vec![claimed_key.clone(), honest_key.clone()];
                    let before = snapshot(&mut rig, &watch);
                    let desc = json!({"chunk_body": sname, "path": format!("{path:?}"), "presented_under": kname, "claimed_address_already_held": claimed_held});
                    run.case(desc.to_string().as_bytes(), si != 0);
                    let now = SystemTime::now() - Duration::from_secs(30);
                    let addr = rec::xorname_of_key(key);
                    let proof = rec::proof(vec![(1, rec::quote(1, addr, now)), (2, rec::quote(2, addr, now)), (3, rec::quote(3, addr, now))]);
                    let value = match path {
                        Path::PaidPut => {
                            // (proof, chunk): the same pair the encoder writes, with the chunk part in the shape under test
                            let mut v = vec![0x91u8, 0x00, 0x92];
                            v.extend_from_slice(&rmp_serde::to_vec(&proof).unwrap());
                            v.extend_from_slice(body);
                            v
                        }
                        _ => [&[0x91u8, 0x01][..], body].concat(),
                    };
                    let record = Record { key: key.clone(), value, publisher: None, expires: None };
                    let result: Option<Result<(), String>> = match path {
                        Path::PaidPut => {
                            let nd = rig.node.clone();
                            rig.run("put", async move { nd.validate_and_store_record(record).await })
                        }
                        Path::Replication => {
                            let nd = rig.node.clone();
                            rig.run("repl", async move { nd.store_replicated_in_record(record).await })
                        }
                        _ => {
                            let d = &mut rig.d;
                            let driver = &mut d.driver;
                            let _ = d.exec.capture(None, "kad-put", || driver.verif_store().put(record));
                            rig.settle();
                            rig.d.drain_events();
                            let mut res = None;
                            while let Some(e) = rig.d.events.pop_front() {
                                if let NetworkEvent::UnverifiedRecord(rcd) = e {
                                    let nd = rig.node.clone();
                                    res = rig.run("validate", async move { nd.validate_and_store_record(rcd).await });
                                }
                            }
                            res.or(Some(Err("no validation event".into())))
                        }
                    };
                    let after = snapshot(&mut rig, &watch);
                    run.outcome(format!("shape:{:?}/{}", result.as_ref().map(|r| r.is_ok()), after != before).as_bytes());
                    let honest = si == 0 && *key == honest_key;
                    if honest {
                        if path != Path::KadInbound && rig.stored(&honest_key).is_none() {
                            run.violation("derived-key-accepted", &format!("{path:?}"), format!("the honest chunk under the hash of its content was not stored ({desc}): {result:?}"), json!({"case": desc}));
                        }
                    } else if *key == honest_key {
                        // another spelling of the same content under the hash of that content (a liberal decoder reads a
                        // sequence of integers as a byte string): whether it is taken is not the statement's business, what
                        // ends up stored is — judged by the re-derivation below
                    } else {
                        if after != before {
                            run.violation("mismatched-key-rejected", &format!("reshaped-body/{path:?}"), format!("a chunk record of another shape changed the store ({desc}): {before} -> {after}"), json!({"case": desc}));
                        }
                        if matches!(result, Some(Ok(()))) && path != Path::KadInbound && !(claimed_held && *key == claimed_key) {
                            run.violation("mismatched-key-rejected", "reshaped-body/returned-ok", format!("a chunk record of another shape was answered Ok ({desc})"), json!({"case": desc}));
                        }
                    }
                    check_all_stored_keys_derived(run, &mut rig, &desc);
                    drop(rig);
                    let _ = std::fs::remove_dir_all(&root);
                }
            }
        }
    }
    run.extra("reshaped_chunk_bodies", json!(n));
}

pub fn main(tier: Option<&str>) {
    let run = Run::new("C04", "model_checking", tier);
    run.rule(
        "kind 4 x path {paid put, unpaid update, replication, kad inbound} x key {derived, another object of the same kind, an object of \
         another kind, random, the derived key minus its last byte / plus one byte, the empty key} x {empty store, derived key already held, the presented foreign key already held by its legitimate record, a store full (capacity 2) of two unrelated chunks farther away than every key of the case}: each on a fresh real Node + SwarmDriver under the FIFO \
         schedule, the presented key paid for by an otherwise valid proof; after each case every record the store lists is re-derived \
         from its bytes. Plus 6 malformed inbound records and oversized ones (at the limit, one above, twice the limit) under the header of each of the 8 record kinds; chunk records whose body is well-formed MessagePack of 7 other shapes (an explicit address next to the content as sequence or map, nesting, integers) x path x {under the claimed address, under the hash of the content} x claimed address held or not; a stored chunk is re-derived by reading its MessagePack byte string by hand. Non-trivial = the key is not the derived one.",
    );
    run.assume("sequential check under the FIFO schedule; payment is valid for the key that is presented");
    let mut cases = vec![];
    for kind in KINDS {
        for path in [Path::PaidPut, Path::UnpaidUpdate, Path::Replication, Path::KadInbound] {
            for choice in [KeyChoice::Derived, KeyChoice::SameKindOther, KeyChoice::OtherKind, KeyChoice::Random, KeyChoice::Prefix31, KeyChoice::Extended33, KeyChoice::Empty] {
                for held in [Held::Nothing, Held::DerivedKey, Held::PresentedKey, Held::FullOfOthers] {
                    if held == Held::PresentedKey && legit_record_under(kind, choice).is_none() {
                        continue;
                    }
                    cases.push((kind, path, choice, held));
                }
            }
        }
    }
    let total = cases.len();
    let next = std::sync::atomic::AtomicUsize::new(0);
    std::thread::scope(|sc| {
        for _ in 0..mc_core::workers().min(12) {
            sc.spawn(|| {
                let stub = Arc::new(EvmStub::start());
                loop {
                    let i = next.fetch_add(1, std::sync::atomic::Ordering::Relaxed);
                    if i >= total {
                        break;
                    }
                    let (k, p, c, h) = cases[i];
                    run_case(&run, &stub, k, p, c, h);
                }
            });
        }
    });
    let stub = Arc::new(EvmStub::start());
    malformed_and_oversized(&run, &stub);
    mixed_transaction_vectors(&run, &stub);
    reshaped_chunk_bodies(&run, &stub);
    run.count("states", total as u64);
    run.count("transitions", total as u64);
    run.sample(json!({"kind":"Register","path":"UnpaidUpdate","key":"SameKindOther","already_held":"PresentedKey"}));
    run.finish();
}
