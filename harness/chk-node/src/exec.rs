//! Controlled executor: every future the code under test hands to `spawn` (through the
//! `verif-hooks` shim) and every harness-owned future becomes a task that runs only when the
//! harness polls it. tokio is present as context (channels, timers), never as scheduler.
use ant_networking::verif_hooks::{install_spawn_sink, remove_spawn_sink, take_spawned};
use std::future::Future;
use std::pin::Pin;
use std::sync::atomic::{AtomicBool, Ordering};
use std::sync::Arc;
use std::task::{Context, Poll, Wake, Waker};

struct Flag(AtomicBool);
impl Wake for Flag {
    fn wake(self: Arc<Self>) {
        self.0.store(true, Ordering::SeqCst);
    }
    fn wake_by_ref(self: &Arc<Self>) {
        self.0.store(true, Ordering::SeqCst);
    }
}

#[derive(Clone, Debug)]
pub struct TaskInfo {
    pub id: usize,
    /// file:line of the spawn call ("harness" for harness-owned futures)
    pub site: String,
    /// file::function enclosing the spawn call
    pub func: String,
    pub parent: Option<usize>,
    /// free label given by the rig (e.g. the key the task works on)
    pub tag: String,
    pub polls: u32,
}

struct Task {
    info: TaskInfo,
    fut: Option<Pin<Box<dyn Future<Output = ()> + Send + 'static>>>,
    flag: Arc<Flag>,
}

pub struct Exec {
    /// tasks the harness keeps from running for now (e.g. a disk write whose completion is held back)
    pub held: std::collections::BTreeSet<usize>,
    virtual_time: bool,
    // drop order: the captured futures go before the runtime they were created under
    tasks: Vec<Task>,
    rt: tokio::runtime::Runtime,
}

impl Drop for Exec {
    fn drop(&mut self) {
        if self.virtual_time {
            ant_networking::verif_hooks::remove_virtual_clock();
        }
    }
}

impl Exec {
    pub fn new(io: bool) -> Exec {
        let mut b = tokio::runtime::Builder::new_current_thread();
        if io {
            b.enable_all();
        } else {
            b.enable_time();
        }
        Exec { held: Default::default(), virtual_time: false, rt: b.build().expect("runtime"), tasks: vec![] }
    }

    /// An executor whose thread has the hook's virtual clock installed: every `target_arch::sleep` of the code under
    /// test ends only when the harness moves that clock (`advance`). The clock is removed when the executor is dropped.
    pub fn new_virtual_time() -> Exec {
        ant_networking::verif_hooks::install_virtual_clock();
        let mut e = Exec::new(false);
        e.virtual_time = true;
        e
    }

    /// Move the virtual clock forward by `d`; sleeps that end wake their tasks (which then become runnable).
    pub fn advance(&self, d: std::time::Duration) -> usize {
        ant_networking::verif_hooks::advance_virtual_clock(d)
    }

    pub fn runtime(&self) -> &tokio::runtime::Runtime {
        &self.rt
    }

    fn adopt(tasks: &mut Vec<Task>, parent: Option<usize>, tag: &str) -> Vec<usize> {
        let mut ids = vec![];
        for t in take_spawned() {
            let id = tasks.len();
            let func = crate::srcmap::enclosing_fn(&t.site);
            tasks.push(Task {
                info: TaskInfo { id, site: t.site, func, parent, tag: tag.to_string(), polls: 0 },
                fut: Some(t.fut),
                flag: Arc::new(Flag(AtomicBool::new(true))),
            });
            ids.push(id);
        }
        ids
    }

    /// Run `f` in the runtime context with the spawn sink installed; whatever it spawns becomes
    /// tasks (returned in spawn order) carrying `tag`.
    pub fn capture<R>(&mut self, parent: Option<usize>, tag: &str, f: impl FnOnce() -> R) -> (R, Vec<usize>) {
        let guard = self.rt.enter();
        install_spawn_sink();
        let r = f();
        let ids = Self::adopt(&mut self.tasks, parent, tag);
        let _ = remove_spawn_sink();
        drop(guard);
        (r, ids)
    }

    /// Add a harness-owned future.
    pub fn add(&mut self, tag: &str, fut: impl Future<Output = ()> + Send + 'static) -> usize {
        let id = self.tasks.len();
        self.tasks.push(Task {
            info: TaskInfo { id, site: "harness".into(), func: "harness".into(), parent: None, tag: tag.to_string(), polls: 0 },
            fut: Some(Box::pin(fut)),
            flag: Arc::new(Flag(AtomicBool::new(true))),
        });
        id
    }

    /// Poll task `id` once. Returns (finished, tasks spawned during the poll).
    pub fn poll(&mut self, id: usize) -> (bool, Vec<usize>) {
        let guard = self.rt.enter();
        install_spawn_sink();
        let flag = self.tasks[id].flag.clone();
        flag.0.store(false, Ordering::SeqCst);
        let waker = Waker::from(flag);
        let mut cx = Context::from_waker(&waker);
        let mut fut = self.tasks[id].fut.take().expect("polling a finished task");
        self.tasks[id].info.polls += 1;
        let done = matches!(fut.as_mut().poll(&mut cx), Poll::Ready(()));
        if !done {
            self.tasks[id].fut = Some(fut);
        }
        let tag = self.tasks[id].info.tag.clone();
        let kids = Self::adopt(&mut self.tasks, Some(id), &tag);
        let _ = remove_spawn_sink();
        drop(guard);
        (done, kids)
    }

    /// Poll until the task finishes or blocks (returns finished?).
    pub fn run_until_blocked(&mut self, id: usize) -> (bool, Vec<usize>) {
        let mut all = vec![];
        loop {
            let (done, kids) = self.poll(id);
            all.extend(kids);
            if done {
                return (true, all);
            }
            if !self.is_woken(id) {
                return (false, all);
            }
        }
    }

    pub fn is_done(&self, id: usize) -> bool {
        self.tasks[id].fut.is_none()
    }
    pub fn is_woken(&self, id: usize) -> bool {
        self.tasks[id].flag.0.load(Ordering::SeqCst)
    }
    /// Not finished and ready to make progress (never polled, or woken since the last poll).
    pub fn runnable(&self) -> Vec<usize> {
        self.tasks.iter().filter(|t| t.fut.is_some() && t.flag.0.load(Ordering::SeqCst) && !self.held.contains(&t.info.id)).map(|t| t.info.id).collect()
    }
    /// Not finished.
    pub fn unfinished(&self) -> Vec<usize> {
        self.tasks.iter().filter(|t| t.fut.is_some()).map(|t| t.info.id).collect()
    }
    pub fn info(&self, id: usize) -> &TaskInfo {
        &self.tasks[id].info
    }
    pub fn set_tag(&mut self, id: usize, tag: &str) {
        self.tasks[id].info.tag = tag.to_string();
    }
    pub fn task_count(&self) -> usize {
        self.tasks.len()
    }
    /// Let the runtime's timer/IO driver turn once (never runs captured tasks: they are not tokio's).
    pub fn turn_driver(&self) {
        self.rt.block_on(async { tokio::task::yield_now().await });
    }
}
