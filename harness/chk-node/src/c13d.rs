//! C13, driver layer: "a later quote from the same node that reports less uptime or fewer received payments than an
//! earlier one is flagged" — at the place where quotes of a peer actually meet: SwarmDriver::verify_peer_quote behind
//! LocalSwarmCmd::QuoteVerification. Every delivery order of every selection of <= 3(4) quotes with distinct
//! timestamps from a pool (age x live_time x payment count) is fed to a real driver, a fresh peer per sequence, and
//! the issue list of that peer is read after every delivery. Run as a subprocess of the C13 check (vcheck-pure).
use crate::driver_rig::DriverRig;
use ant_evm::PaymentQuote;
use ant_networking::verif_hooks::LocalSwarmCmd;
use libp2p::PeerId;
use mc_core::enumerate;
use mc_core::Run;
use serde_json::json;
use std::time::{Duration, SystemTime};
use xor_name::XorName;

#[derive(Clone, Copy, Debug, PartialEq)]
struct Q {
    age: u64,
    live: u64,
    pay: usize,
}

/// `b` reports less than `a` although it is dated later (or the other way round)
fn inconsistent(a: &Q, b: &Q) -> bool {
    let (earlier, later) = if a.age > b.age { (a, b) } else { (b, a) };
    later.live < earlier.live || later.pay < earlier.pay
}

/// One level above the driver: quotes reach a node as batches (`NetworkEvent::QuoteVerification`: the quotes a client
/// collected for one address, this node's own among them), and the node hands the driver only those it considers its
/// duty — same address, another peer, signed by the claimed peer, issued within 10 s of its own quote, on either side.
/// For a fresh peer per case: a reference batch and, two minutes later, a second batch; the peer's quote is dated
/// -8 .. +8 s around the node's own quote in each batch; the second quote reports less uptime, fewer payments, or more
/// of both. The peer must end up flagged exactly when its later quote reports less. Quotes dated outside the window
/// (12 s either side) are not the node's duty and must not lead to a flag.
fn node_layer(run: &Run) -> (u64, u64) {
    use ant_networking::NetworkEvent;
    let root = mc_core::scratch_root().join("c13-node-layer");
    let stub = std::sync::Arc::new(crate::evm_stub::EvmStub::start());
    let mut rig = crate::node_rig::NodeRig::new(1, &root, stub);
    let me = rig.d.peer_id();
    let content = XorName::from_content(b"c13 node layer");
    let now = SystemTime::now();
    let shift = |t: SystemTime, d: i64| if d >= 0 { t + Duration::from_secs(d as u64) } else { t - Duration::from_secs((-d) as u64) };
    let inside: [i64; 4] = [-8, -1, 1, 8];
    let later: [(u64, usize, bool, &str); 3] = [(200, 6, true, "less uptime"), (300, 5, true, "fewer payments"), (400, 7, false, "more of both")];
    let mut signer = 60u8;
    let (mut cases, mut deliveries) = (0u64, 0u64);
    let mut deliver = |rig: &mut crate::node_rig::NodeRig, own_ts: SystemTime, peer_signer: u8, d: i64, live: u64, pay: usize| {
        let own = rigs::records::quote_reporting(1, content, own_ts, 1000, 50);
        let theirs = rigs::records::quote_reporting(peer_signer, content, shift(own_ts, d), live, pay);
        let node = rig.node.clone();
        let ev = NetworkEvent::QuoteVerification { quotes: vec![(me, own), (rigs::fixtures::peer_id(peer_signer), theirs)] };
        let dr = &mut rig.d;
        let _ = dr.exec.capture(None, "node-event", || node.handle_network_event(ev));
        rig.d.settle();
    };
    let mut plans: Vec<(i64, i64, u64, usize, Option<bool>, String)> = vec![];
    for d1 in inside {
        for d2 in inside {
            for (live, pay, less, what) in later {
                plans.push((d1, d2, live, pay, Some(less), format!("reference dated {d1:+} s, later quote dated {d2:+} s around the node's own, reporting {what}")));
            }
        }
    }
    for d in [-12i64, 12] {
        // outside the window in the second batch: not this node's duty
        plans.push((1, d, 200, 5, None, format!("later quote dated {d:+} s from the node's own (outside its 10 s window), reporting less")));
    }
    for (d1, d2, live, pay, expect, what) in plans {
        signer += 1;
        cases += 1;
        let peer = rigs::fixtures::peer_id(signer);
        run.case(format!("node-layer:{what}").as_bytes(), true);
        deliver(&mut rig, now - Duration::from_secs(300), signer, d1, 300, 6);
        let after_first = rig.d.driver.verif_node_issues(&peer).0.len();
        deliver(&mut rig, now - Duration::from_secs(180), signer, d2, live, pay);
        deliveries += 2;
        let flagged = rig.d.driver.verif_node_issues(&peer).0.len() > after_first;
        let w = json!({"engine": "node layer", "case": what});
        if after_first > 0 {
            run.violation("consistent-quote-not-flagged", "node-layer/first-quote", format!("{what}: the peer was flagged on its first quote"), w.clone());
        }
        match expect {
            Some(true) if !flagged => run.violation("inconsistent-history-flagged", "node-layer/not-flagged", format!("{what}: both quotes were this node's duty, the later one reports less, the peer was not flagged"), w),
            Some(false) | None if flagged => run.violation("consistent-quote-not-flagged", "node-layer/flagged", format!("{what}: the peer was flagged"), w),
            _ => {}
        }
        run.outcome(format!("node-layer:{expect:?}:{flagged}").as_bytes());
    }
    drop(rig);
    let _ = std::fs::remove_dir_all(&root);
    (cases, deliveries)
}

pub fn main(tier: Option<&str>) {
    let run = Run::new("C13-driver", "model_checking", tier);
    // ages on both sides of the one-hour validity window: a reference quote does not stop being "an earlier one" by expiring
    let ages: Vec<u64> = if run.quick() { vec![7300, 300, 200, 100] } else { vec![90_000, 7300, 400, 300, 200, 100] };
    let lives = [200u64, 250, 300];
    let pays = [5usize, 6];
    let maxlen = run.pick(3, 4);
    let mut pool: Vec<Q> = vec![];
    for a in &ages {
        for l in lives {
            for p in pays {
                pool.push(Q { age: *a, live: l, pay: p });
            }
        }
    }
    let now = SystemTime::now();
    let mk = |q: &Q| -> PaymentQuote {
        let mut pq = rigs::records::quote(1, XorName::from_content(b"c13 driver"), now - Duration::from_secs(q.age));
        pq.quoting_metrics.live_time = q.live;
        pq.quoting_metrics.received_payment_count = q.pay;
        pq
    };
    let mut rig = DriverRig::new_client(7);
    let mut seq_no: u64 = 0;
    let mut executions = 0u64;
    // every selection of distinct ages (subset of the age list, in every order) x every metrics assignment
    for mask in enumerate::subsets(ages.len(), 1, maxlen) {
        let chosen: Vec<usize> = (0..ages.len()).filter(|i| mask & (1 << i) != 0).collect();
        enumerate::permutations(chosen.len(), |perm| {
            let order: Vec<u64> = perm.iter().map(|i| ages[chosen[*i]]).collect();
            let dims: Vec<usize> = order.iter().map(|_| lives.len() * pays.len()).collect();
            enumerate::product(&dims, |ix| {
                let seq: Vec<Q> = order.iter().zip(ix.iter()).map(|(a, m)| Q { age: *a, live: lives[m / pays.len()], pay: pays[m % pays.len()] }).collect();
                seq_no += 1;
                let mut seed = [0u8; 32];
                seed[..8].copy_from_slice(&seq_no.to_be_bytes());
                seed[31] = 0xc1;
                let peer = PeerId::from(libp2p::identity::Keypair::ed25519_from_bytes(seed).expect("seed").public());
                let desc = json!({"quotes_in_delivery_order": seq.iter().map(|q| format!("{}s ago, live_time {}, payments {}", q.age, q.live, q.pay)).collect::<Vec<_>>()});
                run.case(desc.to_string().as_bytes(), seq.len() > 1);
                if seq_no <= 2 || (seq.len() == 3 && seq_no % 997 == 0) {
                    run.sample(desc.clone());
                }
                let mut unflagged: Vec<Q> = vec![];
                let mut all: Vec<Q> = vec![];
                for (k, q) in seq.iter().enumerate() {
                    let before = rig.driver.verif_node_issues(&peer).0.len();
                    let _ = rig.handle_local(LocalSwarmCmd::QuoteVerification { quotes: vec![(peer, mk(q))] });
                    executions += 1;
                    let issues = rig.driver.verif_node_issues(&peer).0;
                    let flagged = issues.len() > before;
                    if flagged && !issues.iter().all(|i| i.contains("BadQuoting")) {
                        run.violation("flag-kind", "other-issue", format!("issues {issues:?}"), desc.clone());
                    }
                    let newest = unflagged.iter().min_by_key(|p| p.age).cloned();
                    let must = newest.map(|n| inconsistent(&n, q)).unwrap_or(false);
                    let any = all.iter().any(|p| inconsistent(p, q));
                    run.outcome(format!("{must}/{any}/{flagged}").as_bytes());
                    let w = json!({"case": desc, "step": k, "delivered": format!("{q:?}"), "flagged": flagged});
                    if must && !flagged {
                        run.violation(
                            "inconsistent-history-flagged",
                            "inconsistent-with-the-newest-quote-seen",
                            format!("quote {k} ({q:?}) reports less than the newest quote seen so far ({:?}) although dated later (or the reverse), and was not flagged", newest.unwrap()),
                            w,
                        );
                    } else if !any && flagged {
                        run.violation("consistent-quote-not-flagged", "flagged", format!("quote {k} ({q:?}) is consistent with every quote delivered before it, yet the peer was flagged"), w);
                    } else if any && !must && !flagged {
                        run.violation(
                            "inconsistent-history-flagged",
                            "inconsistent-only-with-an-older-quote-than-the-newest",
                            format!("quote {k} ({q:?}) is inconsistent with an earlier delivered quote that is not the newest one seen ({all:?}); only the newest quote is remembered, so it was not flagged"),
                            w,
                        );
                    }
                    all.push(*q);
                    if flagged {
                        break; // a second issue within 10 s is not recorded: later steps cannot be observed
                    }
                    unflagged.push(*q);
                }
            });
        });
    }
    let (node_cases, node_deliveries) = node_layer(&run);
    seq_no += node_cases;
    executions += node_deliveries;
    run.count("states", seq_no);
    run.count("transitions", executions);
    let violations = run.dump_violations();
    println!("C13D-SUMMARY {}", json!({"sequences": seq_no, "deliveries": executions, "pool": pool.len(), "max_len": maxlen, "violations": violations}));
    mc_core::remove_scratch_root();
    std::process::exit(if violations.is_empty() { 0 } else { 1 });
}
