//! C15 — client reads are authenticated against the requested address.
//! The harness is the network below a real `Client` (it answers `GetNetworkRecord`), so it can return
//! whatever an adversarial or faulty set of holders could make a read return: another chunk, another
//! kind, garbage, an error, or — for a vault — any subset of authentic, unsigned, forged and foreign
//! scratchpads, as one agreed record or as a split result in every iteration order of the result map.
use crate::client_rig::ClientRig;
use ant_networking::GetRecordError;
use ant_protocol::storage::{try_serialize_record, Chunk, RecordKind, Scratchpad};
use ant_protocol::NetworkAddress;
use autonomi::client::data::DataMapChunk;
use bytes::Bytes;
use libp2p::kad::{Record, RecordKey};
use libp2p::PeerId;
use mc_core::enumerate::{permutations, subsets};
use mc_core::sched::explore_seq;
use mc_core::Run;
use rigs::fixtures::{bls_sk, peer_id, ScratchpadMirror};
use rigs::records::{chunk, chunk_key, chunk_record, pad_record, record};
use serde_json::json;
use std::collections::{HashMap, HashSet};
use xor_name::XorName;

fn short(s: String) -> String {
    s.chars().take(240).collect()
}

// ---------------------------------------------------------------------------------------------
// chunks

#[derive(Clone)]
struct Reply {
    name: &'static str,
    reply: Result<Record, GetRecordError>,
    /// the honest answer: the read must succeed with it
    honest: bool,
}

fn split_of(recs: &[Record]) -> GetRecordError {
    let mut result_map = HashMap::new();
    for (i, r) in recs.iter().enumerate() {
        let mut holders = HashSet::new();
        holders.insert(peer_id(60 + i as u8));
        result_map.insert(XorName::from_content(&r.value), (r.clone(), holders));
    }
    GetRecordError::SplitRecord { result_map }
}

fn chunk_replies(target: &Chunk, other: &Chunk) -> Vec<Reply> {
    let key = chunk_key(target);
    let right = chunk_record(target);
    let other_under_key = record(key.clone(), try_serialize_record(other, RecordKind::Chunk).unwrap());
    let mut tampered_bytes = target.value().to_vec();
    tampered_bytes[0] ^= 1;
    let tampered = record(key.clone(), try_serialize_record(&chunk(&tampered_bytes), RecordKind::Chunk).unwrap());
    let mut truncated_bytes = target.value().to_vec();
    truncated_bytes.pop();
    let truncated = record(key.clone(), try_serialize_record(&chunk(&truncated_bytes), RecordKind::Chunk).unwrap());
    let pad = rigs::records::pad(1, 1, b"pad", 1);
    let as_pad_kind = record(key.clone(), try_serialize_record(&pad, RecordKind::Scratchpad).unwrap());
    // the right bytes but labelled as another kind
    let mislabelled = record(key.clone(), try_serialize_record(target, RecordKind::Scratchpad).unwrap());
    let header_only = record(key.clone(), Bytes::copy_from_slice(&right.value[..right.value.len().min(RecordHeaderLen::LEN)]));
    let garbage = record(key.clone(), Bytes::from_static(&[0xff, 0x00, 0x13, 0x37, 0xc1]));
    let empty = record(key.clone(), Bytes::new());
    vec![
        Reply { name: "the stored chunk", reply: Ok(right.clone()), honest: true },
        Reply { name: "another valid chunk under the requested key", reply: Ok(other_under_key.clone()), honest: false },
        Reply { name: "another valid chunk under its own key", reply: Ok(chunk_record(other)), honest: false },
        Reply { name: "the chunk with one bit flipped", reply: Ok(tampered), honest: false },
        Reply { name: "the chunk with its last byte removed", reply: Ok(truncated), honest: false },
        Reply { name: "a scratchpad record", reply: Ok(as_pad_kind), honest: false },
        Reply { name: "the chunk labelled as a scratchpad", reply: Ok(mislabelled), honest: false },
        Reply { name: "a header without body", reply: Ok(header_only), honest: false },
        Reply { name: "garbage", reply: Ok(garbage), honest: false },
        Reply { name: "an empty record", reply: Ok(empty), honest: false },
        Reply { name: "not found", reply: Err(GetRecordError::RecordNotFound), honest: false },
        Reply { name: "timeout", reply: Err(GetRecordError::QueryTimeout), honest: false },
        Reply { name: "not enough copies (of another chunk)", reply: Err(GetRecordError::NotEnoughCopies { record: other_under_key.clone(), expected: 3, got: 1 }), honest: false },
        Reply { name: "not enough copies (two holders agreeing on another chunk)", reply: Err(GetRecordError::NotEnoughCopies { record: other_under_key.clone(), expected: 3, got: 2 }), honest: false },
        Reply { name: "does not match (another chunk)", reply: Err(GetRecordError::RecordDoesNotMatch(other_under_key.clone())), honest: false },
        Reply { name: "split between the chunk and another", reply: Err(split_of(&[right, other_under_key])), honest: false },
    ]
}

struct RecordHeaderLen;
impl RecordHeaderLen {
    const LEN: usize = 2;
}

fn chunk_reads(run: &Run) {
    let payloads: Vec<Vec<u8>> = vec![b"a".to_vec(), b"target chunk".to_vec(), vec![0u8; 64], (0..=255u8).collect(), vec![7u8; 4096]];
    let mut execs = 0u64;
    for (ti, tp) in payloads.iter().enumerate() {
        for (oi, op) in payloads.iter().enumerate() {
            if ti == oi {
                continue;
            }
            let (target, other) = (chunk(tp), chunk(op));
            let addr = *target.name();
            for rep in chunk_replies(&target, &other) {
                let desc = json!({"read": "chunk_get", "requested": format!("chunk of {} bytes", tp.len()), "reply": rep.name, "other": format!("chunk of {} bytes", op.len())});
                run.case(desc.to_string().as_bytes(), true);
                if execs < 2 {
                    run.sample(desc.clone());
                }
                let mut rig = ClientRig::new();
                let client = rig.client.clone();
                let reply = rep.reply.clone();
                let res = rig.drive(async move { client.chunk_get(addr).await.map_err(|e| format!("{e:?}")) }, |_p| (0, reply.clone()));
                execs += 1;
                run.outcome(format!("chunk:{}:{}", rep.name, matches!(res, Some(Ok(_)))).as_bytes());
                match res {
                    None => run.violation("read-completes", "chunk-read-blocked", format!("chunk_get never returned when the holders answered with {}", rep.name), desc),
                    Some(Ok(c)) => {
                        if XorName::from_content(c.value()) != addr || *c.name() != addr {
                            run.violation(
                                "content-hashes-to-address",
                                "chunk-get-substituted",
                                format!("chunk_get({}) returned {} bytes that do not hash to the requested address when the holders answered with {}", mc_core::hex8(&addr.0), c.value().len(), rep.name),
                                desc,
                            );
                        }
                    }
                    Some(Err(e)) => {
                        if rep.honest {
                            run.violation("honest-read-succeeds", "chunk-get-honest", short(format!("chunk_get failed with {e} although the holders returned the stored chunk")), desc);
                        }
                    }
                }
            }
        }
    }
    // each execution is one environment state (a reply set in one order) and one step of the real read
    run.count("schedules", execs);
    run.count("states", execs);
    run.count("transitions", execs);
}

// ---------------------------------------------------------------------------------------------
// data behind a data map: one fetched chunk replaced

fn file_bytes(len: usize, seed: u8) -> Bytes {
    Bytes::from((0..len).map(|i| (i as u8).wrapping_mul(31).wrapping_add(seed)).collect::<Vec<u8>>())
}

fn data_reads(run: &Run) {
    let mut execs = 0u64;
    let mut tree = 0u64;
    // files whose chunks are all different, and files in which chunks repeat (uniform content: every position of the
    // data map names the same chunk; zeros around other content: the first and the last do not, the data differs)
    let mut files: Vec<(usize, Bytes)> = [3usize, 10, 100, 4096].iter().map(|l| (*l, file_bytes(*l, 1))).collect();
    files.push((30, Bytes::from(vec![0u8; 30])));
    files.push((3000, Bytes::from(vec![0x41u8; 3000])));
    files.push((3001, Bytes::from([vec![0u8; 1000], file_bytes(1001, 7).to_vec(), vec![0u8; 1000]].concat())));
    for (len, data) in files {
        let decoy = file_bytes(len, 2);
        let (dm, chunks) = autonomi::self_encryption::encrypt(data.clone()).expect("encrypt");
        let (ddm, dchunks) = autonomi::self_encryption::encrypt(decoy.clone()).expect("encrypt");
        let mut store: HashMap<RecordKey, Record> = HashMap::new();
        for c in chunks.iter().chain(std::iter::once(&dm)) {
            store.insert(chunk_key(c), chunk_record(c));
        }
        // fetch targets: the data-map chunk (public read only) then the content chunks
        let mut targets: Vec<(String, Chunk, Chunk)> = vec![("data-map chunk".to_string(), dm.clone(), ddm.clone())];
        for (i, c) in chunks.iter().enumerate() {
            targets.push((format!("content chunk {i}"), c.clone(), dchunks[i].clone()));
        }
        for public in [true, false] {
            for (ti, (tname, tchunk, decoy_chunk)) in targets.iter().enumerate() {
                if !public && ti == 0 {
                    continue;
                }
                let tkey = chunk_key(tchunk);
                let mut subs: Vec<(&'static str, Record)> = vec![];
                subs.push(("the same position of another file", record(tkey.clone(), try_serialize_record(decoy_chunk, RecordKind::Chunk).unwrap())));
                let mut flipped = tchunk.value().to_vec();
                let last = flipped.len() - 1;
                flipped[last] ^= 0x80;
                subs.push(("one bit flipped", record(tkey.clone(), try_serialize_record(&chunk(&flipped), RecordKind::Chunk).unwrap())));
                let sibling = &chunks[(ti + 1) % chunks.len()];
                if chunk_key(sibling) != tkey {
                    subs.push(("another chunk of the same file", record(tkey.clone(), try_serialize_record(sibling, RecordKind::Chunk).unwrap())));
                }
                if ti == 0 {
                    subs.push(("a content chunk in place of the data map", record(tkey.clone(), try_serialize_record(&chunks[0], RecordKind::Chunk).unwrap())));
                }
                for (sname, srec) in subs {
                    let desc = json!({"read": if public { "data_get_public" } else { "data_get" }, "len": len, "replaced": tname, "with": sname});
                    run.case(desc.to_string().as_bytes(), true);
                    // every completion order of the concurrently pending chunk fetches
                    let (n, _, nodes) = explore_seq(usize::MAX / 2, |ch| {
                        let mut rig = ClientRig::new();
                        let client = rig.client.clone();
                        let (addr, dmc) = (*dm.name(), DataMapChunk::from(dm.clone()));
                        let res = rig.drive(
                            async move {
                                if public {
                                    client.data_get_public(addr).await.map_err(|e| format!("{e:?}"))
                                } else {
                                    client.data_get(dmc).await.map_err(|e| format!("{e:?}"))
                                }
                            },
                            |pending| {
                                let i = if pending.len() == 1 { 0 } else { ch.choose(pending.len(), "answer") };
                                let k = &pending[i].key;
                                let reply = if *k == tkey { Ok(srec.clone()) } else { store.get(k).cloned().ok_or(GetRecordError::RecordNotFound) };
                                (i, reply)
                            },
                        );
                        run.outcome(format!("data:{sname}:{}", matches!(res, Some(Ok(_)))).as_bytes());
                        match res {
                            None => run.violation("read-completes", "data-read-blocked", format!("the read never returned ({desc})"), desc.clone()),
                            Some(Ok(b)) if b != data => run.violation(
                                "content-hashes-to-address",
                                "data-get-substituted",
                                format!("{} of a {len}-byte file returned {} bytes that are not the stored data when a holder replaced the {tname} with {sname}", if public { "data_get_public" } else { "data_get" }, b.len()),
                                json!({"case": desc, "answer_order": ch.choices()}),
                            ),
                            _ => {}
                        }
                    });
                    execs += n;
                    tree += nodes;
                    if execs <= 8 {
                        run.sample(desc.clone());
                    }
                }
            }
            // honest read must succeed
            let mut rig = ClientRig::new();
            let client = rig.client.clone();
            let (addr, dmc) = (*dm.name(), DataMapChunk::from(dm.clone()));
            let res = rig.drive(
                async move {
                    if public {
                        client.data_get_public(addr).await.map_err(|e| format!("{e:?}"))
                    } else {
                        client.data_get(dmc).await.map_err(|e| format!("{e:?}"))
                    }
                },
                |pending| (0, store.get(&pending[0].key).cloned().ok_or(GetRecordError::RecordNotFound)),
            );
            execs += 1;
            if !matches!(&res, Some(Ok(b)) if *b == data) {
                run.violation("honest-read-succeeds", "data-get-honest", short(format!("an honest read of a {len}-byte file failed: {res:?}")), json!({"len": len, "public": public}));
            }
            // what the client returns for a content address hashes to that address: encrypting the returned bytes again
            // must lead to the address that was asked for (judged without reference to the bytes that were uploaded)
            if let Some(Ok(b)) = &res {
                let back = autonomi::self_encryption::encrypt(b.clone()).ok().map(|(m, _)| *m.name());
                if back != Some(*dm.name()) {
                    run.violation(
                        "content-hashes-to-address",
                        "data-get-honest-holders",
                        format!("{} returned {} bytes which do not encrypt back to the requested address (a {len}-byte file whose chunks {} all served honestly)", if public { "data_get_public" } else { "data_get" }, b.len(), if chunks.iter().map(chunk_key).collect::<HashSet<_>>().len() < chunks.len() { "repeat," } else { "are all different," }),
                        json!({"len": len, "public": public}),
                    );
                }
            }
        }
    }
    run.count("schedules", execs);
    run.count("states", tree);
    run.count("transitions", execs + tree);
}

// ---------------------------------------------------------------------------------------------
// vaults

const OWNER: u8 = 1;
const ATTACKER: u8 = 2;

#[derive(Clone)]
struct Version {
    name: &'static str,
    record: Record,
    /// Some((counter, plaintext)) when the version is a scratchpad owned by the requested key and validly signed by it
    authentic: Option<(u64, &'static [u8])>,
    /// decodable as a scratchpad record (unsigned / forged / foreign versions are; garbage and other kinds are not)
    is_pad: bool,
    plaintext: &'static [u8],
}

/// Encryption to the owner's public key with a fixed random stream: the fixtures (and with them every verdict of this
/// check) are the same in every run.
fn sealed_with(plaintext: &[u8], seed: u64) -> Vec<u8> {
    use bls::rand::SeedableRng;
    let mut rng = bls::rand::rngs::StdRng::seed_from_u64(seed);
    bls_sk(OWNER).public_key().encrypt_with_rng(&mut rng, plaintext).to_bytes()
}

fn sealed(plaintext: &[u8]) -> Vec<u8> {
    sealed_with(plaintext, 0xc15)
}

/// A ciphertext of `plaintext` that sorts *below* `above` byte-wise (the seed is searched, deterministically).
fn sealed_below(plaintext: &[u8], above: &[u8]) -> Vec<u8> {
    for seed in 1..10_000u64 {
        let c = sealed_with(plaintext, seed);
        if c.as_slice() < above {
            return c;
        }
    }
    panic!("no seed gives a smaller ciphertext");
}

fn versions() -> Vec<Version> {
    let owner_pk = bls_sk(OWNER).public_key();
    let key = NetworkAddress::from_scratchpad_address(ant_protocol::storage::ScratchpadAddress::new(owner_pk)).to_record_key();
    let under_key = |p: &Scratchpad| record(key.clone(), try_serialize_record(p, RecordKind::Scratchpad).unwrap());
    // the ciphertexts of the authentic versions sort in the *reverse* order of their counters, so that picking "the
    // latest" by anything but the counter (a derived ordering of the whole struct, say) picks the wrong one
    let with_ct = |c: u64, ct: &[u8]| ScratchpadMirror::build(owner_pk, c, ct, Some(&bls_sk(OWNER)));
    let ct1 = sealed(b"one");
    let ct2 = sealed_below(b"two", &ct1);
    let ct3 = sealed_below(b"three", &ct2);
    let v1 = with_ct(1, &ct1);
    let v2 = with_ct(2, &ct2);
    let v2b = with_ct(2, &sealed_with(b"two-b", 77));
    let v3 = with_ct(3, &ct3);
    // the owner's own old ciphertext, counter raised, no signature
    let m1 = ScratchpadMirror::from_real(&v1);
    let unsigned9 = ScratchpadMirror { counter: 9, signature: None, ..clone_mirror(&m1) }.into_real();
    // the old ciphertext and its old signature, counter raised
    let replay9 = ScratchpadMirror { counter: 9, ..clone_mirror(&m1) }.into_real();
    // anyone can encrypt to the owner's public key: attacker-chosen content, attacker's signature, owner's address
    let forged9 = ScratchpadMirror::build(owner_pk, 9, &sealed(b"evil"), Some(&bls_sk(ATTACKER)));
    // a scratchpad that is valid for the attacker's own key, returned under the requested key
    let foreign9 = ScratchpadMirror::build(bls_sk(ATTACKER).public_key(), 9, &sealed(b"evil-foreign"), Some(&bls_sk(ATTACKER)));
    // forgeries that *tie* with an authentic counter, and records whose header names another kind (the network layer
    // gives up on a split whose first record is of another kind, which hands the raw split to the client)
    let forged2 = ScratchpadMirror::build(owner_pk, 2, &sealed(b"evil-2"), Some(&bls_sk(ATTACKER)));
    let m3 = ScratchpadMirror::from_real(&v3);
    let unsigned3 = ScratchpadMirror { signature: None, encrypted_data: Bytes::from(sealed(b"evil-3")), ..clone_mirror(&m3) }.into_real();
    let as_chunk_kind = |p: &Scratchpad| record(key.clone(), try_serialize_record(p, RecordKind::Chunk).unwrap());
    let mut out = vec![
        Version { name: "v1", record: under_key(&v1), authentic: Some((1, b"one")), is_pad: true, plaintext: b"one" },
        Version { name: "v2", record: under_key(&v2), authentic: Some((2, b"two")), is_pad: true, plaintext: b"two" },
        Version { name: "v3", record: under_key(&v3), authentic: Some((3, b"three")), is_pad: true, plaintext: b"three" },
        Version { name: "v2-fork", record: under_key(&v2b), authentic: Some((2, b"two-b")), is_pad: true, plaintext: b"two-b" },
        Version { name: "unsigned-9 (old ciphertext)", record: under_key(&unsigned9), authentic: None, is_pad: true, plaintext: b"one" },
        Version { name: "replayed-signature-9", record: under_key(&replay9), authentic: None, is_pad: true, plaintext: b"one" },
        Version { name: "forged-9 (signed by another key)", record: under_key(&forged9), authentic: None, is_pad: true, plaintext: b"evil" },
        Version { name: "foreign-9 (another owner's valid pad)", record: under_key(&foreign9), authentic: None, is_pad: true, plaintext: b"evil-foreign" },
        Version { name: "forged-2 (ties with v2)", record: under_key(&forged2), authentic: None, is_pad: true, plaintext: b"evil-2" },
        Version { name: "forged-2 under a chunk header", record: as_chunk_kind(&forged2), authentic: None, is_pad: false, plaintext: b"evil-2" },
        Version { name: "unsigned-3 under a chunk header", record: as_chunk_kind(&unsigned3), authentic: None, is_pad: false, plaintext: b"evil-3" },
        Version { name: "v3 under a chunk header", record: as_chunk_kind(&v3), authentic: Some((3, b"three")), is_pad: false, plaintext: b"three" },
        Version { name: "garbage", record: record(key.clone(), Bytes::from_static(&[0xff, 0x00, 0x13, 0x37])), authentic: None, is_pad: false, plaintext: b"" },
        Version { name: "a chunk record", record: record(key.clone(), try_serialize_record(&chunk(b"not a pad"), RecordKind::Chunk).unwrap()), authentic: None, is_pad: false, plaintext: b"" },
    ];
    // sanity of the fixtures, computed independently of the code under test (BLS verification of the signing bytes)
    for v in out.iter_mut() {
        if v.is_pad || v.name.ends_with("chunk header") {
            let p: Scratchpad = ant_protocol::storage::try_deserialize_record(&v.record).expect("fixture decodes");
            let m = ScratchpadMirror::from_real(&p);
            let signed_by_owner = m.signature.as_ref().map(|sig| owner_pk.verify(sig, ScratchpadMirror::signing_bytes(m.counter, &m.encrypted_data))).unwrap_or(false);
            let really = signed_by_owner && m.address == ant_protocol::storage::ScratchpadAddress::new(owner_pk);
            assert_eq!(really, v.authentic.is_some(), "fixture {} authenticity", v.name);
        }
    }
    out
}

/// `Scratchpad::is_valid()` itself, on every fixture, in the order they are listed and then again in reverse (a verdict
/// must not depend on what was validated before): it must agree with the independent BLS verification.
fn validity_of_fixtures(run: &Run, vs: &[Version]) {
    let owner_pk = bls_sk(OWNER).public_key();
    let order: Vec<usize> = (0..vs.len()).chain((0..vs.len()).rev()).collect();
    for (pass, i) in order.into_iter().enumerate() {
        let v = &vs[i];
        if !(v.is_pad || v.name.ends_with("chunk header")) {
            continue;
        }
        let p: Scratchpad = ant_protocol::storage::try_deserialize_record(&v.record).expect("fixture decodes");
        let m = ScratchpadMirror::from_real(&p);
        // valid = signed by the key the pad itself names as owner (a foreign pad is valid for its own owner)
        let want = m.signature.as_ref().map(|sig| p.owner().verify(sig, ScratchpadMirror::signing_bytes(m.counter, &m.encrypted_data))).unwrap_or(false);
        let got = p.is_valid();
        run.case(format!("is_valid:{}:{}", v.name, pass).as_bytes(), true);
        if got != want {
            run.violation(
                "scratchpad-validity",
                if got { "invalid-pad-reported-valid" } else { "valid-pad-reported-invalid" },
                format!("Scratchpad::is_valid() = {got} for the version '{}' (owner key verifies the signature over counter and content hash: {want}), evaluation {pass} in this process", v.name),
                json!({"version": v.name, "evaluation": pass}),
            );
        }
        let _ = owner_pk;
    }
}

fn clone_mirror(m: &ScratchpadMirror) -> ScratchpadMirror {
    ScratchpadMirror { address: m.address, data_encoding: m.data_encoding, encrypted_data: m.encrypted_data.clone(), counter: m.counter, signature: m.signature.clone() }
}

fn result_map_in_order(order: &[&Version], run: &Run) -> HashMap<XorName, (Record, HashSet<PeerId>)> {
    let recs: Vec<Record> = order.iter().map(|v| v.record.clone()).collect();
    match crate::client_rig::result_map_in_order(&recs) {
        Some(m) => m,
        None => run.machinery_error("could not build a result map with the wanted iteration order"),
    }
}

fn judge_vault(run: &Run, delivered: &[&Version], how: &str, res: Option<Result<(Bytes, u64), String>>) {
    let names: Vec<&str> = delivered.iter().map(|v| v.name).collect();
    let desc = json!({"read": "fetch_and_decrypt_vault", "delivery": how, "versions": names});
    if how == "split" && delivered.len() == 3 && delivered[0].name == "v1" {
        run.sample(desc.clone());
    }
    // a validly signed pad under another kind's header is not a *version* the reader has to find (the network layer
    // rightly treats it as a record of that other kind), but its content is authentic, so returning it is no violation
    let best = delivered.iter().filter(|v| v.is_pad).filter_map(|v| v.authentic).map(|(c, _)| c).max();
    let only_pads = delivered.iter().all(|v| v.is_pad);
    run.outcome(format!("vault:{how}:{names:?}:{}", matches!(res, Some(Ok(_)))).as_bytes());
    match res {
        None => run.violation("read-completes", "vault-read-blocked", format!("the vault read never returned ({desc})"), desc),
        Some(Ok((bytes, _enc))) => {
            let from_authentic: Vec<u64> = delivered.iter().filter_map(|v| v.authentic).filter(|(_, pt)| *pt == &bytes[..]).map(|(c, _)| c).collect();
            if from_authentic.is_empty() {
                let src = delivered.iter().find(|v| v.plaintext == &bytes[..]).map(|v| v.name).unwrap_or("?");
                let trig = if how == "agreed" { "vault-unauthenticated-agreed" } else if best.is_some() { "vault-unauthenticated-over-authentic" } else { "vault-unauthenticated-split" };
                run.violation(
                    "vault-authentic",
                    trig,
                    format!("the vault read returned {:?}, the content of the version '{src}', which is not validly signed by the requested owner key (delivered {how}: {names:?})", String::from_utf8_lossy(&bytes)),
                    desc,
                );
            } else if best.map(|b| from_authentic.iter().all(|c| *c < b)).unwrap_or(false) {
                run.violation(
                    "vault-highest-counter",
                    "vault-lower-counter-returned",
                    format!("the vault read returned version {} while the authentic version {} was among those received (delivered {how}: {names:?})", from_authentic[0], best.unwrap()),
                    desc,
                );
            }
        }
        Some(Err(e)) => {
            // unsigned and foreign versions are discarded: with an authentic version received and nothing but
            // scratchpads in the reply set, the read returns the authentic one. (An undecodable or wrong-kind
            // record in the set may fail the read: the statement does not say those are discarded.)
            if best.is_some() && only_pads {
                run.violation(
                    "vault-discards-unauthentic",
                    if how == "agreed" { "vault-authentic-agreed-refused" } else { "vault-authentic-masked" },
                    short(format!("the vault read failed with {e} although an authentic version was received and every other version was an unsigned, forged or foreign scratchpad (delivered {how}: {names:?})")),
                    desc,
                );
            }
        }
    }
}

fn vault_reads(run: &Run) {
    let vs = versions();
    validity_of_fixtures(run, &vs);
    let mut execs = 0u64;
    let read = |reply: Result<Record, GetRecordError>| -> Option<Result<(Bytes, u64), String>> {
        let mut rig = ClientRig::new();
        let client = rig.client.clone();
        let sk = bls_sk(OWNER);
        rig.drive(async move { client.fetch_and_decrypt_vault(&sk).await.map_err(|e| format!("{e:?}")) }, |_p| (0, reply.clone()))
    };
    // one agreed record
    for v in &vs {
        run.case(format!("vault agreed {}", v.name).as_bytes(), true);
        let res = read(Ok(v.record.clone()));
        execs += 1;
        judge_vault(run, &[v], "agreed", res);
    }
    // nothing / errors
    for (name, e) in [("not found", GetRecordError::RecordNotFound), ("timeout", GetRecordError::QueryTimeout)] {
        run.case(format!("vault {name}").as_bytes(), true);
        let res = read(Err(e));
        execs += 1;
        if !matches!(res, Some(Err(_))) {
            run.violation("vault-authentic", "vault-from-nothing", format!("the vault read returned {res:?} when the network answered {name}"), json!({"delivery": name}));
        }
    }
    // not-enough-copies carrying an unauthenticated version
    for v in &vs {
        // every shortfall: 1 or 2 holders agreeing where 3 were wanted, 1..4 where 5 were (agreement among a minority is not authentication)
        for (expected, got) in [(3usize, 1usize), (3, 2), (5, 1), (5, 2), (5, 3), (5, 4)] {
            run.case(format!("vault not-enough-copies {} {got}/{expected}", v.name).as_bytes(), true);
            let res = read(Err(GetRecordError::NotEnoughCopies { record: v.record.clone(), expected, got }));
            execs += 1;
            if let Some(Ok((b, _))) = &res {
                if v.authentic.map(|(_, pt)| pt != &b[..]).unwrap_or(true) {
                    run.violation("vault-authentic", "vault-unauthenticated-not-enough-copies", format!("the vault read returned {:?} from a not-enough-copies answer ({got} of {expected} holders) carrying '{}'", String::from_utf8_lossy(b), v.name), json!({"delivery": "not-enough-copies", "version": v.name, "expected": expected, "got": got}));
                }
            }
        }
    }
    // split results: every subset of 2..=k versions, in every iteration order of the result map
    let kmax = run.pick(3, 4);
    for mask in subsets(vs.len(), 2, kmax) {
        let sub: Vec<usize> = (0..vs.len()).filter(|i| mask & (1 << i) != 0).collect();
        permutations(sub.len(), |perm| {
            let delivered: Vec<&Version> = perm.iter().map(|i| &vs[sub[*i]]).collect();
            run.case(format!("vault split {:?}", delivered.iter().map(|v| v.name).collect::<Vec<_>>()).as_bytes(), true);
            let result_map = result_map_in_order(&delivered, run);
            let res = read(Err(GetRecordError::SplitRecord { result_map }));
            execs += 1;
            judge_vault(run, &delivered, "split", res);
        });
    }
    // each execution is one environment state (a reply set in one order) and one step of the real read
    run.count("schedules", execs);
    run.count("states", execs);
    run.count("transitions", execs);
}

/// The vault read through the *real* client-side SwarmDriver: the holders' answers are kad events (one per distinct
/// holder) handled by the real accumulation code, in every sequence of 3..=5 answers over {v1, v2, unsigned-9}, and six or seven answers — five
/// without a quorum, then v3 from the sixth (and seventh) holder —, followed by the end of the query. What the read returns must be the highest authentic version among the answers delivered
/// before it completed.
fn vault_through_the_driver(run: &Run) {
    use crate::driver_rig::DriverRig;
    use libp2p::kad::{self, PeerRecord, ProgressStep, QueryResult, QueryStats};
    use std::num::NonZeroUsize;
    let vs = versions();
    let pick = |name: &str| vs.iter().find(|v| v.name == name).expect("version").clone();
    let menu = [pick("v1"), pick("v2"), pick("unsigned-9 (old ciphertext)"), pick("v3")];
    let mut execs = 0u64;
    let mut seqs: Vec<Vec<usize>> = vec![];
    for len in 3..=5usize {
        enumerate_sequences(3, len, &mut |seq: &[usize]| seqs.push(seq.to_vec()));
    }
    // more holders answer than the close group has members (kad asks up to K_VALUE peers): every arrangement of five
    // answers over {v1, v2, unsigned-9} in which no version reaches the quorum of three, then the newest authentic
    // version from a sixth (and a seventh) holder
    enumerate_sequences(3, 5, &mut |seq: &[usize]| {
        if (0..3).all(|v| seq.iter().filter(|x| **x == v).count() <= 2) {
            for tail in [vec![3usize], vec![3, 3]] {
                let mut q = seq.to_vec();
                q.extend(tail);
                seqs.push(q);
            }
        }
    });
    {
        for seq in &seqs {
            let seq: &[usize] = seq;
            execs += 1;
            let mut rig = DriverRig::new_client(1);
            let client = autonomi::Client::verif_new(rig.network.clone(), ant_evm::EvmNetwork::ArbitrumOne);
            let slot: std::sync::Arc<std::sync::Mutex<Option<Result<(Bytes, u64), String>>>> = Default::default();
            let s2 = slot.clone();
            let sk = bls_sk(OWNER);
            rig.exec.add("vault-read", async move {
                let r = client.fetch_and_decrypt_vault(&sk).await.map_err(|e| format!("{e:?}"));
                *s2.lock().unwrap() = Some(r);
            });
            rig.settle();
            while let Some(c) = rig.outbox.pop_front() {
                let _ = rig.handle_network(c);
            }
            let mut delivered: Vec<&Version> = vec![];
            if let Some(id) = rig.driver.verif_pending_get_record().first().map(|x| x.0) {
                for (n, vi) in seq.iter().enumerate() {
                    if slot.lock().unwrap().is_some() {
                        break; // the read has completed: later answers are not "received" by it
                    }
                    let pr = PeerRecord { peer: Some(peer_id(70 + n as u8)), record: menu[*vi].record.clone() };
                    let ev = kad::Event::OutboundQueryProgressed { id, result: QueryResult::GetRecord(Ok(kad::GetRecordOk::FoundRecord(pr))), stats: QueryStats::empty(), step: ProgressStep { count: NonZeroUsize::new(n + 1).unwrap(), last: false } };
                    delivered.push(&menu[*vi]);
                    let d = &mut rig.driver;
                    let _ = rig.exec.capture(None, "driver", || d.verif_handle_kad_event(ev));
                    rig.settle();
                }
                if slot.lock().unwrap().is_none() {
                    let ev = kad::Event::OutboundQueryProgressed { id, result: QueryResult::GetRecord(Ok(kad::GetRecordOk::FinishedWithNoAdditionalRecord { cache_candidates: Default::default() })), stats: QueryStats::empty(), step: ProgressStep { count: NonZeroUsize::new(seq.len() + 1).unwrap(), last: true } };
                    let d = &mut rig.driver;
                    let _ = rig.exec.capture(None, "driver", || d.verif_handle_kad_event(ev));
                    rig.settle();
                }
            }
            let res = slot.lock().unwrap().take();
            let names: Vec<&str> = seq.iter().map(|i| menu[*i].name).collect();
            run.case(format!("vault via driver {names:?}").as_bytes(), true);
            if execs <= 2 {
                run.sample(json!({"read": "fetch_and_decrypt_vault through the real SwarmDriver", "answers_in_arrival_order": names}));
            }
            judge_vault(run, &delivered, "through-the-driver", res);
        }
    }
    run.count("schedules", execs);
    run.count("states", execs);
    run.count("transitions", execs);
}

fn enumerate_sequences(n: usize, len: usize, f: &mut dyn FnMut(&[usize])) {
    let mut idx = vec![0usize; len];
    loop {
        f(&idx);
        let mut p = len;
        loop {
            if p == 0 {
                return;
            }
            p -= 1;
            idx[p] += 1;
            if idx[p] < n {
                break;
            }
            idx[p] = 0;
        }
    }
}

pub fn main(tier: Option<&str>) {
    std::env::set_var("CHUNK_DOWNLOAD_BATCH_SIZE", "64");
    let run = Run::new("C15", "model_checking", tier);
    run.rule(
        "chunk_get: 5 chunk contents x 4 other contents x 15 replies (the chunk; another chunk under the requested key / under its own key; bit flipped; truncated; \
         other kinds; header only; garbage; empty; not found; timeout; not-enough-copies / does-not-match / split carrying another chunk). data_get_public and data_get: \
         files of 3, 10, 100, 4096 bytes with all-different chunks and of 30, 3000, 3001 bytes in which chunks repeat (zeros, uniform, zeros around other content), each fetched chunk (data-map chunk and every content chunk) replaced in turn by the same position of another file / a bit flip / \
         a sibling chunk / a content chunk in place of the data map, in every completion order of the concurrent fetches. fetch_and_decrypt_vault: 14 versions (authentic \
         counters 1,2,3 and a fork at 2; unsigned / replayed-signature / forged / foreign at counter 9; a forgery tying with counter 2; forged, unsigned and \
         authentic pads under a chunk-kind header; garbage; a chunk record) delivered as one agreed record, inside \
         not-enough-copies, and as a split result of every subset of 2..=3(4) versions in every iteration order of the result map. And the vault read through the real client-side SwarmDriver: every sequence of 3..=5 holder answers over {v1, v2, unsigned-9} \
         as kad events, then the end of the query. Every case is non-trivial.",
    );
    run.assume("the reply alphabet is what get_record_from_network can hand the client; how holders' answers become an agreed / split result is C05's subject");
    chunk_reads(&run);
    data_reads(&run);
    vault_reads(&run);
    vault_through_the_driver(&run);
    run.finish();
}
