//! Store rig: a real `NodeRecordStore` on a scratch directory whose background tasks
//! (file write, file delete, notification send, metrics flush) run only when the harness says so.
//! The harness plays the three lines of `cmd.rs` that connect the store to the driver
//! (`PutLocalRecord` -> put_verified, `AddLocalRecordAsStored` -> mark_as_stored,
//! `RemoveFailedLocalRecord` -> remove); that mirror is bound to the code by the differential
//! pass in `c01::differential` which replays histories through a real `SwarmDriver`.
use crate::exec::Exec;
use ant_networking::verif_hooks::{LocalSwarmCmd, NodeRecordStoreConfig, VerifStoreView};
use ant_networking::{NetworkEvent, NodeRecordStore};
use ant_protocol::storage::{RecordHeader, RecordKind, RecordType};
use libp2p::kad::store::RecordStore;
use libp2p::kad::{Record, RecordKey};
use libp2p::PeerId;
use sha2::{Digest, Sha256};
use std::collections::{BTreeMap, VecDeque};
use std::path::{Path, PathBuf};
use tokio::sync::mpsc;
use xor_name::XorName;

#[derive(Clone, Debug)]
pub struct RigCfg {
    pub max_records: usize,
    pub cache_size: usize,
    /// None = the node's default (MAX_PACKET_SIZE)
    pub max_value_bytes: Option<usize>,
}

pub struct StoreRig {
    // field order = drop order: tasks first, then the store, then the runtime inside exec
    pub store: NodeRecordStore,
    pub cmd_rx: mpsc::Receiver<LocalSwarmCmd>,
    pub event_rx: mpsc::Receiver<NetworkEvent>,
    pub exec: Exec,
    pub queue: VecDeque<LocalSwarmCmd>,
    pub unverified_events: usize,
    pub root: PathBuf,
    pub cfg: RigCfg,
    pub peer: PeerId,
}

/// The record type exactly as `cmd.rs` (PutLocalRecord) computes it; None = refused there.
pub fn record_type_of(record: &Record) -> Option<RecordType> {
    match RecordHeader::from_record(record) {
        Ok(h) => match h.kind {
            RecordKind::Chunk => Some(RecordType::Chunk),
            RecordKind::Scratchpad => Some(RecordType::Scratchpad),
            RecordKind::Transaction | RecordKind::Register => Some(RecordType::NonChunk(XorName::from_content(&record.value))),
            _ => None,
        },
        Err(_) => None,
    }
}

pub fn hexkey(k: &RecordKey) -> String {
    hex::encode(k.as_ref())
}

pub fn short(k: &RecordKey) -> String {
    hexkey(k)[..6].to_string()
}

fn store_cfg(root: &Path, cfg: &RigCfg, peer: PeerId) -> NodeRecordStoreConfig {
    // as driver.rs does: seed = first 16 bytes of the peer id, records under <root>/record_store
    let seed: [u8; 16] = peer.to_bytes()[..16].try_into().unwrap();
    NodeRecordStoreConfig {
        storage_dir: root.join("record_store"),
        historic_quote_dir: root.to_path_buf(),
        max_records: cfg.max_records,
        records_cache_size: cfg.cache_size,
        encryption_seed: seed,
        max_value_bytes: cfg.max_value_bytes.unwrap_or(NodeRecordStoreConfig::default().max_value_bytes),
        ..Default::default()
    }
}

impl StoreRig {
    pub fn new(root: &Path, cfg: RigCfg, peer: PeerId) -> StoreRig {
        std::fs::create_dir_all(root.join("record_store")).expect("scratch dir");
        let mut exec = Exec::new(false);
        let (cmd_tx, cmd_rx) = mpsc::channel(10_000);
        let (ev_tx, event_rx) = mpsc::channel(10_000);
        let scfg = store_cfg(root, &cfg, peer);
        let (store, _ids) = exec.capture(None, "metrics", || NodeRecordStore::with_config(peer, scfg, ev_tx, cmd_tx));
        StoreRig { store, cmd_rx, event_rx, exec, queue: VecDeque::new(), unverified_events: 0, root: root.to_path_buf(), cfg, peer }
    }

    /// Node stop + restart with the same identity: all in-memory state and pending tasks are
    /// dropped, a new real store is opened on the directory.
    pub fn restart(self) -> StoreRig {
        let (root, cfg, peer) = (self.root.clone(), self.cfg.clone(), self.peer);
        drop(self);
        StoreRig::new(&root, cfg, peer)
    }

    pub fn storage_dir(&self) -> PathBuf {
        self.root.join("record_store")
    }

    pub fn view(&self) -> VerifStoreView {
        self.store.verif_view()
    }

    fn drain(&mut self) {
        while let Ok(c) = self.cmd_rx.try_recv() {
            self.queue.push_back(c);
        }
        while let Ok(e) = self.event_rx.try_recv() {
            if matches!(e, NetworkEvent::UnverifiedRecord(_)) {
                self.unverified_events += 1;
            }
        }
    }

    /// `PutLocalRecord` as cmd.rs handles it. Err(text) for a refused put.
    pub fn put(&mut self, key: &RecordKey, value: &[u8]) -> Result<(), String> {
        let record = Record { key: key.clone(), value: value.to_vec(), publisher: None, expires: None };
        let Some(rt) = record_type_of(&record) else { return Err("InCorrectRecordHeader".into()) };
        // what the store itself names as its farthest record (the one a put at capacity evicts)
        let evicted = self.store.get_farthest();
        let tag = hexkey(key);
        let store = &mut self.store;
        let (res, ids) = self.exec.capture(None, &tag, || store.verif_put_verified(record, rt));
        for id in ids {
            if self.exec.info(id).func.ends_with("::remove") {
                let t = evicted.as_ref().map(hexkey).unwrap_or_else(|| "?".into());
                self.exec.set_tag(id, &t);
            }
        }
        res.map_err(|e| format!("{e:?}"))
    }

    /// `RecordStore::remove` (the trait call).
    pub fn remove(&mut self, key: &RecordKey) {
        let tag = hexkey(key);
        let store = &mut self.store;
        let _ = self.exec.capture(None, &tag, || store.remove(key));
    }

    /// `RecordStore::put` (kad inbound): emits an UnverifiedRecord event at most.
    pub fn kad_put(&mut self, key: &RecordKey, value: &[u8]) -> Result<(), String> {
        let record = Record { key: key.clone(), value: value.to_vec(), publisher: None, expires: None };
        let store = &mut self.store;
        let (r, _) = self.exec.capture(None, "event", || store.put(record));
        r.map_err(|e| format!("{e:?}"))
    }

    pub fn cleanup(&mut self) {
        // the keys cleanup will remove, in its own iteration order, to tag the delete tasks
        let v = self.view();
        let doomed: Vec<RecordKey> = match v.responsible_distance_range {
            Some(r) => v.records_by_distance.iter().filter(|(d, _)| *d >= r).map(|(_, k)| k.clone()).collect(),
            None => vec![],
        };
        let store = &mut self.store;
        let (_, ids) = self.exec.capture(None, "?", || store.cleanup_irrelevant_records());
        if ids.len() == doomed.len() {
            for (id, k) in ids.iter().zip(doomed.iter()) {
                self.exec.set_tag(*id, &hexkey(k));
            }
        }
    }

    pub fn payment(&mut self) {
        let store = &mut self.store;
        let _ = self.exec.capture(None, "metrics", || store.verif_payment_received());
    }

    /// Tasks the scheduler may run next: per record key the oldest unfinished task (tasks of one
    /// key keep their order), every unfinished metrics/event task.
    pub fn enabled_tasks(&self) -> Vec<usize> {
        let mut seen: Vec<String> = vec![];
        let mut out = vec![];
        for id in self.exec.unfinished() {
            let tag = &self.exec.info(id).tag;
            if tag == "metrics" || tag == "event" {
                out.push(id);
            } else if !seen.contains(tag) {
                seen.push(tag.clone());
                out.push(id);
            }
        }
        out
    }

    pub fn pending_tasks(&self) -> Vec<(String, String)> {
        self.exec.unfinished().into_iter().map(|id| (self.exec.info(id).tag.clone(), self.exec.info(id).func.clone())).collect()
    }

    /// Run one task to completion (store tasks never block: sync file I/O, then a channel send
    /// into a channel the harness keeps far from full).
    pub fn run_task(&mut self, id: usize) {
        let (done, _kids) = self.exec.run_until_blocked(id);
        assert!(done, "store task {:?} blocked", self.exec.info(id));
        self.drain();
    }

    /// Handle the oldest queued notification as cmd.rs does.
    pub fn deliver(&mut self) -> bool {
        let Some(cmd) = self.queue.pop_front() else { return false };
        match cmd {
            LocalSwarmCmd::AddLocalRecordAsStored { key, record_type } => {
                // under the spawn capture like every other call into the store: whatever the acknowledgement handling
                // starts in the background (today nothing) becomes a task of the key whose file it touches
                let evicted = self.store.get_farthest();
                let tag = hexkey(&key);
                let store = &mut self.store;
                let (_, ids) = self.exec.capture(None, &tag, || store.verif_mark_as_stored(key, record_type));
                for id in ids {
                    if self.exec.info(id).func.ends_with("::remove") {
                        // a delete task names no key: it belongs to the key itself or to the record the store called its farthest
                        let still_listed = self.store.verif_contains(&RecordKey::new(&hex::decode(&tag).unwrap_or_default()));
                        let t = if still_listed { evicted.as_ref().map(hexkey).unwrap_or_else(|| tag.clone()) } else { tag.clone() };
                        self.exec.set_tag(id, &t);
                    }
                }
            }
            LocalSwarmCmd::RemoveFailedLocalRecord { key } => self.remove(&key),
            other => panic!("unexpected cmd from the store: {other:?}"),
        }
        true
    }

    /// The oldest unfinished store task, if any (notifications stay queued).
    pub fn exec_unfinished_first(&self) -> Option<usize> {
        self.exec.unfinished().first().copied()
    }

    pub fn quiescent(&self) -> bool {
        self.exec.unfinished().is_empty() && self.queue.is_empty()
    }

    /// Run everything in default (FIFO) order until nothing is left.
    pub fn settle(&mut self) {
        loop {
            if let Some(id) = self.exec.unfinished().first().copied() {
                self.run_task(id);
            } else if !self.deliver() {
                break;
            }
        }
    }

    pub fn get(&self, key: &RecordKey) -> Option<Record> {
        self.store.get(key).map(|c| c.into_owned())
    }

    /// file name -> sha256(content) (or "dir")
    pub fn listing(&self) -> BTreeMap<String, String> {
        let mut m = BTreeMap::new();
        if let Ok(rd) = std::fs::read_dir(self.storage_dir()) {
            for e in rd.flatten() {
                let name = e.file_name().to_string_lossy().to_string();
                let p = e.path();
                if p.is_dir() {
                    m.insert(name, "dir".into());
                } else if let Ok(b) = std::fs::read(&p) {
                    m.insert(name, hex::encode(&Sha256::digest(&b)[..8]));
                }
            }
        }
        m
    }

    pub fn queue_desc(&self) -> Vec<String> {
        self.queue
            .iter()
            .map(|c| match c {
                LocalSwarmCmd::AddLocalRecordAsStored { key, record_type } => format!("stored:{}:{record_type:?}", short(key)),
                LocalSwarmCmd::RemoveFailedLocalRecord { key } => format!("failed:{}", short(key)),
                other => format!("{other:?}"),
            })
            .collect()
    }

    /// Canonical observable state for the given key universe.
    pub fn canon(&self, universe: &[RecordKey]) -> Vec<u8> {
        let v = self.view();
        let mut recs: Vec<String> = v.records.iter().map(|(k, t)| format!("{}:{t:?}", short(k))).collect();
        recs.sort();
        let dist: Vec<String> = v.records_by_distance.iter().map(|(_, k)| short(k)).collect();
        let reads: Vec<String> = universe.iter().map(|k| format!("{:?}", self.get(k).map(|r| hex::encode(&Sha256::digest(&r.value)[..6])))).collect();
        let s = format!(
            "recs={recs:?};dist={dist:?};far={:?};range={:?};pay={};cache={:?};reads={reads:?};files={:?};metrics={:?};tasks={:?};queue={:?}",
            v.farthest.as_ref().map(short),
            v.responsible_distance_range,
            v.received_payment_count,
            v.cache_keys.iter().map(short).collect::<Vec<_>>(),
            self.listing(),
            std::fs::read(self.root.join("historic_quoting_metrics")).ok().map(|b| payment_count_in_metrics_file(&b)),
            self.pending_tasks(),
            self.queue_desc(),
        );
        s.into_bytes()
    }
}

/// The payment count persisted in the historic metrics file (first field of the msgpack struct).
pub fn payment_count_in_metrics_file(bytes: &[u8]) -> Option<u64> {
    #[derive(serde::Deserialize)]
    struct H(u64, std::time::SystemTime);
    rmp_serde::from_slice::<H>(bytes).ok().map(|h| h.0)
}

/// `n` record keys ranked by their distance from `peer` (nearest first), computed with the
/// independent reference metric.
pub fn ranked_keys(peer: PeerId, n: usize, salt: &str) -> Vec<RecordKey> {
    let me = ant_protocol::NetworkAddress::from_peer(peer).as_bytes();
    let mut v: Vec<(rigs::reference::U256Be, RecordKey)> = (0..n)
        .map(|i| {
            let k = RecordKey::new(&XorName::from_content(format!("{salt}-{i}").as_bytes()));
            (rigs::reference::xor_distance(&me, k.as_ref()), k)
        })
        .collect();
    v.sort_by(|a, b| a.0.cmp(&b.0));
    v.into_iter().map(|x| x.1).collect()
}
