//! Driver rig: a real `SwarmDriver` (built by `NetworkBuilder::build_node`, never `run()`) whose
//! command channels the harness pumps with the real `handle_local_cmd` / `handle_network_cmd`.
use crate::exec::Exec;
use crate::store_rig::{hexkey, ranked_keys, RigCfg, StoreRig};
use ant_networking::verif_hooks::{LocalSwarmCmd, NetworkSwarmCmd, UnifiedRecordStore};
use ant_networking::{Network, NetworkBuilder, NetworkEvent, SwarmDriver};
use libp2p::kad::store::RecordStore;
use libp2p::kad::{Record, RecordKey};
use libp2p::PeerId;
use mc_core::Run;
use serde_json::json;
use std::collections::VecDeque;
use std::path::{Path, PathBuf};
use tokio::sync::mpsc;

pub struct DriverRig {
    pub driver: SwarmDriver,
    pub network: Network,
    pub events_rx: mpsc::Receiver<NetworkEvent>,
    pub exec: Exec,
    pub root: PathBuf,
    /// network commands the driver was asked to perform that need the outside world
    /// (requests to peers, responses, kad queries): taken off the channel, kept for the harness
    pub outbox: VecDeque<NetworkSwarmCmd>,
    pub events: VecDeque<NetworkEvent>,
    /// queued commands with the causal chain ("tag") that produced them
    pub local_q: VecDeque<(LocalSwarmCmd, String)>,
    pub net_q: VecDeque<(NetworkSwarmCmd, String)>,
    /// chain of the step taken last: the default schedule keeps running that chain (non-preemptive default)
    pub last_tag: String,
    /// order in which the driver handled reads ("R:<key>") and writes ("W:<key>") of local records
    pub rw_log: Vec<String>,
}

#[derive(Clone, Copy, Debug, PartialEq, Eq)]
pub enum Step {
    Poll(usize),
    Local,
    Net,
}

pub enum Cmd {
    Local(LocalSwarmCmd),
    Network(NetworkSwarmCmd),
}

impl DriverRig {
    pub fn new_node(identity: u8, root: &Path) -> DriverRig {
        std::fs::create_dir_all(root).expect("root dir");
        let mut exec = Exec::new(true);
        let kp = rigs::fixtures::ed_keypair(identity);
        let root_buf = root.to_path_buf();
        let (res, _) = exec.capture(None, "startup", || {
            let mut b = NetworkBuilder::new(kp, true);
            b.listen_addr("127.0.0.1:0".parse().unwrap());
            b.build_node(root_buf)
        });
        let (network, events_rx, driver) = res.expect("build_node");
        let mut rig = DriverRig { driver, network, events_rx, exec, root: root.to_path_buf(), outbox: VecDeque::new(), events: VecDeque::new(), local_q: VecDeque::new(), net_q: VecDeque::new(), last_tag: String::new(), rw_log: vec![] };
        rig.settle();
        rig
    }

    pub fn new_client(identity: u8) -> DriverRig {
        let mut exec = Exec::new(true);
        let kp = rigs::fixtures::ed_keypair(identity);
        let (res, _) = exec.capture(None, "startup", || NetworkBuilder::new(kp, true).build_client());
        let (network, events_rx, driver) = res.expect("build_client");
        let mut rig = DriverRig { driver, network, events_rx, exec, root: PathBuf::new(), outbox: VecDeque::new(), events: VecDeque::new(), local_q: VecDeque::new(), net_q: VecDeque::new(), last_tag: String::new(), rw_log: vec![] };
        rig.settle();
        rig
    }

    pub fn peer_id(&self) -> PeerId {
        self.network.peer_id()
    }

    pub fn store(&mut self) -> &mut UnifiedRecordStore {
        self.driver.verif_store()
    }

    /// Handle one local command with the real handler (spawned tasks are captured).
    pub fn handle_local(&mut self, cmd: LocalSwarmCmd) -> Result<(), String> {
        match &cmd {
            LocalSwarmCmd::PutLocalRecord { record } => self.rw_log.push(format!("W:{}", hexkey(&record.key))),
            LocalSwarmCmd::GetLocalRecord { key, .. } | LocalSwarmCmd::RecordStoreHasKey { key, .. } => self.rw_log.push(format!("R:{}", hexkey(key))),
            _ => {}
        }
        let d = &mut self.driver;
        let (r, _) = self.exec.capture(None, "driver", || d.verif_handle_local_cmd(cmd));
        r.map_err(|e| format!("{e:?}"))
    }

    pub fn handle_network(&mut self, cmd: NetworkSwarmCmd) -> Result<(), String> {
        let d = &mut self.driver;
        let (r, _) = self.exec.capture(None, "driver", || d.verif_handle_network_cmd(cmd));
        r.map_err(|e| format!("{e:?}"))
    }

    pub fn next_local_cmd(&mut self) -> Option<LocalSwarmCmd> {
        self.driver.verif_try_recv_local_cmd()
    }
    pub fn next_network_cmd(&mut self) -> Option<NetworkSwarmCmd> {
        self.driver.verif_try_recv_network_cmd()
    }

    pub fn drain_events(&mut self) {
        while let Ok(e) = self.events_rx.try_recv() {
            self.events.push_back(e);
        }
    }

    /// Whether a network command needs the outside world (kept in the outbox for the harness to
    /// answer) rather than being handled by the driver alone.
    fn is_external(cmd: &NetworkSwarmCmd) -> bool {
        matches!(
            cmd,
            NetworkSwarmCmd::SendRequest { .. } | NetworkSwarmCmd::SendResponse { .. } | NetworkSwarmCmd::GetNetworkRecord { .. } | NetworkSwarmCmd::PutRecord { .. } | NetworkSwarmCmd::PutRecordTo { .. } | NetworkSwarmCmd::GetClosestPeersToAddressFromNetwork { .. } | NetworkSwarmCmd::Dial { .. }
        )
    }

    // ---- one-step-at-a-time interface for schedule exploration -------------------------------

    /// Move whatever sits in the driver's channels into the rig-side FIFO queues, attributing the new
    /// commands to the causal chain `tag` (the chain of the step that has just run).
    pub fn pull_tagged(&mut self, tag: &str) {
        while let Some(c) = self.next_local_cmd() {
            self.local_q.push_back((c, tag.to_string()));
        }
        while let Some(c) = self.next_network_cmd() {
            self.net_q.push_back((c, tag.to_string()));
        }
        self.drain_events();
    }
    pub fn pull(&mut self) {
        self.pull_tagged("?");
    }

    fn step_tag(&self, s: &Step) -> String {
        match s {
            Step::Poll(id) => self.exec.info(*id).tag.clone(),
            Step::Local => self.local_q.front().map(|x| x.1.clone()).unwrap_or_default(),
            Step::Net => self.net_q.front().map(|x| x.1.clone()).unwrap_or_default(),
        }
    }

    /// What can happen next: every runnable task (one poll), the oldest queued local command, the
    /// oldest queued network command. Index 0 is the default choice: steps of the causal chain that
    /// ran last come first (the default schedule runs a chain until it blocks, like a non-preemptive
    /// scheduler), the others follow in FIFO order.
    pub fn enabled_steps(&mut self) -> Vec<Step> {
        self.pull();
        let mut v: Vec<Step> = self.exec.runnable().into_iter().map(Step::Poll).collect();
        if !self.local_q.is_empty() {
            v.push(Step::Local);
        }
        if !self.net_q.is_empty() {
            v.push(Step::Net);
        }
        let last = self.last_tag.clone();
        let (mut same, other): (Vec<Step>, Vec<Step>) = v.into_iter().partition(|s| !last.is_empty() && self.step_tag(s) == last);
        same.extend(other);
        same
    }

    pub fn step_label(&self, s: &Step) -> String {
        match s {
            Step::Poll(id) => {
                let i = self.exec.info(*id);
                format!("poll#{}({}/{})", id, i.func, i.tag)
            }
            Step::Local => format!("local({})", self.local_q.front().map(|c| format!("{:?}", c.0).chars().take(40).collect::<String>()).unwrap_or_default()),
            Step::Net => "net".to_string(),
        }
    }

    pub fn take_step(&mut self, s: Step) {
        let tag = self.step_tag(&s);
        match s {
            Step::Poll(id) => {
                let _ = self.exec.poll(id);
            }
            Step::Local => {
                if let Some((c, t)) = self.local_q.pop_front() {
                    let before = self.exec.task_count();
                    let _ = self.handle_local(c);
                    for id in before..self.exec.task_count() {
                        self.exec.set_tag(id, &t);
                    }
                }
            }
            Step::Net => {
                if let Some((c, t)) = self.net_q.pop_front() {
                    if Self::is_external(&c) {
                        self.outbox.push_back(c);
                    } else {
                        let before = self.exec.task_count();
                        let _ = self.handle_network(c);
                        for id in before..self.exec.task_count() {
                            self.exec.set_tag(id, &t);
                        }
                    }
                }
            }
        }
        self.pull_tagged(&tag);
        self.last_tag = tag;
    }

    /// Default schedule: run every runnable task FIFO, handle every queued command FIFO, until
    /// nothing moves. External network commands are parked in `outbox`.
    pub fn settle(&mut self) {
        let mut guard = 0;
        loop {
            guard += 1;
            assert!(guard < 100_000, "driver rig does not settle (livelock)");
            let mut moved = false;
            for id in self.exec.runnable() {
                let _ = self.exec.poll(id);
                moved = true;
            }
            self.pull();
            while let Some((c, _)) = self.local_q.pop_front() {
                let _ = self.handle_local(c);
                moved = true;
                self.pull();
            }
            while let Some((c, _)) = self.net_q.pop_front() {
                if Self::is_external(&c) {
                    self.outbox.push_back(c);
                } else {
                    let _ = self.handle_network(c);
                }
                moved = true;
                self.pull();
            }
            self.drain_events();
            if !moved {
                break;
            }
        }
    }
}

// ------------------------------------------------------------------------------------------------
// C01 differential pass: the store rig's mirror of cmd.rs (PutLocalRecord / AddLocalRecordAsStored /
// RemoveFailedLocalRecord) against the real driver, on every history of depth <= 3.

#[derive(Clone, Debug)]
enum DOp {
    Put(usize, usize),
    Remove(usize),
    RunTask(usize),
    Deliver,
}

fn observe_store_rig(r: &StoreRig, keys: &[RecordKey]) -> String {
    let mut listed: Vec<String> = r.store.verif_record_addresses().into_iter().map(|(a, t)| format!("{}:{t:?}", hexkey(&a.to_record_key()))).collect();
    listed.sort();
    let reads: Vec<Option<Vec<u8>>> = keys.iter().map(|k| r.get(k).map(|x| x.value)).collect();
    let files: Vec<String> = r.listing().into_keys().collect();
    format!("{listed:?}|{reads:?}|{files:?}|{:?}", keys.iter().map(|k| r.store.verif_contains(k)).collect::<Vec<_>>())
}

fn node_store(d: &mut DriverRig) -> &mut ant_networking::NodeRecordStore {
    match d.store() {
        UnifiedRecordStore::Node(s) => s,
        UnifiedRecordStore::Client(_) => panic!("node rig has a client store"),
    }
}

fn observe_driver(d: &mut DriverRig, keys: &[RecordKey]) -> String {
    let s = node_store(d);
    let mut listed: Vec<String> = s.verif_record_addresses().into_iter().map(|(a, t)| format!("{}:{t:?}", hexkey(&a.to_record_key()))).collect();
    listed.sort();
    let reads: Vec<Option<Vec<u8>>> = keys.iter().map(|k| s.get(k).map(|x| x.into_owned().value)).collect();
    let contains: Vec<bool> = keys.iter().map(|k| s.verif_contains(k)).collect();
    let mut files: Vec<String> = std::fs::read_dir(d.root.join("record_store")).map(|rd| rd.flatten().map(|e| e.file_name().to_string_lossy().to_string()).collect()).unwrap_or_default();
    files.sort();
    format!("{listed:?}|{reads:?}|{files:?}|{contains:?}")
}

/// Unfinished store tasks of the driver rig, per key the oldest (same rule as the store rig).
fn driver_enabled_tasks(d: &DriverRig, keys: &[RecordKey]) -> Vec<usize> {
    let mut seen: Vec<String> = vec![];
    let mut out = vec![];
    for id in d.exec.unfinished() {
        let info = d.exec.info(id);
        // only the store's own tasks and their notification sends; replication-fetcher events etc. are
        // run eagerly by the differential driver loop
        if !keys.iter().any(|k| hexkey(k) == info.tag) {
            continue;
        }
        if !seen.contains(&info.tag) {
            seen.push(info.tag.clone());
            out.push(id);
        }
    }
    out
}

/// Second differential pass, on complete flows: every sequence of <= 3 API operations, each followed by the FIFO
/// schedule to quiescence, on the store rig and on a real SwarmDriver side by side. The settled-state clauses of C01
/// (readable as written, listed with the type of the latest write, removed = gone) are judged on the *driver* side,
/// so a change in the real notification handling is a verdict about the property; a remaining difference between rig
/// and driver is a machinery error.
pub fn c01_flow_differential(run: &Run) {
    let peer = rigs::fixtures::peer_id(1);
    let uni = crate::c01::universe(peer);
    let mut alphabet: Vec<DOp> = vec![];
    for k in 0..3 {
        for v in 0..2 {
            alphabet.push(DOp::Put(k, v));
        }
    }
    for k in 0..3 {
        alphabet.push(DOp::Remove(k));
    }
    let mut histories: Vec<Vec<DOp>> = vec![];
    mc_core::enumerate::sequences(&alphabet, 3, |s| histories.push(s.to_vec()));
    let total = histories.len();
    let next = std::sync::atomic::AtomicUsize::new(0);
    let first_mismatch: std::sync::Mutex<Option<String>> = std::sync::Mutex::new(None);
    std::thread::scope(|sc| {
        for _ in 0..mc_core::workers() {
            sc.spawn(|| loop {
                let i = next.fetch_add(1, std::sync::atomic::Ordering::Relaxed);
                if i >= total {
                    break;
                }
                let h = &histories[i];
                let s1 = crate::c01::fresh_scratch("c01-flow-store");
                let s2 = crate::c01::fresh_scratch("c01-flow-driver");
                let mut a = StoreRig::new(&s1, RigCfg { max_records: 16 * 1024, cache_size: 25, max_value_bytes: None }, peer);
                a.settle();
                let mut b = DriverRig::new_node(1, &s2);
                // reference: the latest operation per key
                let mut latest: Vec<Option<Option<usize>>> = vec![None; 3]; // None = untouched, Some(None) = removed, Some(Some(v)) = put v
                for (step, op) in h.iter().enumerate() {
                    match op {
                        DOp::Put(k, v) => {
                            let (key, val) = (&uni.keys[*k], &uni.values[*k][*v]);
                            let _ = a.put(key, val);
                            let rec = Record { key: key.clone(), value: val.clone(), publisher: None, expires: None };
                            let before = b.exec.task_count();
                            let _ = b.handle_local(LocalSwarmCmd::PutLocalRecord { record: rec });
                            for id in before..b.exec.task_count() {
                                if b.exec.info(id).func.ends_with("::put_verified") {
                                    b.exec.set_tag(id, &hexkey(key));
                                }
                            }
                            latest[*k] = Some(Some(*v));
                        }
                        DOp::Remove(k) => {
                            let key = &uni.keys[*k];
                            a.remove(key);
                            let st = &mut b.driver;
                            let _ = b.exec.capture(None, &hexkey(key), || st.verif_store().remove(key));
                            latest[*k] = Some(None);
                        }
                        _ => {}
                    }
                    // the FIFO schedule to quiescence on both sides
                    a.settle();
                    for _ in 0..64 {
                        let mut progressed = false;
                        for id in b.exec.unfinished() {
                            let _ = b.exec.run_until_blocked(id);
                            progressed = true;
                        }
                        while let Some(c) = b.next_local_cmd() {
                            let tag = match &c {
                                LocalSwarmCmd::RemoveFailedLocalRecord { key } | LocalSwarmCmd::AddLocalRecordAsStored { key, .. } => hexkey(key),
                                _ => "driver".into(),
                            };
                            let d = &mut b.driver;
                            let _ = b.exec.capture(None, &tag, || d.verif_handle_local_cmd(c));
                            progressed = true;
                        }
                        if !progressed {
                            break;
                        }
                    }
                    run.case(format!("flow:{h:?}:{step}").as_bytes(), true);
                    // C01's settled-state clauses on the real driver
                    let mut violated = false;
                    for k in 0..3 {
                        let key = &uni.keys[k];
                        let s = node_store(&mut b);
                        let got = s.get(key).map(|x| x.into_owned().value);
                        let listed: Option<ant_protocol::storage::RecordType> = s.verif_record_addresses().into_iter().find(|(a, _)| a.to_record_key() == *key).map(|(_, t)| t);
                        let w = json!({"engine": "flow-differential (real SwarmDriver)", "history": format!("{h:?}"), "after_step": step, "key": k});
                        match latest[k] {
                            Some(Some(v)) => {
                                let val = &uni.values[k][v];
                                let want_type = crate::store_rig::record_type_of(&Record { key: key.clone(), value: val.clone(), publisher: None, expires: None });
                                if got.as_ref() != Some(val) {
                                    violated = true;
                                    run.violation("settled-write-readable", "real-driver-flow", format!("k{k}: after {:?} and settling, the real driver's store reads {:?} bytes, the latest accepted write has {}", &h[..=step], got.as_ref().map(|g| g.len()), val.len()), w.clone());
                                }
                                if listed != want_type {
                                    violated = true;
                                    run.violation("settled-write-listed", "real-driver-flow", format!("k{k}: after {:?} and settling, the real driver's store lists it as {listed:?}, the latest accepted write is {want_type:?}", &h[..=step]), w);
                                }
                            }
                            Some(None) => {
                                if got.is_some() || listed.is_some() {
                                    violated = true;
                                    run.violation("removed-not-listed", "real-driver-flow", format!("k{k}: removed, yet after settling the real driver's store still serves / lists it"), w);
                                }
                            }
                            None => {}
                        }
                    }
                    let (oa, ob) = (observe_store_rig(&a, &uni.keys), observe_driver(&mut b, &uni.keys));
                    if oa != ob {
                        if !violated {
                            let mut g = first_mismatch.lock().unwrap();
                            if g.is_none() {
                                *g = Some(format!("store rig and real SwarmDriver disagree after step {step} of {h:?} (settled):\n rig   ={oa}\n driver={ob}"));
                            }
                        }
                        break;
                    }
                }
                drop(a);
                drop(b);
                let _ = std::fs::remove_dir_all(&s1);
                let _ = std::fs::remove_dir_all(&s2);
            });
        }
    });
    run.count("traces_validated_against_impl", total as u64);
    run.extra("flow_differential", json!({"histories": total, "api_ops": 3}));
    println!("[{}] flow differential store-rig vs SwarmDriver: {} histories of <=3 API operations, each settled", run.id, total);
    let mismatch: Option<String> = first_mismatch.lock().unwrap().clone();
    if let Some(m) = mismatch {
        run.machinery_error(&format!("the store rig does not mirror cmd.rs: {m}"));
    }
}

pub fn c01_differential(run: &Run) {
    let peer = rigs::fixtures::peer_id(1);
    let uni = crate::c01::universe(peer);
    let mut alphabet: Vec<DOp> = vec![DOp::RunTask(0), DOp::RunTask(1), DOp::Deliver];
    for k in 0..3 {
        for v in 0..2 {
            alphabet.push(DOp::Put(k, v));
        }
    }
    for k in 0..3 {
        alphabet.push(DOp::Remove(k));
    }
    let depth = 3;
    let mut histories: Vec<Vec<DOp>> = vec![];
    mc_core::enumerate::sequences(&alphabet, depth, |s| {
        // skip histories that begin with a scheduler step (nothing is pending initially)
        if matches!(s.first(), Some(DOp::RunTask(_)) | Some(DOp::Deliver)) {
            return;
        }
        histories.push(s.to_vec());
    });
    let total = histories.len();
    let next = std::sync::atomic::AtomicUsize::new(0);
    let mismatches = std::sync::atomic::AtomicUsize::new(0);
    let first_mismatch: std::sync::Mutex<Option<String>> = std::sync::Mutex::new(None);
    std::thread::scope(|sc| {
        for _ in 0..mc_core::workers() {
            sc.spawn(|| loop {
                let i = next.fetch_add(1, std::sync::atomic::Ordering::Relaxed);
                if i >= total {
                    break;
                }
                let h = &histories[i];
                let s1 = crate::c01::fresh_scratch("c01-diff-store");
                let s2 = crate::c01::fresh_scratch("c01-diff-driver");
                let mut a = StoreRig::new(&s1, RigCfg { max_records: 16 * 1024, cache_size: 25, max_value_bytes: None }, peer);
                a.settle();
                let mut b = DriverRig::new_node(1, &s2);
                let mut pending_local: VecDeque<LocalSwarmCmd> = VecDeque::new();
                for (step, op) in h.iter().enumerate() {
                    match op {
                        DOp::Put(k, v) => {
                            let key = &uni.keys[*k];
                            let val = &uni.values[*k][*v];
                            let _ = a.put(key, val);
                            let rec = Record { key: key.clone(), value: val.clone(), publisher: None, expires: None };
                            let before = b.exec.task_count();
                            let _ = b.handle_local(LocalSwarmCmd::PutLocalRecord { record: rec });
                            for id in before..b.exec.task_count() {
                                let f = b.exec.info(id).func.clone();
                                if f.ends_with("::put_verified") {
                                    b.exec.set_tag(id, &hexkey(key));
                                }
                            }
                        }
                        DOp::Remove(k) => {
                            let key = &uni.keys[*k];
                            a.remove(key);
                            let before = b.exec.task_count();
                            let st = &mut b.driver;
                            let _ = b.exec.capture(None, &hexkey(key), || st.verif_store().remove(key));
                            let _ = before;
                        }
                        DOp::RunTask(i) => {
                            if let Some(id) = a.enabled_tasks().get(*i).copied() {
                                a.run_task(id);
                            }
                            if let Some(id) = driver_enabled_tasks(&b, &uni.keys).get(*i).copied() {
                                let _ = b.exec.run_until_blocked(id);
                            }
                        }
                        DOp::Deliver => {
                            a.deliver();
                            while let Some(c) = b.next_local_cmd() {
                                pending_local.push_back(c);
                            }
                            // the driver's channel also carries nothing else here; deliver its oldest store notification
                            if let Some(c) = pending_local.pop_front() {
                                let key_tag = match &c {
                                    LocalSwarmCmd::RemoveFailedLocalRecord { key } | LocalSwarmCmd::AddLocalRecordAsStored { key, .. } => hexkey(key),
                                    _ => "driver".into(),
                                };
                                let d = &mut b.driver;
                                let _ = b.exec.capture(None, &key_tag, || d.verif_handle_local_cmd(c));
                            }
                        }
                    }
                    // tasks that are not the store's (fetcher events, metrics) run eagerly on the driver side
                    for id in b.exec.unfinished() {
                        if !uni.keys.iter().any(|k| hexkey(k) == b.exec.info(id).tag) {
                            let _ = b.exec.run_until_blocked(id);
                        }
                    }
                    while let Some(c) = b.next_local_cmd() {
                        pending_local.push_back(c);
                    }
                    let (oa, ob) = (observe_store_rig(&a, &uni.keys), observe_driver(&mut b, &uni.keys));
                    run.case(format!("diff:{h:?}:{step}").as_bytes(), true);
                    if oa != ob {
                        mismatches.fetch_add(1, std::sync::atomic::Ordering::Relaxed);
                        let mut g = first_mismatch.lock().unwrap();
                        if g.is_none() {
                            *g = Some(format!("store rig and real SwarmDriver disagree after step {step} of {h:?}:\n rig   ={oa}\n driver={ob}"));
                        }
                        break;
                    }
                }
                drop(a);
                drop(b);
                let _ = std::fs::remove_dir_all(&s1);
                let _ = std::fs::remove_dir_all(&s2);
            });
        }
    });
    run.count("traces_validated_against_impl", total as u64);
    run.extra("differential", json!({"histories": total, "depth": depth, "mismatches": mismatches.load(std::sync::atomic::Ordering::Relaxed)}));
    println!("[{}] differential store-rig vs SwarmDriver: {} histories (depth {}), {} mismatches", run.id, total, depth, mismatches.load(std::sync::atomic::Ordering::Relaxed));
    if mismatches.load(std::sync::atomic::Ordering::Relaxed) > 0 {
        // the rig misrepresents the code: nothing the BFS said can be trusted
        run.machinery_error(&format!("the store rig does not mirror cmd.rs: {}", first_mismatch.lock().unwrap().clone().unwrap_or_default()));
    }
    let _ = ranked_keys;
}
