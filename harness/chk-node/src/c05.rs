//! C05 — quorum reads return only what enough distinct peers agree on.
//! Layer 1: BFS (replay mode) on a real `SwarmDriver` (client build): callers register through the
//! real `handle_network_cmd(GetNetworkRecord)`, peer replies / terminating events are synthetic
//! kad events fed to the real `handle_swarm_events`. Layer 2: the real
//! `Network::get_record_from_network` driven to completion with the harness answering, for every
//! subset and arrival order of a version pool per mergeable kind.
use crate::driver_rig::DriverRig;
use ant_networking::verif_hooks::NetworkSwarmCmd;
use ant_networking::{GetRecordCfg, GetRecordError};
use ant_protocol::storage::{try_deserialize_record, RecordKind, Scratchpad, Transaction};
use ant_registers::SignedRegister;
use libp2p::kad::{self, PeerRecord, ProgressStep, QueryId, QueryResult, QueryStats, Quorum, Record, RecordKey};
use libp2p::PeerId;
use mc_core::bfs::{bfs_replay, BfsOpts, Fail, System};
use mc_core::{enumerate, Run};
use rigs::records as rec;
use serde_json::json;
use std::collections::{BTreeMap, BTreeSet};
use std::num::NonZeroUsize;
use std::sync::Arc;
use tokio::sync::oneshot;
use xor_name::XorName;

type Outcome = Result<Record, GetRecordError>;

#[derive(Clone, Copy, Debug, PartialEq, Eq)]
pub enum Term {
    FinishedNoAdditional,
    NotFound,
    QuorumFailed,
    Timeout,
}

#[derive(Clone, Debug)]
pub enum Act {
    /// a new caller for the key with configuration `cfg` (index into the menu)
    Call { cfg: usize, desc: String },
    /// peer `p` (6 = the local node itself) returns version `v`
    Found { p: usize, v: usize },
    Finish { how: Term },
    /// caller `i` gives up (drops its receiver) while waiting
    Leave { i: usize },
}

struct Menu {
    key: RecordKey,
    versions: Vec<Record>,
    /// (quorum, expected version index)
    cfgs: Vec<(Quorum, Option<usize>)>,
    mergeable: bool,
    /// callers pass `is_register: true`: the expected value is compared as a register (base and operation set)
    is_register: bool,
}

fn quorum_value(q: &Quorum) -> usize {
    match q {
        Quorum::One => 1,
        Quorum::N(n) => n.get(),
        Quorum::Majority => 3,
        Quorum::All => 5,
    }
}

enum CallerState {
    Waiting(oneshot::Receiver<Outcome>),
    Got(String),
    Left,
    /// the sender was dropped without a message
    Abandoned,
}

thread_local! {
    /// Building a SwarmDriver is the expensive part of a replay. A driver whose get_record queries
    /// have all been terminated is back in its initial state as far as this property can observe
    /// (pending_get_record is empty; query ids are never part of the state key), so it is reused.
    static POOL: std::cell::RefCell<Vec<(DriverRig, u32)>> = const { std::cell::RefCell::new(Vec::new()) };
}

pub struct Sys {
    rig: std::mem::ManuallyDrop<DriverRig>,
    uses: u32,
    menu: Arc<Menu>,
    callers: Vec<(usize, CallerState)>,
    /// per open or finished query: the (peer, version) replies delivered to it, in order
    query_replies: Vec<(QueryId, Vec<(usize, usize)>)>,
    /// the query each caller was attached to by the driver
    caller_query: Vec<QueryId>,
    query_open: bool,
    max_callers: usize,
    terminated_once: bool,
    /// callers whose outcome has been judged for the clauses that look at what had been delivered *when they were answered*
    judged: Vec<bool>,
}

fn peer(p: usize) -> PeerId {
    rigs::fixtures::peer_id(10 + p as u8)
}

impl Sys {
    fn new(menu: Arc<Menu>, max_callers: usize) -> Sys {
        let (rig, uses) = POOL.with(|p| p.borrow_mut().pop()).unwrap_or_else(|| (DriverRig::new_client(1), 0));
        Sys { rig: std::mem::ManuallyDrop::new(rig), uses, menu, callers: vec![], query_replies: vec![], caller_query: vec![], query_open: false, max_callers, terminated_once: false, judged: vec![] }
    }
    fn open_queries(&self) -> Vec<QueryId> {
        let open: Vec<QueryId> = self.rig.driver.verif_pending_get_record().into_iter().filter(|(_, k, _, _)| *k == self.menu.key).map(|(id, _, _, _)| id).collect();
        // in the order the harness saw them start
        self.query_replies.iter().map(|(id, _)| *id).filter(|id| open.contains(id)).collect()
    }
    fn replies_all(&self) -> Vec<(usize, usize)> {
        // union of what any query of this key was told (for the peer-symmetry reduction)
        let mut v: Vec<(usize, usize)> = self.query_replies.iter().flat_map(|(_, r)| r.iter().cloned()).collect();
        v.sort();
        v.dedup();
        v
    }
    fn cfg_of(&self, idx: usize) -> GetRecordCfg {
        let (q, exp) = &self.menu.cfgs[idx];
        GetRecordCfg { get_quorum: *q, retry_strategy: None, target_record: exp.map(|v| self.menu.versions[v].clone()), expected_holders: Default::default(), is_register: self.menu.is_register }
    }
    fn poll_callers(&mut self) {
        for (_, st) in self.callers.iter_mut() {
            if let CallerState::Waiting(rx) = st {
                match rx.try_recv() {
                    Ok(out) => *st = CallerState::Got(describe_outcome(&out, &self.menu)),
                    Err(oneshot::error::TryRecvError::Empty) => {}
                    Err(oneshot::error::TryRecvError::Closed) => *st = CallerState::Abandoned,
                }
            }
        }
    }
    /// distinct peers that returned each version to query `q` so far
    fn responders(&self, q: QueryId) -> BTreeMap<usize, BTreeSet<usize>> {
        let mut m: BTreeMap<usize, BTreeSet<usize>> = BTreeMap::new();
        if let Some((_, r)) = self.query_replies.iter().find(|(id, _)| *id == q) {
            for (p, v) in r {
                m.entry(*v).or_default().insert(*p);
            }
        }
        m
    }
}

impl Drop for Sys {
    fn drop(&mut self) {
        // terminate whatever is still open, then hand the driver back
        let open: Vec<QueryId> = self.rig.driver.verif_pending_get_record().into_iter().map(|(id, _, _, _)| id).collect();
        for id in open {
            let ev = kad::Event::OutboundQueryProgressed {
                id,
                result: QueryResult::GetRecord(Err(kad::GetRecordError::NotFound { key: self.menu.key.clone(), closest_peers: vec![] })),
                stats: QueryStats::empty(),
                step: ProgressStep { count: NonZeroUsize::new(1).unwrap(), last: true },
            };
            let rig: &mut DriverRig = &mut self.rig;
            let d = &mut rig.driver;
            let _ = rig.exec.capture(None, "driver", || d.verif_handle_kad_event(ev));
        }
        self.callers.clear();
        let clean = self.rig.driver.verif_pending_get_record().is_empty();
        // SAFETY: `rig` is taken exactly once, here, and never touched again
        let rig = unsafe { std::mem::ManuallyDrop::take(&mut self.rig) };
        if clean && self.uses < 3000 {
            POOL.with(|p| p.borrow_mut().push((rig, self.uses + 1)));
        }
    }
}

fn describe_outcome(out: &Outcome, menu: &Menu) -> String {
    match out {
        Ok(r) => match menu.versions.iter().position(|v| v.value == r.value) {
            Some(i) => format!("Ok(v{i})"),
            None => {
                // a merge: name the union of transactions it contains
                match try_deserialize_record::<Vec<Transaction>>(r) {
                    Ok(ts) => {
                        let mut ids: Vec<u8> = ts.iter().map(|t| t.content[0]).collect();
                        ids.sort();
                        format!("Ok(merge{ids:?})")
                    }
                    Err(_) => "Ok(unknown-bytes)".into(),
                }
            }
        },
        Err(GetRecordError::SplitRecord { result_map }) => {
            let mut vs: Vec<String> = result_map
                .values()
                .map(|(r, peers)| format!("v{}x{}", menu.versions.iter().position(|v| v.value == r.value).map(|i| i as i64).unwrap_or(-1), peers.len()))
                .collect();
            vs.sort();
            format!("Err(Split{vs:?})")
        }
        Err(GetRecordError::NotEnoughCopies { expected, got, .. }) => format!("Err(NotEnoughCopies {got}/{expected})"),
        Err(GetRecordError::RecordDoesNotMatch(_)) => "Err(RecordDoesNotMatch)".into(),
        Err(GetRecordError::RecordNotFound) => "Err(RecordNotFound)".into(),
        Err(GetRecordError::QueryTimeout) => "Err(QueryTimeout)".into(),
        Err(e) => format!("Err({e:?})"),
    }
}

impl System for Sys {
    type Action = Act;

    fn actions(&self) -> Vec<Act> {
        let mut v = vec![];
        if self.query_open {
            // symmetric peers: one representative per distinct answer signature, plus one fresh peer
            let mut sig: BTreeMap<usize, BTreeSet<usize>> = BTreeMap::new();
            for (p, ver) in &self.replies_all() {
                sig.entry(*p).or_default().insert(*ver);
            }
            let mut reps: Vec<usize> = vec![];
            let mut seen: BTreeSet<Vec<usize>> = BTreeSet::new();
            for (p, s) in &sig {
                if *p == 6 {
                    continue;
                }
                if seen.insert(s.iter().cloned().collect()) {
                    reps.push(*p);
                }
            }
            if let Some(fresh) = (0..6).find(|p| !sig.contains_key(p)) {
                reps.push(fresh);
            }
            reps.push(6); // the local node (PeerRecord::peer == None)
            for p in reps {
                for ver in 0..self.menu.versions.len() {
                    v.push(Act::Found { p, v: ver });
                }
            }
            for how in [Term::FinishedNoAdditional, Term::NotFound, Term::QuorumFailed, Term::Timeout] {
                v.push(Act::Finish { how });
            }
            for (i, (_, st)) in self.callers.iter().enumerate() {
                if matches!(st, CallerState::Waiting(_)) {
                    v.push(Act::Leave { i });
                }
            }
        }
        if self.callers.len() < self.max_callers && (self.query_open || self.callers.is_empty()) {
            for (i, (q, exp)) in self.menu.cfgs.iter().enumerate() {
                v.push(Act::Call { cfg: i, desc: format!("{q:?}/expect={exp:?}") });
            }
        }
        v
    }

    fn step(&mut self, a: &Act, fails: &mut Vec<Fail>) {
        let before_pending = self.rig.driver.verif_pending_get_record().len();
        match a {
            Act::Call { cfg, .. } => {
                let (tx, rx) = oneshot::channel();
                let cmd = NetworkSwarmCmd::GetNetworkRecord { key: self.menu.key.clone(), sender: tx, cfg: self.cfg_of(*cfg) };
                let before: Vec<(QueryId, usize)> = self.rig.driver.verif_pending_get_record().into_iter().filter(|(_, k, _, _)| *k == self.menu.key).map(|(id, _, n, _)| (id, n)).collect();
                let _ = self.rig.handle_network(cmd);
                let after: Vec<(QueryId, usize)> = self.rig.driver.verif_pending_get_record().into_iter().filter(|(_, k, _, _)| *k == self.menu.key).map(|(id, _, n, _)| (id, n)).collect();
                let attached = after.iter().find(|(id, n)| before.iter().find(|(b, _)| b == id).map(|(_, bn)| bn != n).unwrap_or(true)).map(|(id, _)| *id);
                match attached {
                    Some(id) => {
                        if !self.query_replies.iter().any(|(q, _)| *q == id) {
                            self.query_replies.push((id, vec![]));
                        }
                        self.caller_query.push(id);
                    }
                    None => {
                        fails.push(Fail::new("caller-registered", "plain", "a caller was not registered with any pending query".to_string()));
                        self.caller_query.push(before.first().map(|x| x.0).unwrap_or_else(|| after[0].0));
                    }
                }
                self.callers.push((*cfg, CallerState::Waiting(rx)));
                self.judged.push(false);
                self.query_open = true;
            }
            Act::Found { p, v } => {
                for id in self.open_queries() {
                    let record = self.menu.versions[*v].clone();
                    let pr = PeerRecord { peer: if *p == 6 { None } else { Some(peer(*p)) }, record };
                    let n = self.query_replies.iter().find(|(q, _)| *q == id).map(|(_, r)| r.len()).unwrap_or(0);
                    let count = NonZeroUsize::new(n + 1).unwrap();
                    let ev = kad::Event::OutboundQueryProgressed { id, result: QueryResult::GetRecord(Ok(kad::GetRecordOk::FoundRecord(pr))), stats: QueryStats::empty(), step: ProgressStep { count, last: false } };
                    if let Some((_, r)) = self.query_replies.iter_mut().find(|(q, _)| *q == id) {
                        r.push((*p, *v));
                    }
                    let rig: &mut DriverRig = &mut self.rig;
                    let d = &mut rig.driver;
                    let _ = rig.exec.capture(None, "driver", || d.verif_handle_kad_event(ev));
                }
            }
            Act::Finish { how } => {
                for id in self.open_queries() {
                    let key = self.menu.key.clone();
                    let n = self.query_replies.iter().find(|(q, _)| *q == id).map(|(_, r)| r.len()).unwrap_or(0);
                    let count = NonZeroUsize::new(n + 1).unwrap();
                    let result = match how {
                        Term::FinishedNoAdditional => QueryResult::GetRecord(Ok(kad::GetRecordOk::FinishedWithNoAdditionalRecord { cache_candidates: Default::default() })),
                        Term::NotFound => QueryResult::GetRecord(Err(kad::GetRecordError::NotFound { key, closest_peers: vec![] })),
                        Term::QuorumFailed => QueryResult::GetRecord(Err(kad::GetRecordError::QuorumFailed { key, records: vec![], quorum: NonZeroUsize::new(1).unwrap() })),
                        Term::Timeout => QueryResult::GetRecord(Err(kad::GetRecordError::Timeout { key })),
                    };
                    let ev = kad::Event::OutboundQueryProgressed { id, result, stats: QueryStats::empty(), step: ProgressStep { count, last: true } };
                    let rig: &mut DriverRig = &mut self.rig;
                    let d = &mut rig.driver;
                    let _ = rig.exec.capture(None, "driver", || d.verif_handle_kad_event(ev));
                }
                // a terminating event ends the queries
                if !self.open_queries().is_empty() {
                    fails.push(Fail::new("terminating-event-ends-query", "plain", format!("after {how:?} a query is still pending")));
                }
            }
            Act::Leave { i } => {
                self.callers[*i].1 = CallerState::Left;
            }
        }
        self.poll_callers();
        let open_now = self.open_queries();
        let now_open = !open_now.is_empty();
        {
            self.terminated_once = self.terminated_once || (self.query_open && !now_open);
            // a query ended: every caller attached to it that was still waiting has exactly one outcome
            for (i, (_, st)) in self.callers.iter().enumerate() {
                if open_now.contains(&self.caller_query[i]) {
                    continue;
                }
                match st {
                    CallerState::Waiting(_) => fails.push(Fail::new("every-waiting-caller-answered", "no-message", format!("the query ended but caller {i} received nothing"))),
                    CallerState::Abandoned => {
                        let earlier_left = self.callers[..i].iter().any(|(_, s)| matches!(s, CallerState::Left));
                        let trig = if earlier_left { "an-earlier-caller-had-left" } else { "plain" };
                        fails.push(Fail::new("every-waiting-caller-answered", trig, format!("the query ended but caller {i}'s channel was dropped without an outcome")));
                    }
                    _ => {}
                }
            }
        }
        self.query_open = now_open;
        let _ = before_pending;
        // judge every Ok outcome against the caller's own configuration
        let newly_got: Vec<usize> = self.callers.iter().enumerate().filter(|(i, (_, st))| matches!(st, CallerState::Got(_)) && !self.judged[*i]).map(|(i, _)| i).collect();
        for (i, (cfg, st)) in self.callers.iter().enumerate() {
            let CallerState::Got(out) = st else { continue };
            let resp = self.responders(self.caller_query[i]);
            let all_versions: BTreeSet<usize> = resp.keys().cloned().collect();
            let (q, exp) = &self.menu.cfgs[*cfg];
            let first_cfg = self.callers[0].0;
            let inherited = *cfg != first_cfg && i > 0;
            if let Some(rest) = out.strip_prefix("Ok(v") {
                let v: usize = rest.trim_end_matches(')').parse().unwrap_or(99);
                let agree = resp.get(&v).map(|s| s.len()).unwrap_or(0);
                if agree < quorum_value(q) {
                    fails.push(Fail::new(
                        "ok-needs-own-quorum",
                        if inherited { "second-caller-inherits-first-callers-cfg" } else { "plain" },
                        format!("caller {i} asked for {q:?} but got Ok(v{v}) with {agree} distinct agreeing peer(s)"),
                    ));
                }
                if let Some(e) = exp {
                    if *e != v {
                        fails.push(Fail::new(
                            "ok-equals-expected",
                            if inherited { "second-caller-inherits-first-callers-cfg" } else { "plain" },
                            format!("caller {i} expected v{e} but got Ok(v{v})"),
                        ));
                    }
                }
                if all_versions.len() > 1 && !self.menu.mergeable && agree < quorum_value(q) {
                    fails.push(Fail::new("no-arbitrary-pick", "plain", format!("caller {i} got Ok(v{v}) while several versions were delivered and its quorum was not met")));
                }
                // differing content had been returned when this caller was answered: it must get the full set of versions
                // (or the merge), not one of them — judged once, at the step in which the caller is answered
                if !self.judged[i] && all_versions.len() > 1 {
                    fails.push(Fail::new(
                        "no-arbitrary-pick",
                        "single-version-although-others-were-returned",
                        format!("caller {i} got Ok(v{v}) although the peers had returned the differing versions {all_versions:?} to its query"),
                    ));
                }
            } else if out.starts_with("Ok(merge") {
                if !self.menu.mergeable {
                    fails.push(Fail::new("no-arbitrary-pick", "merge-of-unmergeable", format!("caller {i} got a merged value for a non-mergeable kind")));
                }
                // the deterministic union of everything delivered so far
                let want: Vec<u8> = {
                    let mut ids: BTreeSet<u8> = BTreeSet::new();
                    for v in &all_versions {
                        if let Ok(ts) = try_deserialize_record::<Vec<Transaction>>(&self.menu.versions[*v]) {
                            ids.extend(ts.iter().map(|t| t.content[0]));
                        }
                    }
                    ids.into_iter().collect()
                };
                if *out != format!("Ok(merge{want:?})") {
                    fails.push(Fail::new("merge-is-union", "plain", format!("caller {i} got {out}, the union of the delivered versions is merge{want:?}")));
                }
            } else if out.starts_with("Ok(") {
                fails.push(Fail::new("no-arbitrary-pick", "unknown-bytes", format!("caller {i} got bytes that no peer returned")));
            } else if let Some(rest) = out.strip_prefix("Err(Split") {
                // a split outcome carries every version delivered so far with its responders
                let want: Vec<String> = {
                    let mut w: Vec<String> = resp.iter().map(|(v, s)| format!("v{v}x{}", s.len())).collect();
                    w.sort();
                    w
                };
                if rest.trim_end_matches(')') != format!("{want:?}") {
                    fails.push(Fail::new("split-carries-all-versions", "plain", format!("caller {i} got {out}, delivered so far: {want:?}")));
                }
            }
        }
        for i in newly_got {
            self.judged[i] = true;
        }
    }

    fn canon(&self) -> Vec<u8> {
        // peers are symmetric: the multiset of per-peer answer signatures
        let mut sigs: Vec<String> = vec![];
        for (qi, (_, replies)) in self.query_replies.iter().enumerate() {
            let mut sig: BTreeMap<usize, BTreeSet<usize>> = BTreeMap::new();
            for (p, v) in replies {
                sig.entry(*p).or_default().insert(*v);
            }
            let mut one: Vec<String> = sig.iter().map(|(p, s)| format!("{}{s:?}", if *p == 6 { "self" } else { "" })).collect();
            one.sort();
            sigs.push(format!("q{qi}:{one:?}"));
        }
        let attach: Vec<usize> = self.caller_query.iter().map(|q| self.query_replies.iter().position(|(id, _)| id == q).unwrap_or(99)).collect();
        let callers: Vec<String> = self
            .callers
            .iter()
            .map(|(c, s)| match s {
                CallerState::Waiting(_) => format!("{c}:wait"),
                CallerState::Got(o) => format!("{c}:{o}"),
                CallerState::Left => format!("{c}:left"),
                CallerState::Abandoned => format!("{c}:abandoned"),
            })
            .collect();
        let mut pend = self.rig.driver.verif_pending_get_record().into_iter().map(|(id, _, n, m)| format!("q{}:{n}/{m}", self.query_replies.iter().position(|(q, _)| *q == id).unwrap_or(99))).collect::<Vec<_>>();
        pend.sort();
        format!("{sigs:?}|{callers:?}|{attach:?}|{pend:?}|{}", self.query_open).into_bytes()
    }
}

// ------------------------------------------------------------------------------------------------
// layer 2: Network::get_record_from_network on split results

#[derive(Clone)]
struct PoolItem {
    name: &'static str,
    record: Record,
}

fn families() -> Vec<(&'static str, RecordKey, Vec<PoolItem>)> {
    let owner = 5u8;
    // scratchpads
    let pad_key = rec::pad_key(&rec::pad(owner, 1, b"x", owner));
    let mk = |r: Record, key: &RecordKey| Record { key: key.clone(), ..r };
    let pads: Vec<PoolItem> = vec![
        PoolItem { name: "valid c=1", record: rec::pad_record(&rec::pad(owner, 1, b"one", owner)) },
        PoolItem { name: "valid c=2", record: rec::pad_record(&rec::pad(owner, 2, b"two", owner)) },
        PoolItem { name: "valid c=3", record: rec::pad_record(&rec::pad(owner, 3, b"three", owner)) },
        PoolItem { name: "unsigned c=9", record: rec::pad_record(&rec::pad(owner, 9, b"nine", 0)) },
        PoolItem { name: "signed by another key c=9", record: rec::pad_record(&rec::pad(owner, 9, b"nine!", 6)) },
        PoolItem { name: "undecodable", record: mk(rec::record(pad_key.clone(), bytes::Bytes::from_static(&[0x91, 0x05, 0xc1, 0xc1])), &pad_key) },
        PoolItem { name: "another owner's valid pad c=9 under this key", record: mk(rec::pad_record(&rec::pad(6, 9, b"foreign", 6)), &pad_key) },
    ];
    // registers
    let fx = rec::reg_fixture(owner, b"c05-reg");
    let reg_key = rec::reg_key(&fx.base);
    let regs: Vec<PoolItem> = vec![
        PoolItem { name: "ops{0}", record: rec::reg_record(&fx.with_ops(&[0])) },
        PoolItem { name: "ops{1}", record: rec::reg_record(&fx.with_ops(&[1])) },
        PoolItem { name: "ops{0,2}", record: rec::reg_record(&fx.with_ops(&[0, 2])) },
        PoolItem { name: "undecodable", record: mk(rec::record(reg_key.clone(), bytes::Bytes::from_static(&[0x91, 0x03, 0xc1])), &reg_key) },
        PoolItem { name: "ops{1} + an op by a key without write permission (fails verify)", record: mk(rec::reg_record(&fx.with_ops_and_stranger(&[1])), &reg_key) },
    ];
    // transactions
    let t = [rec::tx(owner, 1, owner), rec::tx(owner, 2, owner), rec::tx(owner, 3, owner)];
    let tx_key = rec::tx_key(&t[0]);
    let txs: Vec<PoolItem> = vec![
        PoolItem { name: "[t1]", record: rec::txs_record(tx_key.clone(), &[t[0].clone()]) },
        PoolItem { name: "[t2]", record: rec::txs_record(tx_key.clone(), &[t[1].clone()]) },
        PoolItem { name: "[t1,t3]", record: rec::txs_record(tx_key.clone(), &[t[0].clone(), t[2].clone()]) },
    ];
    vec![("scratchpad", pad_key, pads), ("register", reg_key, regs), ("transaction", tx_key, txs)]
}

fn run_layer2(run: &Run) {
    let families = families();
    let mut total = 0u64;
    for (fname, key, pool) in &families {
        for mask in enumerate::subsets(pool.len(), 2, 3) {
            let idx: Vec<usize> = (0..pool.len()).filter(|i| mask & (1 << i) != 0).collect();
            enumerate::permutations(idx.len(), |perm| {
                let order: Vec<usize> = perm.iter().map(|i| idx[*i]).collect();
                // the split map's iteration order is not controllable (RandomState): repeat, labelled as sampled
                for rep in 0..4 {
                    total += 1;
                    let mut rig = DriverRig::new_client(1);
                    let net = rig.network.clone();
                    let k = key.clone();
                    let slot: Arc<std::sync::Mutex<Option<Result<Record, String>>>> = Arc::new(std::sync::Mutex::new(None));
                    let s2 = slot.clone();
                    rig.exec.add("get", async move {
                        let cfg = GetRecordCfg { get_quorum: Quorum::Majority, retry_strategy: None, target_record: None, expected_holders: Default::default(), is_register: false };
                        let r = net.get_record_from_network(k, &cfg).await.map_err(|e| format!("{e:?}"));
                        *s2.lock().unwrap() = Some(r);
                    });
                    rig.settle();
                    // the command is parked in the outbox: hand it to the real handler, then answer as the peers
                    while let Some(c) = rig.outbox.pop_front() {
                        let _ = rig.handle_network(c);
                    }
                    let id = rig.driver.verif_pending_get_record().first().map(|x| x.0);
                    if let Some(id) = id {
                        for (n, vi) in order.iter().enumerate() {
                            let pr = PeerRecord { peer: Some(peer(n)), record: pool[*vi].record.clone() };
                            let ev = kad::Event::OutboundQueryProgressed { id, result: QueryResult::GetRecord(Ok(kad::GetRecordOk::FoundRecord(pr))), stats: QueryStats::empty(), step: ProgressStep { count: NonZeroUsize::new(n + 1).unwrap(), last: false } };
                            let d = &mut rig.driver;
                            let _ = rig.exec.capture(None, "driver", || d.verif_handle_kad_event(ev));
                        }
                        let ev = kad::Event::OutboundQueryProgressed { id, result: QueryResult::GetRecord(Ok(kad::GetRecordOk::FinishedWithNoAdditionalRecord { cache_candidates: Default::default() })), stats: QueryStats::empty(), step: ProgressStep { count: NonZeroUsize::new(order.len() + 1).unwrap(), last: true } };
                        let d = &mut rig.driver;
                        let _ = rig.exec.capture(None, "driver", || d.verif_handle_kad_event(ev));
                    }
                    rig.settle();
                    let got = slot.lock().unwrap().take();
                    let names: Vec<&str> = order.iter().map(|i| pool[*i].name).collect();
                    let desc = json!({"layer": 2, "kind": fname, "versions_in_arrival_order": names, "repetition": rep});
                    run.case(format!("{fname}:{order:?}").as_bytes(), true);
                    judge_layer2(run, fname, &order, pool, got, desc);
                }
            });
        }
    }
    run.extra("layer2_executions", json!(total));
    run.assume("layer 2: the iteration order of the split-version HashMap (std RandomState) is not controllable; each case is executed 4 times with fresh maps — that one dimension is sampled, everything else is enumerated");
}


/// layer 2b: one version reaches the quorum while other versions have already been returned (the driver's quorum-time
/// branch, not the end-of-query one). Per mergeable kind: every majority version m of the pool (the transaction pool
/// extended by a body that does not decode and by a scratchpad record under the same key), every 1-2 other versions,
/// every arrival sequence that ends with the third answer for m. The versions meet in a HashMap inside the driver; a
/// hook reads its iteration order just before the completing answer, and each case is repeated on fresh drivers until
/// every iteration order of its versions has been executed — so that dimension is enumerated, not sampled.
fn run_layer2b(run: &Run) {
    let mut families = families();
    {
        let (_, key, pool) = families.iter_mut().find(|f| f.0 == "transaction").expect("tx family");
        pool.push(PoolItem { name: "undecodable", record: rec::record(key.clone(), bytes::Bytes::from_static(&[0x91, 0x06, 0xc1, 0xc1])) });
        let pad = rec::pad_record(&rec::pad(5, 1, b"a pad under the transactions' key", 5));
        pool.push(PoolItem { name: "a scratchpad record under this key", record: Record { key: key.clone(), ..pad } });
    }
    use std::sync::atomic::{AtomicU64, AtomicUsize, Ordering as AO};
    let (total, cases, capped) = (AtomicU64::new(0), AtomicU64::new(0), AtomicU64::new(0));
    let max_minor = run.pick(2, 2);
    let jobs: Vec<(usize, usize)> = families.iter().enumerate().flat_map(|(fi, f)| (0..f.2.len()).map(move |m| (fi, m))).collect();
    let next = AtomicUsize::new(0);
    std::thread::scope(|sc| {
        for _ in 0..mc_core::workers() {
            sc.spawn(|| loop {
                let j = next.fetch_add(1, AO::Relaxed);
                if j >= jobs.len() || mc_core::budget_spent() {
                    break;
                }
                let (fi, m) = jobs[j];
                let (fname, key, pool) = &families[fi];
                {
                    {
            let others: Vec<usize> = (0..pool.len()).filter(|i| *i != m).collect();
            for mask in enumerate::subsets(others.len(), 1, max_minor) {
                let minors: Vec<usize> = (0..others.len()).filter(|i| mask & (1 << i) != 0).map(|i| others[i]).collect();
                // arrival sequences: every distinct order of minors + two answers for m, then the completing third
                let mut body: Vec<usize> = minors.clone();
                body.extend([m, m]);
                let mut seqs: BTreeSet<Vec<usize>> = BTreeSet::new();
                if run.quick() {
                    enumerate::permutations(minors.len(), |perm| {
                        let mut q: Vec<usize> = perm.iter().map(|i| minors[*i]).collect();
                        q.extend([m, m]);
                        seqs.insert(q);
                    });
                } else {
                    enumerate::permutations(body.len(), |perm| {
                        seqs.insert(perm.iter().map(|i| body[*i]).collect());
                    });
                }
                let n_versions = minors.len() + 1;
                let n_orders: usize = (1..=n_versions).product();
                for seq in seqs {
                    cases.fetch_add(1, AO::Relaxed);
                    let mut seen_orders: BTreeSet<Vec<usize>> = BTreeSet::new();
                    let mut tries = 0;
                    while seen_orders.len() < n_orders && tries < 400 {
                        tries += 1;
                        let mut rig = DriverRig::new_client(1);
                        let net = rig.network.clone();
                        let k = key.clone();
                        let slot: Arc<std::sync::Mutex<Option<Result<Record, String>>>> = Arc::new(std::sync::Mutex::new(None));
                        let s2 = slot.clone();
                        rig.exec.add("get", async move {
                            let cfg = GetRecordCfg { get_quorum: Quorum::Majority, retry_strategy: None, target_record: None, expected_holders: Default::default(), is_register: false };
                            let r = net.get_record_from_network(k, &cfg).await.map_err(|e| format!("{e:?}"));
                            *s2.lock().unwrap() = Some(r);
                        });
                        rig.settle();
                        while let Some(c) = rig.outbox.pop_front() {
                            let _ = rig.handle_network(c);
                        }
                        let Some(id) = rig.driver.verif_pending_get_record().first().map(|x| x.0) else {
                            run.machinery_error("layer 2b: the read did not register a query");
                        };
                        let mut deliver = |rig: &mut DriverRig, n: usize, vi: usize| {
                            let pr = PeerRecord { peer: Some(peer(n)), record: pool[vi].record.clone() };
                            let ev = kad::Event::OutboundQueryProgressed { id, result: QueryResult::GetRecord(Ok(kad::GetRecordOk::FoundRecord(pr))), stats: QueryStats::empty(), step: ProgressStep { count: NonZeroUsize::new(n + 1).unwrap(), last: false } };
                            let d = &mut rig.driver;
                            let _ = rig.exec.capture(None, "driver", || d.verif_handle_kad_event(ev));
                        };
                        for (n, vi) in seq.iter().enumerate() {
                            deliver(&mut rig, n, *vi);
                        }
                        // the iteration order the driver's merge will see
                        let hashes = rig.driver.verif_get_record_version_order(&id);
                        let order: Vec<usize> = hashes.iter().filter_map(|h| (0..pool.len()).find(|i| XorName::from_content(&pool[*i].record.value) == *h)).collect();
                        if order.len() != n_versions {
                            run.machinery_error(&format!("layer 2b: the driver holds {} versions before the completing answer, {n_versions} were delivered", order.len()));
                        }
                        if !seen_orders.insert(order.clone()) {
                            continue; // this iteration order was executed already
                        }
                        deliver(&mut rig, seq.len(), m);
                        rig.settle();
                        let ev = kad::Event::OutboundQueryProgressed { id, result: QueryResult::GetRecord(Ok(kad::GetRecordOk::FinishedWithNoAdditionalRecord { cache_candidates: Default::default() })), stats: QueryStats::empty(), step: ProgressStep { count: NonZeroUsize::new(seq.len() + 2).unwrap(), last: true } };
                        let d = &mut rig.driver;
                        let _ = rig.exec.capture(None, "driver", || d.verif_handle_kad_event(ev));
                        rig.settle();
                        total.fetch_add(1, AO::Relaxed);
                        let got = slot.lock().unwrap().take();
                        let names: Vec<&str> = seq.iter().map(|i| pool[*i].name).collect();
                        let onames: Vec<&str> = order.iter().map(|i| pool[*i].name).collect();
                        let desc = json!({"layer": "2b", "kind": fname, "answers_in_arrival_order": names, "then_the_third_answer_for": pool[m].name, "driver_map_iteration_order": onames});
                        run.case(format!("L2b:{fname}:{seq:?}:{m}:{order:?}").as_bytes(), true);
                        let mut received = seq.clone();
                        received.push(m);
                        judge_layer2(run, fname, &received, pool, got, desc);
                    }
                    if seen_orders.len() < n_orders {
                        capped.fetch_add(1, AO::Relaxed);
                    }
                }
            }
                    }
                }
            });
        }
    });
    let (total, cases, capped) = (total.into_inner(), cases.into_inner(), capped.into_inner());
    run.extra("layer2b", json!({"arrival_sequences": cases, "executions": total, "sequences_for_which_not_every_map_order_was_reached_in_400_tries": capped}));
    if capped > 0 {
        run.cap_hit(&format!("layer 2b: {capped} arrival sequences did not reach every iteration order of the driver's version map within 400 fresh drivers"));
    }
}

/// layer 3: the same pools handed to the real get_record_from_network as a split result whose map iterates in
/// every order (the harness answers the GetNetworkRecord command itself; see client_rig::result_map_in_order).
fn run_layer3(run: &Run) {
    let families = families();
    let kmax = run.pick(3, 4);
    let mut total = 0u64;
    for (fname, key, pool) in &families {
        for mask in enumerate::subsets(pool.len(), 2, kmax) {
            let idx: Vec<usize> = (0..pool.len()).filter(|i| mask & (1 << i) != 0).collect();
            enumerate::permutations(idx.len(), |perm| {
                let order: Vec<usize> = perm.iter().map(|i| idx[*i]).collect();
                let recs: Vec<Record> = order.iter().map(|i| pool[*i].record.clone()).collect();
                let Some(result_map) = crate::client_rig::result_map_in_order(&recs) else {
                    run.machinery_error("could not build a result map with the wanted iteration order");
                };
                total += 1;
                let mut rig = crate::client_rig::ClientRig::new();
                let net = rig.network.clone();
                let k = key.clone();
                let got = rig.drive(
                    async move {
                        let cfg = GetRecordCfg { get_quorum: Quorum::Majority, retry_strategy: None, target_record: None, expected_holders: Default::default(), is_register: false };
                        net.get_record_from_network(k, &cfg).await.map_err(|e| format!("{e:?}"))
                    },
                    |_p| (0, Err(GetRecordError::SplitRecord { result_map: result_map.clone() })),
                );
                let names: Vec<&str> = order.iter().map(|i| pool[*i].name).collect();
                let desc = json!({"layer": 3, "kind": fname, "versions_in_map_iteration_order": names});
                run.case(format!("L3:{fname}:{order:?}").as_bytes(), true);
                judge_layer2(run, fname, &order, pool, got, desc);
            });
        }
    }
    run.extra("layer3_executions", json!(total));
}

/// layer 4: the retry loop of the real `Network::get_record_from_network`. The harness is the layer below (it owns the
/// command channel and answers every `GetNetworkRecord` itself) and the clock (paused; the back-off sleeps end when the
/// harness moves it). Every sequence of per-attempt answers over a menu of 8 (two agreed values, the four plain errors —
/// two of which *carry a record* fewer than Q peers agreed on —, a mergeable and an unmergeable split) x retry strategy
/// {None, N(2), Quick}; then two overlapping callers (told apart by their quorum) with every interleaving of the answers.
/// A value may only come from an attempt that was answered with that value (or the merge of a mergeable split); nothing is
/// asked again after a success; the call ends after at most `attempts` queries with one outcome; a failure names an error
/// that was really answered.
#[derive(Clone, Copy, Debug, PartialEq, Eq, PartialOrd, Ord)]
enum Ans {
    OkA,
    OkB,
    SplitMergeable,
    NotEnoughCopiesA,
    NotFound,
    Timeout,
    DoesNotMatchA,
    SplitOpaque,
}
const ANSWERS: [Ans; 8] = [Ans::OkA, Ans::OkB, Ans::SplitMergeable, Ans::NotEnoughCopiesA, Ans::NotFound, Ans::Timeout, Ans::DoesNotMatchA, Ans::SplitOpaque];
impl Ans {
    fn succeeds(self) -> bool {
        matches!(self, Ans::OkA | Ans::OkB | Ans::SplitMergeable)
    }
    fn error_name(self) -> &'static str {
        match self {
            Ans::NotEnoughCopiesA => "NotEnoughCopies",
            Ans::NotFound => "RecordNotFound",
            Ans::Timeout => "QueryTimeout",
            Ans::DoesNotMatchA => "RecordDoesNotMatch",
            Ans::SplitOpaque => "SplitRecord",
            _ => "",
        }
    }
}

struct L4Fix {
    key: RecordKey,
    a: Record,
    b: Record,
    t1: Record,
    t2: Record,
}

fn l4_reply(fx: &L4Fix, a: Ans) -> Result<Record, GetRecordError> {
    let split = |x: &Record, y: &Record| {
        let mut m = std::collections::HashMap::new();
        for (i, r) in [x, y].iter().enumerate() {
            let mut h = std::collections::HashSet::new();
            h.insert(peer(i));
            m.insert(XorName::from_content(&r.value), ((*r).clone(), h));
        }
        GetRecordError::SplitRecord { result_map: m }
    };
    match a {
        Ans::OkA => Ok(fx.a.clone()),
        Ans::OkB => Ok(fx.b.clone()),
        Ans::SplitMergeable => Err(split(&fx.t1, &fx.t2)),
        Ans::NotEnoughCopiesA => Err(GetRecordError::NotEnoughCopies { record: fx.a.clone(), expected: 2, got: 1 }),
        Ans::NotFound => Err(GetRecordError::RecordNotFound),
        Ans::Timeout => Err(GetRecordError::QueryTimeout),
        Ans::DoesNotMatchA => Err(GetRecordError::RecordDoesNotMatch(fx.a.clone())),
        Ans::SplitOpaque => Err(split(&fx.a, &fx.b)),
    }
}

fn l4_judge(run: &Run, fx: &L4Fix, who: &str, answered: &[Ans], attempts: usize, got: &Option<Result<Record, String>>, desc: &serde_json::Value) {
    let Some(got) = got else {
        run.violation("every-waiting-caller-answered", "retry-loop/never-completes", format!("{who}: get_record_from_network did not end after answers {answered:?} ({desc})"), json!({"case": desc}));
        return;
    };
    if answered.len() > attempts {
        run.violation("every-waiting-caller-answered", "retry-loop/more-queries-than-attempts", format!("{who}: {} queries for a strategy of {attempts} attempts ({desc})", answered.len()), json!({"case": desc}));
    }
    if let Some(pos) = answered.iter().position(|a| a.succeeds()) {
        if pos + 1 != answered.len() {
            run.violation("every-waiting-caller-answered", "retry-loop/asked-again-after-success", format!("{who}: answers {answered:?}: another query after a successful one ({desc})"), json!({"case": desc}));
        }
    }
    let last = answered.last().cloned();
    match got {
        Ok(r) => {
            let fine = match last {
                Some(Ans::OkA) => r.value == fx.a.value && r.key == fx.key,
                Some(Ans::OkB) => r.value == fx.b.value && r.key == fx.key,
                Some(Ans::SplitMergeable) => match try_deserialize_record::<Vec<Transaction>>(r) {
                    Ok(ts) => {
                        let have: BTreeSet<u8> = ts.iter().map(|t| t.content[0]).collect();
                        have == [1u8, 2u8].into_iter().collect::<BTreeSet<u8>>() && ts.len() == 2
                    }
                    Err(_) => false,
                },
                _ => false,
            };
            if !fine {
                run.violation("ok-needs-own-quorum", "retry-loop/value-not-from-a-successful-attempt", format!("{who}: answers {answered:?} but the read returned Ok({} bytes: {:?}) — not what the last attempt agreed on ({desc})", r.value.len(), String::from_utf8_lossy(&r.value[..r.value.len().min(12)])), json!({"case": desc}));
            }
        }
        Err(e) => {
            if let Some(l) = last {
                if l.succeeds() {
                    run.violation("every-waiting-caller-answered", "retry-loop/error-after-success", format!("{who}: answers {answered:?} (the last one a success) but the read failed with {e} ({desc})"), json!({"case": desc}));
                } else if answered.len() < attempts {
                    run.violation("every-waiting-caller-answered", "retry-loop/gave-up-early", format!("{who}: failed with {e} after {} of {attempts} attempts ({desc})", answered.len()), json!({"case": desc}));
                } else if !answered.iter().any(|a| !a.error_name().is_empty() && e.contains(a.error_name())) {
                    run.violation("every-waiting-caller-answered", "retry-loop/unspecific-error", format!("{who}: answers {answered:?} but the error is {e} ({desc})"), json!({"case": desc}));
                }
            }
        }
    }
}

fn l4_sequences(attempts: usize, menu: &[Ans]) -> Vec<Vec<Ans>> {
    // every answer sequence the loop can consume: ends at the first success or after `attempts` failures
    let mut out = vec![];
    let mut stack: Vec<Vec<Ans>> = vec![vec![]];
    while let Some(pre) = stack.pop() {
        for a in menu {
            let mut s = pre.clone();
            s.push(*a);
            if a.succeeds() || s.len() == attempts {
                out.push(s);
            } else {
                stack.push(s);
            }
        }
    }
    out.sort();
    out
}

fn run_layer4(run: &Run) {
    use ant_protocol::storage::RetryStrategy;
    let t = [rec::tx(5, 1, 5), rec::tx(5, 2, 5)];
    let key = rec::tx_key(&t[0]);
    let fx = L4Fix {
        key: key.clone(),
        a: rec::record(key.clone(), bytes::Bytes::from_static(b"\x91\x01\xc4\x01A")),
        b: rec::record(key.clone(), bytes::Bytes::from_static(b"\x91\x01\xc4\x01B")),
        t1: rec::txs_record(key.clone(), &[t[0].clone()]),
        t2: rec::txs_record(key.clone(), &[t[1].clone()]),
    };
    let strategies: Vec<(&str, Option<RetryStrategy>, usize)> = vec![
        ("None", None, 1),
        ("N(2)", Some(RetryStrategy::N(NonZeroUsize::new(2).unwrap())), 2),
        ("Quick", Some(RetryStrategy::Quick), 4),
    ];
    let mut single = 0u64;
    let mut outcomes: BTreeSet<String> = BTreeSet::new();
    for (sname, strat, attempts) in &strategies {
        if strat.map(|s| s.attempts()).unwrap_or(1) != *attempts {
            run.machinery_error("layer 4: the retry strategy's attempt count is not what the harness assumes");
        }
        for seq in l4_sequences(*attempts, &ANSWERS) {
            single += 1;
            let mut rig = crate::client_rig::ClientRig::new_paused();
            let net = rig.network.clone();
            let k = key.clone();
            let st = *strat;
            let slot = rig.start(async move {
                let cfg = GetRecordCfg { get_quorum: Quorum::Majority, retry_strategy: st, target_record: None, expected_holders: Default::default(), is_register: false };
                net.get_record_from_network(k, &cfg).await.map_err(|e| format!("{e:?}"))
            });
            let mut answered: Vec<Ans> = vec![];
            let mut idle = 0;
            let got = loop {
                rig.run_until_blocked();
                if let Some(v) = slot.lock().unwrap().take() {
                    break Some(v);
                }
                if !rig.pending.is_empty() {
                    idle = 0;
                    // past the planned sequence the harness keeps answering with the last planned answer, so that a loop
                    // which asks more often than it should is seen (and still ends)
                    let a = seq.get(answered.len()).cloned().unwrap_or(Ans::NotFound);
                    answered.push(a);
                    let p = rig.pending.remove(0);
                    let _ = p.reply.send(l4_reply(&fx, a));
                    if answered.len() > attempts + 3 {
                        break None;
                    }
                    continue;
                }
                idle += 1;
                if idle > 12 {
                    break None;
                }
                rig.exec.advance(std::time::Duration::from_secs(40));
            };
            let desc = json!({"layer": 4, "strategy": sname, "answers": format!("{seq:?}")});
            run.case(format!("L4:{sname}:{seq:?}").as_bytes(), seq.len() > 1);
            outcomes.insert(format!("{:?}", got.as_ref().map(|r| r.as_ref().map(|x| x.value.len()).map_err(|e| e.split('(').nth(1).unwrap_or("").to_string()))));
            l4_judge(run, &fx, "caller", &answered, *attempts, &got, &desc);
        }
    }
    // two overlapping callers on one key, each with its own retry loop; caller 0 asks with quorum Majority, caller 1 with One
    let menu2 = [Ans::OkA, Ans::OkB, Ans::NotEnoughCopiesA, Ans::Timeout, Ans::SplitMergeable];
    let seqs = l4_sequences(2, &menu2);
    let mut pairs = 0u64;
    for s0 in &seqs {
        for s1 in &seqs {
            // interleavings: at each point where both have a request pending, either is answered first — a bit string
            for order_bits in 0u32..(1 << 3) {
                pairs += 1;
                let mut rig = crate::client_rig::ClientRig::new_paused();
                let mut slots = vec![];
                for c in 0..2usize {
                    let net = rig.network.clone();
                    let k = key.clone();
                    slots.push(rig.start(async move {
                        let q = if c == 0 { Quorum::Majority } else { Quorum::One };
                        let cfg = GetRecordCfg { get_quorum: q, retry_strategy: Some(RetryStrategy::N(NonZeroUsize::new(2).unwrap())), target_record: None, expected_holders: Default::default(), is_register: false };
                        net.get_record_from_network(k, &cfg).await.map_err(|e| format!("{e:?}"))
                    }));
                }
                let mut answered: [Vec<Ans>; 2] = [vec![], vec![]];
                let mut got: [Option<Result<Record, String>>; 2] = [None, None];
                let mut idle = 0;
                let mut choice = 0;
                loop {
                    rig.run_until_blocked();
                    for c in 0..2 {
                        if got[c].is_none() {
                            if let Some(v) = slots[c].lock().unwrap().take() {
                                got[c] = Some(v);
                            }
                        }
                    }
                    if got.iter().all(|g| g.is_some()) {
                        break;
                    }
                    if !rig.pending.is_empty() {
                        idle = 0;
                        let i = if rig.pending.len() > 1 {
                            let b = (order_bits >> choice.min(2)) & 1;
                            choice += 1;
                            b as usize
                        } else {
                            0
                        };
                        let p = rig.pending.remove(i);
                        let c = if matches!(p.cfg.get_quorum, Quorum::Majority) { 0 } else { 1 };
                        let plan = if c == 0 { s0 } else { s1 };
                        let a = plan.get(answered[c].len()).cloned().unwrap_or(Ans::NotFound);
                        answered[c].push(a);
                        let _ = p.reply.send(l4_reply(&fx, a));
                        if answered[c].len() > 6 {
                            break;
                        }
                        continue;
                    }
                    idle += 1;
                    if idle > 12 {
                        break;
                    }
                    rig.exec.advance(std::time::Duration::from_secs(40));
                }
                let desc = json!({"layer": 4, "callers": 2, "answers_caller0": format!("{s0:?}"), "answers_caller1": format!("{s1:?}"), "order_bits": order_bits});
                run.case(format!("L4x2:{s0:?}:{s1:?}:{order_bits}").as_bytes(), true);
                for c in 0..2 {
                    l4_judge(run, &fx, &format!("caller {c}"), &answered[c], 2, &got[c], &desc);
                }
            }
        }
    }
    if outcomes.len() < 6 {
        run.machinery_error(&format!("layer 4: only {} distinct outcomes — the retry loop was not exercised", outcomes.len()));
    }
    run.extra("layer4_single_caller_sequences", json!(single));
    run.extra("layer4_two_caller_executions", json!(pairs));
    run.extra("layer4_distinct_outcomes", json!(outcomes.len()));
}

fn judge_layer2(run: &Run, fname: &str, order: &[usize], pool: &[PoolItem], got: Option<Result<Record, String>>, desc: serde_json::Value) {
    let Some(got) = got else {
        run.violation("read-completes", "blocked", format!("get_record_from_network never completed: {desc}"), json!({"case": desc}));
        return;
    };
    run.outcome(format!("{fname}:{:?}", got.as_ref().map(|_| "ok").map_err(|e| e.split('(').next().unwrap_or("").to_string())).as_bytes());
    match fname {
        "scratchpad" => {
            // the validly signed scratchpad with the highest counter among those received
            let best = order.iter().filter(|i| **i < 3).max().cloned();
            match (best, got) {
                (Some(b), Ok(r)) => match try_deserialize_record::<Scratchpad>(&r) {
                    Ok(p) if p.is_valid() && p.count() == (b as u64 + 1) => {}
                    Ok(p) => run.violation("merge-scratchpad-highest-valid", "wrong-pick", format!("returned scratchpad counter {} valid={}, highest valid received is {} ({desc})", p.count(), p.is_valid(), b + 1), json!({"case": desc})),
                    Err(_) => run.violation("merge-scratchpad-highest-valid", "undecodable", format!("returned bytes do not decode ({desc})"), json!({"case": desc})),
                },
                (Some(b), Err(e)) => run.violation("merge-scratchpad-highest-valid", "error-though-valid-version-received", format!("a valid version (c={}) was received but the read failed with {e} ({desc})", b + 1), json!({"case": desc})),
                (None, Ok(r)) => {
                    let p = try_deserialize_record::<Scratchpad>(&r);
                    run.violation("merge-scratchpad-highest-valid", "unauthentic-returned", format!("no valid version was received but the read returned {:?} ({desc})", p.map(|p| p.count())), json!({"case": desc}));
                }
                (None, Err(_)) => {}
            }
        }
        "register" => {
            let mut want: BTreeSet<usize> = BTreeSet::new();
            for i in order {
                match i {
                    0 => drop(want.insert(0)),
                    1 => drop(want.insert(1)),
                    2 => {
                        want.insert(0);
                        want.insert(2);
                    }
                    _ => {}
                }
            }
            let fx = rec::reg_fixture(5, b"c05-reg");
            match got {
                Ok(r) => match try_deserialize_record::<SignedRegister>(&r) {
                    Ok(reg) => {
                        let have: BTreeSet<usize> = reg.ops().iter().map(|o| fx.ops.iter().position(|p| p == o).unwrap_or(99)).collect();
                        if have != want {
                            run.violation("merge-register-union", "wrong-union", format!("merged register holds ops {have:?}, union of verified versions is {want:?} ({desc})"), json!({"case": desc}));
                        }
                    }
                    Err(_) => run.violation("merge-register-union", "undecodable", format!("returned bytes do not decode ({desc})"), json!({"case": desc})),
                },
                Err(e) => {
                    if order.iter().filter(|i| **i < 3).count() >= 1 {
                        run.violation("merge-register-union", "error-though-valid-version-received", format!("valid register versions were received but the read failed with {e} ({desc})"), json!({"case": desc}));
                    }
                }
            }
        }
        _ => {
            let mut want: BTreeSet<u8> = BTreeSet::new();
            for i in order {
                match i {
                    0 => drop(want.insert(1)),
                    1 => drop(want.insert(2)),
                    2 => {
                        want.insert(1);
                        want.insert(3);
                    }
                    _ => {} // not a transaction record: contributes nothing
                }
            }
            if want.is_empty() {
                return; // no transaction version was among the answers: the union clause says nothing
            }
            match got {
                Ok(r) => match try_deserialize_record::<Vec<Transaction>>(&r) {
                    Ok(ts) => {
                        let have: BTreeSet<u8> = ts.iter().map(|t| t.content[0]).collect();
                        if have != want || ts.len() != have.len() {
                            run.violation("merge-transactions-union", "wrong-union", format!("merged transactions {have:?} ({} entries), union is {want:?} ({desc})", ts.len()), json!({"case": desc}));
                        }
                    }
                    Err(_) => run.violation("merge-transactions-union", "undecodable", format!("returned bytes do not decode ({desc})"), json!({"case": desc})),
                },
                // (with a version among them that is no transaction record, the full set of versions is an answer the statement allows)
                Err(e) if order.iter().any(|i| *i > 2) && e.contains("SplitRecord") => {}
                Err(e) => run.violation("merge-transactions-union", "error", format!("differing transaction versions were received but the read failed with {e} ({desc})"), json!({"case": desc})),
            }
        }
    }
    let _ = pool;
    let _ = RecordKind::Chunk;
    let _ = XorName::default();
}

pub fn main(tier: Option<&str>) {
    let run = Run::new("C05", "model_checking", tier);
    run.rule(
        "layer 1: BFS, replay mode, on a real SwarmDriver: Call(cfg from quorum {One, N(2), Majority, All} x expected {none, A, B}) for up to 2(3) \
         concurrent callers, Found(peer, version) over 5 symmetric peers + the local node and versions {A,B} (duplicates allowed), the four \
         terminating events, Leave(caller); depth 6(8); peers are reduced by symmetry (one representative per answer signature + one fresh peer); \
         run once with opaque versions and once with mergeable transaction versions. layer 2: every subset (2-3) of a version pool per \
         mergeable kind x every arrival order through the real Network::get_record_from_network. layer 2b: one version reaching the quorum after 1-2 other versions were returned, every majority version x others x arrival sequences x every iteration order of the driver\'s version map (hook). layer 3: every subset (2-3(4)) of the same pools \
         handed to get_record_from_network as a split result whose map iterates in every order. \
         layer 4: the retry loop of get_record_from_network on a paused clock: every sequence of per-attempt answers over 8 (two agreed \
         values, NotEnoughCopies / RecordDoesNotMatch carrying a record, RecordNotFound, QueryTimeout, a mergeable and an unmergeable \
         split) x strategy {None, N(2), Quick}; two overlapping callers x every pair of answer sequences (5 answers, 2 attempts) x 8 answer orders.",
    );
    run.assume("kad events are synthetic (QueryStats::empty, ProgressStep counting replies); the driver's own bookkeeping (pending_get_record) is real");
    let depth = run.pick(6, 8);
    let callers = run.pick(2, 3);
    let key = RecordKey::new(&XorName::from_content(b"c05-key"));
    let opaque = Arc::new(Menu {
        key: key.clone(),
        versions: vec![rec::record(key.clone(), bytes::Bytes::from_static(b"\x91\x01\xc4\x01A")), rec::record(key.clone(), bytes::Bytes::from_static(b"\x91\x01\xc4\x01B"))],
        cfgs: vec![(Quorum::One, None), (Quorum::N(NonZeroUsize::new(2).unwrap()), None), (Quorum::Majority, None), (Quorum::All, None), (Quorum::One, Some(0)), (Quorum::N(NonZeroUsize::new(2).unwrap()), Some(0)), (Quorum::Majority, Some(0)), (Quorum::One, Some(1)), (Quorum::N(NonZeroUsize::new(2).unwrap()), Some(1))],
        mergeable: false,
        is_register: false,
    });
    let t = [rec::tx(5, 1, 5), rec::tx(5, 2, 5)];
    let tkey = rec::tx_key(&t[0]);
    let mergeable = Arc::new(Menu {
        key: tkey.clone(),
        versions: vec![rec::txs_record(tkey.clone(), &[t[0].clone()]), rec::txs_record(tkey.clone(), &[t[1].clone()])],
        cfgs: vec![(Quorum::One, None), (Quorum::N(NonZeroUsize::new(2).unwrap()), None), (Quorum::Majority, None)],
        mergeable: true,
        is_register: false,
    });
    // register reads with an expected value (`is_register`): the versions are three states of one register — two forks
    // with the same number of operations and their common ancestor —, the expected value is the first fork
    let rfx = rec::reg_fixture(5, b"c05-reg-target");
    let rkey = rec::reg_key(&rfx.base);
    let reg_rec = |ops: &[usize]| rec::reg_record(&rfx.with_ops(ops));
    let registers = Arc::new(Menu {
        key: rkey.clone(),
        versions: vec![reg_rec(&[0, 1]), reg_rec(&[0, 2])],
        cfgs: vec![(Quorum::One, Some(0)), (Quorum::N(NonZeroUsize::new(2).unwrap()), Some(0)), (Quorum::Majority, Some(0)), (Quorum::One, None)],
        mergeable: false,
        is_register: true,
    });
    let registers_stale = Arc::new(Menu {
        key: rkey.clone(),
        versions: vec![reg_rec(&[0, 1]), reg_rec(&[0])],
        cfgs: vec![(Quorum::One, Some(0)), (Quorum::N(NonZeroUsize::new(2).unwrap()), Some(0)), (Quorum::One, Some(1))],
        mergeable: false,
        is_register: true,
    });
    for (menu, label) in [(opaque, "opaque-versions"), (mergeable, "transaction-versions"), (registers, "register-forks-with-expected-value"), (registers_stale, "register-and-ancestor-with-expected-value")] {
        let m = menu.clone();
        bfs_replay(
            &run,
            BfsOpts { max_depth: depth, wall_cap: Some(std::time::Duration::from_secs(run.pick(40, 1500))), state_cap: None, label: format!("{label}/callers<={callers}") },
            || Sys::new(m.clone(), callers),
        );
    }
    run_layer2(&run);
    run_layer2b(&run);
    run_layer3(&run);
    run_layer4(&run);
    run.finish();
}
