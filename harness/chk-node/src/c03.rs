//! C03 — new data is stored from a client only with a valid payment for that exact data.
//! Full product of the six payment conditions x record kind x prior content, each case executed
//! on a fresh real Node + SwarmDriver (default schedule) with the payment contract played by the
//! loopback JSON-RPC stub; plus every unpaid kind x prior content.
use crate::c01::fresh_scratch;
use crate::evm_stub::{Chain, EvmStub};
use crate::node_rig::NodeRig;
use ant_protocol::storage::{try_deserialize_record, Scratchpad, Transaction};
use ant_registers::SignedRegister;
use libp2p::kad::{Record, RecordKey};
use mc_core::{enumerate, Run};
use rigs::records as rec;
use serde_json::json;
use std::sync::atomic::{AtomicUsize, Ordering};
use std::sync::Arc;
use std::time::{Duration, SystemTime};
use xor_name::XorName;

const SELF: u8 = 1;

/// The routing table of every C03 node: fixture peers 2..=45 (more than K, so that "known" and "close" differ).
const TABLE: std::ops::RangeInclusive<u8> = 2..=45;
const STRANGER: u8 = 200;

/// Fixture ids by role, computed once on a probe node: three peers among the node's K closest, one known peer outside them.
pub struct Payees {
    pub p2: u8,
    pub p3: u8,
    pub p4: u8,
    pub p5: u8,
    pub p6: u8,
    pub far: u8,
}

pub fn payees() -> &'static Payees {
    static P: std::sync::OnceLock<Payees> = std::sync::OnceLock::new();
    P.get_or_init(|| {
        let root = fresh_scratch("c03-probe");
        let mut rig = crate::driver_rig::DriverRig::new_node(SELF, &root);
        // (a k-bucket holds 20 entries: a few of the 44 inserts into the farthest bucket may be refused; only peers that
        // did get in count as known)
        let mut known: Vec<u8> = vec![];
        for (i, id) in TABLE.enumerate() {
            if rig.driver.verif_add_peer(rigs::fixtures::peer_id(id), format!("/ip4/127.0.0.1/udp/{}/quic-v1", 20000 + i).parse().unwrap()) {
                known.push(id);
            }
        }
        let close = rig.driver.verif_closest_k_value_local_peers();
        let inside: Vec<u8> = known.iter().cloned().filter(|id| close.contains(&rigs::fixtures::peer_id(*id))).collect();
        let outside: Vec<u8> = known.iter().cloned().filter(|id| !close.contains(&rigs::fixtures::peer_id(*id))).collect();
        assert!(inside.len() >= 5 && !outside.is_empty(), "probe: {} close, {} far", inside.len(), outside.len());
        drop(rig);
        let _ = std::fs::remove_dir_all(&root);
        Payees { p2: inside[0], p3: inside[1], p4: inside[2], p5: inside[3], p6: inside[4], far: outside[0] }
    })
}

#[derive(Clone, Copy, Debug, PartialEq, Eq)]
pub enum Kind {
    Chunk,
    Scratchpad,
    Transaction,
    Register,
}
const KINDS: [Kind; 4] = [Kind::Chunk, Kind::Scratchpad, Kind::Transaction, Kind::Register];

#[derive(Clone, Copy, Debug, PartialEq, Eq)]
pub enum Prior {
    Absent,
    SameVersion,
    OtherVersion,
    /// a record of *another kind* held under the same key (a scratchpad and a transaction of one owner share their key)
    OtherKind,
    /// another version was accepted earlier but its disk write failed (the record's file name was not writable) and the
    /// store cleaned up after the failure: the node does not hold the address — nothing on disk, nothing listed, nothing
    /// it would replicate or serve after a restart. Used by the unpaid uploads only.
    FailedWrite,
}

#[derive(Clone, Debug)]
pub struct Case {
    pub sig: usize,      // 0 authentic, 1 one forged, 2 one signed by another key
    pub self_payee: bool,
    pub all_close: bool,
    /// when not all payees are close: the odd one is a peer the node knows (it is in the routing table) but that is not
    /// among its K closest, instead of a complete stranger
    pub far_known: bool,
    pub age: usize,      // 0 fresh, 1 two hours old, 2 one hour in the future
    /// 0 paid, 1 unpaid (this node's quote), 2 rpc error, 3 http 503, 4 http 429, 5 connection closed, 6 another payee's quote
    /// reported unpaid (this node's own reported paid), 7 a proof of five quotes with this node's last: the contract reports on
    /// three quotes, the first three, all unpaid
    pub chain: usize,
    pub own_quote_for_address: bool,
    /// when the own quote names another address: the all-zero content (what the node signs for an address kind that has no name)
    pub own_quote_zero: bool,
    pub kind: Kind,
    pub prior: Prior,
    /// which quote carries the age defect: false = another payee's, true = this node's own
    pub age_on_own: bool,
}

impl Case {
    pub fn all_conditions_hold(&self) -> bool {
        self.sig == 0 && self.self_payee && self.all_close && self.age == 0 && self.chain == 0 && self.own_quote_for_address
    }
    fn faults(&self) -> usize {
        (self.sig != 0) as usize + (!self.self_payee) as usize + (!self.all_close) as usize + (self.age != 0) as usize + (self.chain != 0) as usize + (!self.own_quote_for_address) as usize
    }
}

/// The object uploaded in a case: (record with payment, key, the plain record expected to be stored)
pub struct Upload {
    pub key: RecordKey,
    pub with_payment: Box<dyn Fn(&ant_evm::ProofOfPayment) -> Record + Send + Sync>,
    pub prior_same: Record,
    pub prior_other: Option<Record>,
    /// a valid record of another kind that lives under the same key
    pub prior_other_kind: Option<Record>,
}

pub fn upload_for(kind: Kind) -> Upload {
    match kind {
        Kind::Chunk => {
            let c = rec::chunk(b"c03 chunk payload");
            let c2 = c.clone();
            Upload { key: rec::chunk_key(&c), with_payment: Box::new(move |p| rec::paid_chunk_record(p, &c2)), prior_same: rec::chunk_record(&c), prior_other: None, prior_other_kind: None }
        }
        Kind::Scratchpad => {
            let s = rec::pad(5, 2, b"pad v2", 5);
            let older = rec::pad(5, 1, b"pad v1", 5);
            let s2 = s.clone();
            Upload { key: rec::pad_key(&s), with_payment: Box::new(move |p| rec::paid_pad_record(p, &s2)), prior_same: rec::pad_record(&s), prior_other: Some(rec::pad_record(&older)), prior_other_kind: Some(rec::txs_record(rec::tx_key(&rec::tx(5, 1, 5)), &[rec::tx(5, 1, 5)])) }
        }
        Kind::Transaction => {
            let t = rec::tx(6, 1, 6);
            let other = rec::tx(6, 2, 6);
            let t2 = t.clone();
            Upload { key: rec::tx_key(&t), with_payment: Box::new(move |p| rec::paid_tx_record(p, &t2)), prior_same: rec::txs_record(rec::tx_key(&t), &[t.clone()]), prior_other: Some(rec::txs_record(rec::tx_key(&t), &[other])), prior_other_kind: Some(rec::pad_record(&rec::pad(6, 1, b"pad of the transaction's owner", 6))) }
        }
        Kind::Register => {
            let fx = rec::reg_fixture(7, b"c03-reg");
            let r = fx.with_ops(&[0, 1]);
            let other = fx.with_ops(&[2]);
            let r2 = r.clone();
            Upload { key: rec::reg_key(&r), with_payment: Box::new(move |p| rec::paid_reg_record(p, &r2)), prior_same: rec::reg_record(&r), prior_other: Some(rec::reg_record(&other)), prior_other_kind: None }
        }
    }
}

pub fn build_proof(c: &Case, key: &RecordKey) -> (ant_evm::ProofOfPayment, Vec<[u8; 32]>) {
    build_proof_at(c, key, SystemTime::now())
}

/// The same with the clock reading the quotes are dated from given by the caller: two proofs built from one reading
/// carry *the same* quotes wherever their cases agree (signatures are deterministic).
pub fn build_proof_at(c: &Case, key: &RecordKey, now: SystemTime) -> (ant_evm::ProofOfPayment, Vec<[u8; 32]>) {
    let addr = rec::xorname_of_key(key);
    let other_addr = XorName::from_content(b"some other data the node quoted for");
    let ts_of = |age: usize| match age {
        0 => now - Duration::from_secs(30),
        1 => now - Duration::from_secs(2 * 3600),
        _ => now + Duration::from_secs(3600),
    };
    // payees: this node (or peer 4 instead), peer 2, peer 3 (or stranger 9 instead)
    let pp = payees();
    let own = if c.self_payee { SELF } else { pp.p4 };
    let third = if c.all_close { pp.p3 } else if c.far_known { pp.far } else { STRANGER };
    let own_ts = if c.age_on_own { ts_of(c.age) } else { ts_of(0) };
    let other_ts = if c.age_on_own { ts_of(0) } else { ts_of(c.age) };
    let own_q = rec::quote(own, if c.own_quote_for_address { addr } else if c.own_quote_zero { XorName::default() } else { other_addr }, own_ts);
    let mut q2 = rec::quote(pp.p2, addr, other_ts);
    let listed2 = pp.p2;
    match c.sig {
        1 => q2.signature[5] ^= 0x40,
        2 => q2 = rec::quote(8, addr, other_ts), // signed (and keyed) by identity 8 but listed under peer 2
        _ => {}
    }
    let q3 = rec::quote(third, addr, ts_of(0));
    // the quote hashes the contract reports as unpaid in this case
    let mut unpaid = match c.chain {
        1 => vec![own_q.hash().0],
        6 => vec![q3.hash().0],
        _ => vec![],
    };
    let mut entries = vec![(own, own_q)];
    if c.sig == 3 {
        // peer 2 listed twice: a quote that does not verify for it, followed by a genuine one
        let mut bad = rec::quote(pp.p2, addr, other_ts);
        bad.signature[7] ^= 0x01;
        entries.push((listed2, bad));
    }
    entries.push((listed2, q2));
    entries.push((third, q3));
    if c.chain == 7 {
        // five (or more) quotes, this node's own last; the contract's answer has room for three
        let own_entry = entries.remove(0);
        entries.push((pp.p5, rec::quote(pp.p5, addr, ts_of(0))));
        entries.push((pp.p6, rec::quote(pp.p6, addr, ts_of(0))));
        entries.push(own_entry);
        unpaid = entries.iter().take(3).map(|(_, q)| q.hash().0).collect();
    }
    (rec::proof(entries), unpaid)
}

fn describe(c: &Case) -> serde_json::Value {
    json!({"kind": format!("{:?}", c.kind), "prior": format!("{:?}", c.prior),
        "signatures": (["authentic", "one forged", "one signed by another key", "a payee listed twice, its first quote forged"][c.sig]), "self_among_payees": c.self_payee, "all_payees_close": c.all_close, "odd_payee": (if c.all_close { "-" } else if c.far_known { "known but outside the K closest" } else { "stranger" }),
        "age": (["fresh", "2h old", "1h in the future"][c.age]), "age_defect_on_own_quote": c.age_on_own,
        "chain": (["paid", "unpaid", "rpc error", "http 503 on every attempt", "http 429 on every attempt", "connection closed on every attempt", "another payee's quote reported unpaid, this node's paid", "five quotes, this node's last; the contract reports the first three, unpaid"][c.chain]), "own_quote_for_this_address": c.own_quote_for_address, "own_quote_content_all_zero": c.own_quote_zero})
}

fn stored_matches(kind: Kind, stored: &[u8], up: &Upload) -> bool {
    // the stored record is the plain (un-paid) form of the uploaded object
    let r = Record { key: up.key.clone(), value: stored.to_vec(), publisher: None, expires: None };
    let want = &up.prior_same;
    match kind {
        Kind::Chunk => stored == want.value.as_slice(),
        Kind::Scratchpad => try_deserialize_record::<Scratchpad>(&r).ok() == try_deserialize_record::<Scratchpad>(want).ok(),
        Kind::Transaction => try_deserialize_record::<Vec<Transaction>>(&r).ok() == try_deserialize_record::<Vec<Transaction>>(want).ok(),
        Kind::Register => try_deserialize_record::<SignedRegister>(&r).ok() == try_deserialize_record::<SignedRegister>(want).ok(),
    }
}

pub fn run_case(run: &Run, stub: &Arc<EvmStub>, c: &Case) {
    let root = fresh_scratch("c03");
    let mut rig = NodeRig::new(SELF, &root, stub.clone());
    rig.add_peers(&TABLE.collect::<Vec<u8>>());
    let up = upload_for(c.kind);
    // prior content arrives through replication (no payment involved)
    stub.set(Chain::Paid);
    match c.prior {
        Prior::Absent | Prior::FailedWrite => {} // (FailedWrite is a prior of the unpaid uploads only)
        Prior::SameVersion => {
            let n = rig.node.clone();
            let r = up.prior_same.clone();
            let _ = rig.run("prior", async move { n.store_replicated_in_record(r).await });
        }
        Prior::OtherVersion => {
            let n = rig.node.clone();
            let r = up.prior_other.clone().expect("other version");
            let _ = rig.run("prior", async move { n.store_replicated_in_record(r).await });
        }
        Prior::OtherKind => {
            let n = rig.node.clone();
            let r = up.prior_other_kind.clone().expect("other kind");
            if r.key != up.key {
                run.machinery_error("C03: the record of another kind does not live under the uploaded object's key");
            }
            let _ = rig.run("prior", async move { n.store_replicated_in_record(r).await });
            if rig.stored(&up.key).is_none() {
                run.machinery_error("C03: the prior record of another kind was not stored");
            }
        }
    }
    let before = rig.stored(&up.key);
    let listed_before = rig.listed();
    let (proof, hashes) = build_proof(c, &up.key);
    match c.chain {
        0 => stub.set(Chain::Paid),
        1 | 6 | 7 => stub.set_unpaid_hashes(&hashes),
        2 => stub.set(Chain::RpcError),
        3 => stub.set(Chain::Http503),
        4 => stub.set(Chain::Http429),
        _ => stub.set(Chain::Hangup),
    }
    let record = (up.with_payment)(&proof);
    let n = rig.node.clone();
    let res = rig.run("upload", async move { n.validate_and_store_record(record).await });
    let after = rig.stored(&up.key);
    let listed_after = rig.listed();
    let desc = describe(c);
    run.case(desc.to_string().as_bytes(), c.faults() > 0 || c.prior != Prior::Absent);
    run.outcome(format!("{:?}/{}", res.as_ref().map(|r| r.is_ok()), after.is_some()).as_bytes());
    let Some(res) = res else {
        run.violation("completes", "blocked", format!("the upload never completed for {desc}"), json!({"case": desc}));
        drop(rig);
        let _ = std::fs::remove_dir_all(&root);
        return;
    };
    let single_fault = |c: &Case| -> &'static str {
        if c.faults() != 1 {
            return "several-conditions-fail";
        }
        if c.sig != 0 {
            "bad-signature"
        } else if !c.self_payee {
            "not-a-payee"
        } else if !c.all_close {
            "stranger-payee"
        } else if c.age != 0 {
            "expired-or-future-quote"
        } else if c.chain != 0 {
            "chain-says-unpaid-or-error"
        } else {
            "own-quote-for-another-address"
        }
    };
    if c.prior == Prior::Absent {
        let stored = after.is_some() && rig.contains(&up.key);
        if c.all_conditions_hold() {
            if !stored || !after.as_ref().map(|a| stored_matches(c.kind, a, &up)).unwrap_or(false) {
                run.violation("valid-payment-stores", "refused", format!("every payment condition holds but nothing (or something else) was stored: result {res:?} for {desc}"), json!({"case": desc}));
            }
            if res.is_err() {
                run.violation("result-matches-effect", "err-but-valid", format!("valid paid upload returned {res:?}"), json!({"case": desc}));
            }
        } else {
            if after.is_some() || listed_after != listed_before {
                run.violation("invalid-payment-stores-nothing", single_fault(c), format!("a payment condition fails yet the data was stored (result {res:?}) for {desc}"), json!({"case": desc}));
            }
            if res.is_ok() {
                run.violation("result-matches-effect", single_fault(c), format!("a payment condition fails yet the upload returned Ok for {desc}"), json!({"case": desc}));
            }
        }
    } else if c.prior == Prior::OtherKind {
        // The node holds a record of another kind under this key. An upload whose payment fails is, at best, an unpaid upload:
        // acceptable only as an update of a mutable record the node already holds — and it holds no record of this kind.
        if !c.all_conditions_hold() {
            if after != before || listed_after != listed_before {
                run.violation("invalid-payment-stores-nothing", "held-record-of-another-kind", format!("a payment condition fails, the key holds a record of another kind, and the store changed (result {res:?}) for {desc}"), json!({"case": desc}));
            }
            if res.is_ok() {
                run.violation("result-matches-effect", "held-record-of-another-kind", format!("a payment condition fails (the key holds a record of another kind) yet the upload returned Ok for {desc}"), json!({"case": desc}));
            }
        }
        if after.is_none() {
            run.violation("held-record-kept", "lost", format!("a held record vanished after an upload for {desc}"), json!({"case": desc}));
        }
    } else {
        // the key was already held: nothing may disappear, and an immutable chunk never changes
        if after.is_none() {
            run.violation("held-record-kept", "lost", format!("a held record vanished after an upload for {desc}"), json!({"case": desc}));
        }
        if c.kind == Kind::Chunk && after != before {
            run.violation("held-record-kept", "chunk-changed", format!("a held chunk changed after an upload for {desc}"), json!({"case": desc}));
        }
    }
    drop(rig);
    let _ = std::fs::remove_dir_all(&root);
}

/// Unpaid uploads: accepted only as updates to mutable records the node already holds.
fn unpaid_cases(run: &Run, stub: &Arc<EvmStub>) {
    for kind in KINDS {
        for prior in [Prior::Absent, Prior::SameVersion, Prior::OtherVersion, Prior::OtherKind, Prior::FailedWrite] {
            let up = upload_for(kind);
            if matches!(prior, Prior::OtherVersion | Prior::FailedWrite) && up.prior_other.is_none() {
                continue;
            }
            if prior == Prior::OtherKind && up.prior_other_kind.is_none() {
                continue;
            }
            let root = fresh_scratch("c03u");
            let mut rig = NodeRig::new(SELF, &root, stub.clone());
            rig.add_peers(&TABLE.collect::<Vec<u8>>());
            match prior {
                Prior::Absent => {}
                Prior::SameVersion => {
                    let (n, r) = (rig.node.clone(), up.prior_same.clone());
                    let _ = rig.run("prior", async move { n.store_replicated_in_record(r).await });
                }
                Prior::OtherVersion => {
                    let (n, r) = (rig.node.clone(), up.prior_other.clone().unwrap());
                    let _ = rig.run("prior", async move { n.store_replicated_in_record(r).await });
                }
                Prior::OtherKind => {
                    let (n, r) = (rig.node.clone(), up.prior_other_kind.clone().unwrap());
                    let _ = rig.run("prior", async move { n.store_replicated_in_record(r).await });
                }
                Prior::FailedWrite => {
                    // a directory squats on the record's file name while the earlier version is written; afterwards the
                    // disk takes writes again
                    let squat = root.join("record_store").join(hex::encode(up.key.as_ref()));
                    std::fs::create_dir_all(&squat).expect("squat");
                    let (n, r) = (rig.node.clone(), up.prior_other.clone().unwrap());
                    let _ = rig.run("prior", async move { n.store_replicated_in_record(r).await });
                    rig.settle();
                    let _ = std::fs::remove_dir(&squat);
                    if squat.exists() {
                        run.machinery_error("C03: the squatting directory could not be removed again");
                    }
                }
            }
            let file_of_key = root.join("record_store").join(hex::encode(up.key.as_ref()));
            let before = rig.stored(&up.key);
            let (n, r) = (rig.node.clone(), up.prior_same.clone());
            let res = rig.run("unpaid", async move { n.validate_and_store_record(r).await });
            let after = rig.stored(&up.key);
            let desc = json!({"unpaid_upload": format!("{kind:?}"), "prior": format!("{prior:?}")});
            run.case(desc.to_string().as_bytes(), true);
            // "held" = the node holds a record of the uploaded kind under the key (a record of another kind is not something this upload can update)
            let held = before.is_some() && !matches!(prior, Prior::OtherKind | Prior::FailedWrite);
            let mutable_updatable = matches!(kind, Kind::Scratchpad | Kind::Register);
            if prior == Prior::OtherKind && after != before {
                run.violation("unpaid-needs-held-record", "replaced-a-record-of-another-kind", format!("an unpaid upload changed what the node holds under a key occupied by a record of another kind: {desc} -> {res:?}"), json!({"case": desc}));
            }
            if prior == Prior::FailedWrite && (matches!(res, Some(Ok(()))) || after.is_some() || file_of_key.exists()) {
                run.violation(
                    "unpaid-needs-held-record",
                    "leftover-of-a-failed-write-counts-as-held",
                    format!("the only earlier version of this address was never written (its disk write failed), yet an unpaid upload was answered {res:?}; readable afterwards: {}, file on disk: {} ({desc})", after.is_some(), file_of_key.exists()),
                    json!({"case": desc}),
                );
            }
            if before.is_none() && after.is_some() {
                run.violation("unpaid-needs-held-record", "stored-new", format!("an unpaid upload created a record: {desc} -> {res:?}"), json!({"case": desc}));
            }
            if !(held && mutable_updatable) && matches!(res, Some(Ok(()))) && after != before {
                run.violation("unpaid-needs-held-record", "changed", format!("an unpaid upload changed the store: {desc}"), json!({"case": desc}));
            }
            if held && mutable_updatable && prior == Prior::OtherVersion && matches!(res, Some(Err(_))) && kind == Kind::Register {
                run.violation("unpaid-update-accepted", "register", format!("an unpaid update of a held register was refused: {res:?}"), json!({"case": desc}));
            }
            drop(rig);
            let _ = std::fs::remove_dir_all(&root);
        }
    }
}

/// Histories of two uploads to one node. The first is fully valid and paid — the contract confirms every quote — and is
/// stored; the record then leaves the store again (pruned: `RemoveFailedLocalRecord`, what an eviction or the clean-up
/// does). The second upload is for the same address and carries *the same own quote* (a quote stays valid for an hour)
/// with exactly one payment condition failing. The address is not held, so this is new data: it must be refused and
/// nothing stored, whatever the node remembers about the first upload. Also: the second upload valid again — stored.
fn upload_histories(run: &Run, stub: &Arc<EvmStub>) -> u64 {
    let mut n = 0u64;
    let valid = |kind: Kind| Case { sig: 0, self_payee: true, all_close: true, far_known: false, age: 0, chain: 0, own_quote_for_address: true, own_quote_zero: false, kind, prior: Prior::Absent, age_on_own: false };
    let seconds: Vec<Case> = cases(true).into_iter().filter(|c| c.prior == Prior::Absent && c.faults() <= 1 && c.kind == Kind::Chunk).collect();
    for kind in KINDS {
        for second in &seconds {
            let mut c2 = second.clone();
            c2.kind = kind;
            if !c2.self_payee || !c2.own_quote_for_address || (c2.age != 0 && c2.age_on_own) {
                continue; // the second proof would not carry the first one's own quote
            }
            n += 1;
            let root = fresh_scratch("c03h");
            let mut rig = NodeRig::new(SELF, &root, stub.clone());
            rig.add_peers(&TABLE.collect::<Vec<u8>>());
            let up = upload_for(kind);
            let now = SystemTime::now();
            let c1 = valid(kind);
            let desc = json!({"history": "valid paid upload, record pruned, second upload for the same address with the same own quote", "second": describe(&c2)});
            run.case(desc.to_string().as_bytes(), true);
            stub.set(Chain::Paid);
            let (p1, _) = build_proof_at(&c1, &up.key, now);
            let r1 = (up.with_payment)(&p1);
            let node = rig.node.clone();
            let res1 = rig.run("upload-1", async move { node.validate_and_store_record(r1).await });
            if !matches!(res1, Some(Ok(_))) || rig.stored(&up.key).is_none() {
                run.violation("valid-payment-stores", "history/first-upload", format!("the first, fully valid upload was not stored ({res1:?}) for {desc}"), json!({"case": desc}));
                continue;
            }
            let _ = rig.d.handle_local(ant_networking::verif_hooks::LocalSwarmCmd::RemoveFailedLocalRecord { key: up.key.clone() });
            rig.settle();
            if rig.stored(&up.key).is_some() || rig.contains(&up.key) {
                run.machinery_error("C03 histories: the record is still held after RemoveFailedLocalRecord");
            }
            let listed_before = rig.listed();
            let (p2, hashes) = build_proof_at(&c2, &up.key, now);
            match c2.chain {
                0 => stub.set(Chain::Paid),
                1 | 6 | 7 => stub.set_unpaid_hashes(&hashes),
                2 => stub.set(Chain::RpcError),
                3 => stub.set(Chain::Http503),
                4 => stub.set(Chain::Http429),
                _ => stub.set(Chain::Hangup),
            }
            let r2 = (up.with_payment)(&p2);
            let node = rig.node.clone();
            let res2 = rig.run("upload-2", async move { node.validate_and_store_record(r2).await });
            let after = rig.stored(&up.key);
            run.outcome(format!("history:{:?}/{}", res2.as_ref().map(|r| r.is_ok()), after.is_some()).as_bytes());
            match res2 {
                None => run.violation("completes", "blocked", format!("the second upload never completed for {desc}"), json!({"case": desc})),
                Some(res2) => {
                    if c2.all_conditions_hold() {
                        if after.is_none() || res2.is_err() {
                            run.violation("valid-payment-stores", "history/second-upload", format!("a second, fully valid upload of a pruned record was refused ({res2:?}) for {desc}"), json!({"case": desc}));
                        }
                    } else if after.is_some() || rig.listed() != listed_before || res2.is_ok() {
                        run.violation("invalid-payment-stores-nothing", "history/own-quote-seen-before", format!("a payment condition fails on the second upload (result {res2:?}, stored: {}) for {desc}", after.is_some()), json!({"case": desc}));
                    }
                }
            }
            drop(rig);
            let _ = std::fs::remove_dir_all(&root);
        }
    }
    n
}


/// Histories in which the node's neighbourhood changes between two uploads: "all payees are peers the node knows as
/// close" is about the routing table *at the time of the upload*. A node that knows few peers (all of them are then
/// among its K closest) takes a first upload — fully valid, naming the ordinary payees or naming the peer `far` —;
/// then it learns the rest of the table, which pushes `far` out of the K closest; a second upload of another kind
/// names `far` as a payee and must be refused. Every ordered pair of kinds, both first uploads, and the second upload
/// also with every other single payment defect on top.
fn neighbourhood_histories(run: &Run, stub: &Arc<EvmStub>) -> u64 {
    let mut n = 0u64;
    let pp = payees();
    let early: Vec<u8> = vec![pp.p2, pp.p3, pp.p4, pp.p5, pp.p6, pp.far];
    let late: Vec<u8> = TABLE.filter(|id| !early.contains(id)).collect();
    for k1 in KINDS {
        for k2 in KINDS {
            if k1 == k2 {
                continue;
            }
            for first_names_far in [false, true] {
                n += 1;
                let root = fresh_scratch("c03n");
                let mut rig = NodeRig::new(SELF, &root, stub.clone());
                rig.add_peers(&early);
                let close0 = rig.d.driver.verif_closest_k_value_local_peers();
                if !close0.contains(&rigs::fixtures::peer_id(pp.far)) {
                    run.machinery_error("C03 neighbourhood histories: on a node knowing six peers one of them is not among its K closest");
                }
                let now = SystemTime::now();
                let desc = json!({"history": "first upload on a node that knows six peers, the node then learns 38 more, second upload names a payee that is no longer among the K closest", "first_kind": format!("{k1:?}"), "first_names_that_payee": first_names_far, "second_kind": format!("{k2:?}")});
                run.case(desc.to_string().as_bytes(), true);
                let c1 = Case { sig: 0, self_payee: true, all_close: !first_names_far, far_known: first_names_far, age: 0, chain: 0, own_quote_for_address: true, own_quote_zero: false, kind: k1, prior: Prior::Absent, age_on_own: false };
                let up1 = upload_for(k1);
                stub.set(Chain::Paid);
                let (p1, _) = build_proof_at(&c1, &up1.key, now);
                let r1 = (up1.with_payment)(&p1);
                let node = rig.node.clone();
                let res1 = rig.run("upload-1", async move { node.validate_and_store_record(r1).await });
                if !matches!(res1, Some(Ok(_))) || rig.stored(&up1.key).is_none() {
                    run.violation("valid-payment-stores", "neighbourhood/first-upload", format!("an upload whose payees are all among the node's K closest was not stored ({res1:?}) for {desc}"), json!({"case": desc}));
                    continue;
                }
                // the node learns more peers
                rig.add_peers(&late);
                rig.settle();
                let close1 = rig.d.driver.verif_closest_k_value_local_peers();
                if close1.contains(&rigs::fixtures::peer_id(pp.far)) {
                    run.count("neighbourhood_histories_where_the_payee_stayed_close", 1);
                    drop(rig);
                    let _ = std::fs::remove_dir_all(&root);
                    continue;
                }
                let listed_before = rig.listed();
                let c2 = Case { sig: 0, self_payee: true, all_close: false, far_known: true, age: 0, chain: 0, own_quote_for_address: true, own_quote_zero: false, kind: k2, prior: Prior::Absent, age_on_own: false };
                let up2 = upload_for(k2);
                let (p2, _) = build_proof_at(&c2, &up2.key, now);
                let r2 = (up2.with_payment)(&p2);
                let node = rig.node.clone();
                let res2 = rig.run("upload-2", async move { node.validate_and_store_record(r2).await });
                let after = rig.stored(&up2.key);
                run.outcome(format!("neighbourhood:{:?}/{}", res2.as_ref().map(|r| r.is_ok()), after.is_some()).as_bytes());
                match res2 {
                    None => run.violation("completes", "blocked", format!("the second upload never completed for {desc}"), json!({"case": desc})),
                    Some(res2) => {
                        if after.is_some() || rig.listed() != listed_before || res2.is_ok() {
                            run.violation("invalid-payment-stores-nothing", "neighbourhood/payee-no-longer-close", format!("a payee of the second upload is known but no longer among the K closest (result {res2:?}, stored: {}) for {desc}", after.is_some()), json!({"case": desc}));
                        }
                    }
                }
                // and the other way round: payees that are close now are accepted now
                let k3 = KINDS.into_iter().find(|k| *k != k1 && *k != k2).unwrap();
                let c3 = Case { sig: 0, self_payee: true, all_close: true, far_known: false, age: 0, chain: 0, own_quote_for_address: true, own_quote_zero: false, kind: k3, prior: Prior::Absent, age_on_own: false };
                let up3 = upload_for(k3);
                let (p3, _) = build_proof_at(&c3, &up3.key, now);
                let r3 = (up3.with_payment)(&p3);
                let node = rig.node.clone();
                let res3 = rig.run("upload-3", async move { node.validate_and_store_record(r3).await });
                if !matches!(res3, Some(Ok(_))) || rig.stored(&up3.key).is_none() {
                    run.violation("valid-payment-stores", "neighbourhood/third-upload", format!("after the table grew, a fully valid upload naming payees among the K closest was not stored ({res3:?}) for {desc}"), json!({"case": desc}));
                }
                drop(rig);
                let _ = std::fs::remove_dir_all(&root);
            }
        }
    }
    n
}

pub fn cases(quick: bool) -> Vec<Case> {
    let mut v = vec![];
    enumerate::product(&[4, 2, 3, 3, 8, 3, 4, 4, 2], |ix| {
        let c = Case { sig: ix[0], self_payee: ix[1] == 0, all_close: ix[2] == 0, far_known: ix[2] == 2, age: ix[3], chain: ix[4], own_quote_for_address: ix[5] == 0, own_quote_zero: ix[5] == 2, kind: KINDS[ix[6]], prior: [Prior::Absent, Prior::SameVersion, Prior::OtherVersion, Prior::OtherKind][ix[7]], age_on_own: ix[8] == 1 };
        if c.age == 0 && c.age_on_own {
            return; // no age defect: the placement flag is irrelevant
        }
        if c.age_on_own && !c.self_payee {
            return;
        }
        if c.prior == Prior::OtherVersion && c.kind == Kind::Chunk {
            return;
        }
        if c.prior == Prior::OtherKind && !matches!(c.kind, Kind::Scratchpad | Kind::Transaction) {
            return;
        }
        if quick {
            // full product for chunks with no prior content; every single and double fault for the rest
            let full = c.kind == Kind::Chunk && c.prior == Prior::Absent;
            if !full && c.faults() > 2 {
                return;
            }
            if c.prior != Prior::Absent && c.faults() > 1 {
                return;
            }
        }
        v.push(c);
    });
    v
}

pub fn main(tier: Option<&str>) {
    let run = Run::new("C03", "model_checking", tier);
    run.rule(
        "product of six payment conditions (signatures 4 (incl. a payee listed twice with a forged first quote) x self-payee 2 x closeness 3 (all close / a stranger / a routing-table peer outside the K closest, on a node that knows 44 peers) x age 3 (on another payee's or on the own quote) x \
         chain answer 8 (paid, this node's quote unpaid, JSON-RPC error, HTTP 503 / 429 / connection closed on every attempt, another payee's quote unpaid while this node's is paid, a five-quote proof of whose first three quotes — none this node's — the contract reports: unpaid) x quoted address 3 (this address, another address, the all-zero content)) x kind 4 x prior content 4 (nothing, the same version, another version, a record of another kind under the same key — scratchpad and transaction of one owner); quick = full product for chunks on an empty store + every single \
         and double fault for the other kinds + single faults on held keys, thorough = full product. Each case runs the real \
         Node::validate_and_store_record on a fresh real SwarmDriver under the default (FIFO) schedule to quiescence, the payment \
         contract answered by a loopback JSON-RPC stub. Plus every unpaid kind x prior content, and histories of two uploads for one address (valid and stored, record pruned, \
         then every single failing condition with the same own quote) per kind, and histories in which the routing table grows between two uploads (a payee among the K closest of a node that knows six peers is no longer after it learned 38 more; every ordered pair of kinds). Non-trivial = at least one condition \
         fails or the key is already held.",
    );
    run.assume("sequential check: one upload at a time under the FIFO schedule (overlapping uploads are C07's subject)");
    run.assume("quote ages are placed >= 30 s away from the expiry thresholds; the contract is a stub answering per quote hash");
    let cs = cases(run.quick());
    let total = cs.len();
    let next = AtomicUsize::new(0);
    std::thread::scope(|sc| {
        for _ in 0..mc_core::workers().min(12) {
            sc.spawn(|| {
                let stub = Arc::new(EvmStub::start());
                loop {
                    let i = next.fetch_add(1, Ordering::Relaxed);
                    if i >= total {
                        break;
                    }
                    run_case(&run, &stub, &cs[i]);
                }
            });
        }
    });
    let stub = Arc::new(EvmStub::start());
    unpaid_cases(&run, &stub);
    let histories = upload_histories(&run, &stub);
    run.extra("two_upload_histories", json!(histories));
    let nh = neighbourhood_histories(&run, &stub);
    run.extra("neighbourhood_histories", json!(nh));
    run.count("states", total as u64);
    run.count("transitions", total as u64);
    run.count("traces_validated_against_impl", total as u64);
    run.sample(describe(&cs[0]));
    run.sample(describe(&cs[cs.len() / 2]));
    run.sample(describe(&cs[cs.len() - 1]));
    run.finish();
}
