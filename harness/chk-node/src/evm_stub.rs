//! A payment-contract stand-in: a JSON-RPC endpoint over loopback TCP that the unmodified
//! `verify_data_payment` reaches through `EvmNetwork::Custom`. It ABI-decodes
//! `verifyPayment(PaymentVerification[])` by hand (each element is 8 static words; the quote hash is
//! the last) and answers per a table keyed by quote hash.
use std::collections::HashMap;
use std::io::{Read, Write};
use std::net::{TcpListener, TcpStream};
use std::sync::atomic::{AtomicBool, AtomicU64, Ordering};
use std::sync::{Arc, Mutex};
use std::time::Instant;

#[derive(Clone, Copy, Debug, PartialEq, Eq)]
pub enum Chain {
    /// every quote of the request is reported valid and paid
    Paid,
    /// the listed quote hashes (or, with an empty table, the first of every request) are reported unpaid
    Unpaid,
    /// the endpoint answers with a JSON-RPC error
    RpcError,
    /// transport-level failures, on every attempt: HTTP 503 / HTTP 429 / connection closed without an answer
    Http503,
    Http429,
    Hangup,
}

pub struct EvmStub {
    pub url: String,
    mode: Arc<Mutex<Chain>>,
    unpaid: Arc<Mutex<HashMap<[u8; 32], bool>>>,
    pub calls: Arc<AtomicU64>,
    pub last_activity: Arc<Mutex<Instant>>,
    stop: Arc<AtomicBool>,
    pub log: Arc<Mutex<Vec<String>>>,
}

fn respond_status(stream: &mut TcpStream, code: u16, reason: &str) {
    let body = format!("{code} {reason}");
    let resp = format!("HTTP/1.1 {code} {reason}\r\ncontent-type: text/plain\r\ncontent-length: {}\r\nconnection: keep-alive\r\n\r\n{}", body.len(), body);
    let _ = stream.write_all(resp.as_bytes());
}

fn respond(stream: &mut TcpStream, body: &str) {
    let resp = format!("HTTP/1.1 200 OK\r\ncontent-type: application/json\r\ncontent-length: {}\r\nconnection: keep-alive\r\n\r\n{}", body.len(), body);
    let _ = stream.write_all(resp.as_bytes());
}

/// A read that only ends with data, end of stream, a real error, or the rig going away: the socket's read timeout is
/// there to look at the stop flag, never to give up on a request (on a loaded machine the client may take longer than
/// any fixed grace period between two writes of one request; dropping the connection then looked like a transport
/// failure of the payment check to the code under test).
fn patient_read(stream: &mut TcpStream, tmp: &mut [u8], stop: &AtomicBool) -> Option<usize> {
    loop {
        match stream.read(tmp) {
            Ok(n) => return Some(n),
            Err(e) if matches!(e.kind(), std::io::ErrorKind::WouldBlock | std::io::ErrorKind::TimedOut | std::io::ErrorKind::Interrupted) => {
                if stop.load(Ordering::Relaxed) {
                    return None;
                }
            }
            Err(_) => return None,
        }
    }
}

fn read_request(stream: &mut TcpStream, stop: &AtomicBool) -> Option<String> {
    let mut buf = Vec::new();
    let mut tmp = [0u8; 4096];
    loop {
        // headers complete?
        if let Some(pos) = buf.windows(4).position(|w| w == b"\r\n\r\n") {
            let head = String::from_utf8_lossy(&buf[..pos]).to_lowercase();
            let len = head.lines().find_map(|l| l.strip_prefix("content-length:").map(|v| v.trim().parse::<usize>().unwrap_or(0))).unwrap_or(0);
            while buf.len() < pos + 4 + len {
                let n = patient_read(stream, &mut tmp, stop)?;
                if n == 0 {
                    return None;
                }
                buf.extend_from_slice(&tmp[..n]);
            }
            return Some(String::from_utf8_lossy(&buf[pos + 4..pos + 4 + len]).to_string());
        }
        let n = patient_read(stream, &mut tmp, stop)?;
        if n == 0 {
            return None;
        }
        buf.extend_from_slice(&tmp[..n]);
    }
}

impl EvmStub {
    pub fn start() -> EvmStub {
        let listener = TcpListener::bind("127.0.0.1:0").expect("bind stub");
        let port = listener.local_addr().unwrap().port();
        listener.set_nonblocking(true).unwrap();
        let mode = Arc::new(Mutex::new(Chain::Paid));
        let unpaid: Arc<Mutex<HashMap<[u8; 32], bool>>> = Arc::new(Mutex::new(HashMap::new()));
        let calls = Arc::new(AtomicU64::new(0));
        let stop = Arc::new(AtomicBool::new(false));
        let log = Arc::new(Mutex::new(vec![]));
        let last_activity = Arc::new(Mutex::new(Instant::now()));
        let (m2, u2, c2, s2, l2, a2) = (mode.clone(), unpaid.clone(), calls.clone(), stop.clone(), log.clone(), last_activity.clone());
        std::thread::spawn(move || {
            while !s2.load(Ordering::Relaxed) {
                match listener.accept() {
                    Ok((mut stream, _)) => {
                        let _ = stream.set_nonblocking(false);
                        let _ = stream.set_read_timeout(Some(std::time::Duration::from_millis(200)));
                        let (m3, u3, c3, l3, a3, s3) = (m2.clone(), u2.clone(), c2.clone(), l2.clone(), a2.clone(), s2.clone());
                        std::thread::spawn(move || {
                            while let Some(body) = read_request(&mut stream, &s3) {
                                *a3.lock().unwrap() = Instant::now();
                                let v: serde_json::Value = serde_json::from_str(&body).unwrap_or(serde_json::Value::Null);
                                // transport-level failure modes apply to the payment verification call only
                                let is_call = |r: &serde_json::Value| r["method"].as_str() == Some("eth_call");
                                let has_call = v.as_array().map(|a| a.iter().any(is_call)).unwrap_or_else(|| is_call(&v));
                                if has_call {
                                    let mode = *m3.lock().unwrap();
                                    match mode {
                                        Chain::Http503 | Chain::Http429 => {
                                            c3.fetch_add(1, Ordering::Relaxed);
                                            if mode == Chain::Http503 {
                                                respond_status(&mut stream, 503, "Service Unavailable");
                                            } else {
                                                respond_status(&mut stream, 429, "Too Many Requests");
                                            }
                                            *a3.lock().unwrap() = Instant::now();
                                            continue;
                                        }
                                        Chain::Hangup => {
                                            c3.fetch_add(1, Ordering::Relaxed);
                                            *a3.lock().unwrap() = Instant::now();
                                            let _ = stream.shutdown(std::net::Shutdown::Both);
                                            break;
                                        }
                                        _ => {}
                                    }
                                }
                                let answer = |req: &serde_json::Value| -> serde_json::Value {
                                    let id = req["id"].clone();
                                    let method = req["method"].as_str().unwrap_or("");
                                    l3.lock().unwrap().push(method.to_string());
                                    match method {
                                        "eth_chainId" => serde_json::json!({"jsonrpc":"2.0","id":id,"result":"0x539"}),
                                        "eth_blockNumber" => serde_json::json!({"jsonrpc":"2.0","id":id,"result":"0x1"}),
                                        "eth_call" => {
                                            c3.fetch_add(1, Ordering::Relaxed);
                                            let mode = *m3.lock().unwrap();
                                            if mode == Chain::RpcError {
                                                return serde_json::json!({"jsonrpc":"2.0","id":id,"error":{"code":-32000,"message":"stub: node unavailable"}});
                                            }
                                            let data = req["params"][0]["input"].as_str().or(req["params"][0]["data"].as_str()).unwrap_or("0x");
                                            let bytes = hex::decode(data.trim_start_matches("0x")).unwrap_or_default();
                                            // selector(4) | offset(32) | len(32) | len * 8 words
                                            let mut hashes: Vec<[u8; 32]> = vec![];
                                            if bytes.len() >= 68 {
                                                let n = u64::from_be_bytes(bytes[60..68].try_into().unwrap()) as usize;
                                                for i in 0..n {
                                                    let start = 68 + i * 256 + 224;
                                                    if bytes.len() >= start + 32 {
                                                        hashes.push(bytes[start..start + 32].try_into().unwrap());
                                                    }
                                                }
                                            }
                                            let table = u3.lock().unwrap();
                                            let mut out = Vec::with_capacity(288);
                                            for i in 0..3 {
                                                let h = hashes.get(i).cloned().unwrap_or([0u8; 32]);
                                                let unpaid = match mode {
                                                    Chain::Unpaid => table.is_empty() && i == 0 || table.contains_key(&h),
                                                    _ => false,
                                                };
                                                out.extend_from_slice(&h);
                                                let mut amount = [0u8; 32];
                                                amount[31] = if unpaid { 0 } else { 7 };
                                                out.extend_from_slice(&amount);
                                                let mut valid = [0u8; 32];
                                                valid[31] = if unpaid { 0 } else { 1 };
                                                out.extend_from_slice(&valid);
                                            }
                                            serde_json::json!({"jsonrpc":"2.0","id":id,"result":format!("0x{}", hex::encode(out))})
                                        }
                                        _ => serde_json::json!({"jsonrpc":"2.0","id":id,"result":"0x0"}),
                                    }
                                };
                                let out = if let Some(arr) = v.as_array() { serde_json::Value::Array(arr.iter().map(answer).collect()) } else { answer(&v) };
                                respond(&mut stream, &out.to_string());
                                *a3.lock().unwrap() = Instant::now();
                            }
                        });
                    }
                    Err(_) => std::thread::sleep(std::time::Duration::from_micros(300)),
                }
            }
        });
        EvmStub { url: format!("http://127.0.0.1:{port}"), mode, unpaid, calls, last_activity, stop, log }
    }

    pub fn set(&self, c: Chain) {
        *self.mode.lock().unwrap() = c;
        self.unpaid.lock().unwrap().clear();
    }
    pub fn set_unpaid_hashes(&self, hashes: &[[u8; 32]]) {
        *self.mode.lock().unwrap() = Chain::Unpaid;
        let mut t = self.unpaid.lock().unwrap();
        t.clear();
        for h in hashes {
            t.insert(*h, true);
        }
    }
    pub fn network(&self) -> ant_evm::EvmNetwork {
        ant_evm::EvmNetwork::new_custom(&self.url, "0x5FbDB2315678afecb367f032d93F642f64180aa3", "0x8464135c8F25Da09e49BC8782676a84730C318bC")
    }
    pub fn idle_for(&self) -> std::time::Duration {
        self.last_activity.lock().unwrap().elapsed()
    }
}

impl Drop for EvmStub {
    fn drop(&mut self) {
        self.stop.store(true, Ordering::Relaxed);
    }
}
