//! C08 — replication fetching is bounded, duplicate-free, in-range and makes progress.
//! Explicit-state BFS (clone mode) on the real `ReplicationFetcher` (through the hook wrapper):
//! Advertise / Arrive / EarlyComplete / SetRange / NodeFull / Age / Tick over a ranked key
//! universe and three holders. Bounded liveness is checked from every reachable state by running
//! the fair continuation (holder re-advertises, in-flight fetches arrive).
use ant_evm::U256;
use ant_networking::verif_hooks::VerifFetcher;
use ant_networking::NetworkEvent;
use ant_protocol::storage::RecordType;
use ant_protocol::NetworkAddress;
use libp2p::kad::RecordKey;
use libp2p::PeerId;
use mc_core::bfs::{bfs_clone, BfsOpts, Fail, System};
use mc_core::Run;
use rigs::reference::xor_distance;
use std::collections::{BTreeSet, HashMap};
use std::sync::Arc;
use std::time::Duration;
use tokio::sync::mpsc;
use xor_name::XorName;

const MAX_PARALLEL: usize = 20; // K_VALUE, pinned from the statement's "parallel-fetch limit" of this code base
const FETCH_TIMEOUT_S: u64 = 21;
const PENDING_TIMEOUT_S: u64 = 901;

struct Uni {
    me: PeerId,
    keys: Vec<RecordKey>,
    /// U256 distance of each key from `me` by the independent metric (ascending with index)
    dist: Vec<U256>,
    holders: Vec<PeerId>,
    /// record types per key: most keys have one (Chunk); key 2 exists in two NonChunk versions
    types: Vec<Vec<RecordType>>,
    /// multi-key advertisement lists per holder: (key index, type index)
    lists: Vec<Vec<Vec<(usize, usize)>>>,
    /// range values strictly between rank g-1 and g
    ranges: Vec<U256>,
}

fn build_universe(n: usize, salt: &str, bulk: bool) -> Uni {
    let me = rigs::fixtures::peer_id(1);
    let meb = NetworkAddress::from_peer(me).as_bytes();
    let keys = crate::store_rig::ranked_keys(me, n, salt);
    let dist: Vec<U256> = keys.iter().map(|k| U256::from_be_bytes(xor_distance(&meb, k.as_ref()))).collect();
    let holders = vec![rigs::fixtures::peer_id(2), rigs::fixtures::peer_id(3), rigs::fixtures::peer_id(4)];
    let types: Vec<Vec<RecordType>> = (0..n)
        .map(|i| if i == 2 && !bulk { vec![RecordType::NonChunk(XorName([1; 32])), RecordType::NonChunk(XorName([2; 32]))] } else { vec![RecordType::Chunk] })
        .collect();
    let lists = if bulk {
        vec![
            vec![(0..n).map(|i| (i, 0)).collect(), (0..n / 2).map(|i| (i, 0)).collect()],
            vec![(0..n).rev().map(|i| (i, 0)).collect()],
            vec![(n / 2..n).map(|i| (i, 0)).collect()],
        ]
    } else {
        vec![
            vec![vec![(0, 0), (3, 0), (5, 0)], vec![(1, 0), (2, 0)], vec![(4, 0), (5, 0), (2, 1)]],
            vec![vec![(0, 0), (1, 0), (2, 1), (4, 0)], vec![(5, 0), (3, 0)]],
            vec![vec![(2, 0), (2, 1)], vec![(1, 0), (5, 0)]],
        ]
    };
    let mut ranges = vec![];
    for g in 0..=n {
        let lo = if g == 0 { U256::ZERO } else { dist[g - 1] };
        let hi = if g == n { U256::MAX } else { dist[g] };
        ranges.push(lo + (hi - lo) / U256::from(2u8));
    }
    Uni { me, keys, dist, holders, types, lists, ranges }
}

#[derive(Clone, Debug)]
pub enum Act {
    /// a single-key advertisement
    AdvertiseOne { h: usize, k: usize, t: usize },
    /// one of the holder's fixed multi-key lists
    AdvertiseList { h: usize, l: usize },
    /// the record arrives and is stored locally with this type (cmd.rs: notify_about_new_put, then held)
    Arrive { k: usize, t: usize },
    EarlyComplete { k: usize, t: usize },
    SetRange { gap: usize },
    NodeFull { farthest: usize },
    Age { secs: u64 },
    Tick,
}

pub struct Sys {
    u: Arc<Uni>,
    f: VerifFetcher,
    /// what the node holds: key -> type index
    held: HashMap<usize, usize>,
    range_gap: Option<usize>,
    /// tightest farthest reported by NodeFull (key index)
    full_farthest: Option<usize>,
    /// aging applied since each queue/in-flight entry was created, kept exact because time moves only through Age steps
    age_pending: HashMap<(usize, usize, usize), u64>,
    age_inflight: HashMap<(usize, usize), (usize, u64)>,
    /// the responsible range that was in force when each queued entry entered the queue
    queued_under: HashMap<(usize, usize, usize), Option<usize>>,
    /// holders reported as failed so far (from FailedToFetchHolders events)
    rx: std::sync::Mutex<mpsc::Receiver<NetworkEvent>>,
    bulk: bool,
    liveness: bool,
    /// wall-clock instant at which this object's fetcher was last brought up to date (see `freeze_time`)
    touched: std::time::Instant,
}

impl Clone for Sys {
    fn clone(&self) -> Sys {
        // every copy gets its own event channel, so copies explored in parallel never see each other's events
        let (tx, rx) = mpsc::channel(100_000);
        Sys {
            u: self.u.clone(),
            f: self.f.clone_with_event_sender(tx),
            held: self.held.clone(),
            range_gap: self.range_gap,
            full_farthest: self.full_farthest,
            age_pending: self.age_pending.clone(),
            age_inflight: self.age_inflight.clone(),
            queued_under: self.queued_under.clone(),
            rx: std::sync::Mutex::new(rx),
            bulk: self.bulk,
            liveness: self.liveness,
            touched: self.touched,
        }
    }
}

/// Run `f` with a tokio context and the spawn sink installed; the event-sending futures the
/// fetcher spawns are polled to completion right away (they only push into this copy's channel).
pub(crate) fn with_ctx<R>(f: impl FnOnce() -> R) -> R {
    thread_local! {
        static RT: tokio::runtime::Runtime = tokio::runtime::Builder::new_current_thread().build().expect("runtime");
    }
    RT.with(|rt| {
        let _g = rt.enter();
        ant_networking::verif_hooks::install_spawn_sink();
        let r = f();
        let waker = futures::task::noop_waker();
        let mut cx = std::task::Context::from_waker(&waker);
        for mut t in ant_networking::verif_hooks::take_spawned() {
            let _ = t.fut.as_mut().poll(&mut cx);
        }
        let _ = ant_networking::verif_hooks::remove_spawn_sink();
        r
    })
}

fn addr(k: &RecordKey) -> NetworkAddress {
    NetworkAddress::from_record_key(k)
}

impl Sys {
    fn new(u: Arc<Uni>, bulk: bool) -> Sys {
        let (tx, rx) = mpsc::channel(100_000);
        let f = VerifFetcher::new(u.me, tx);
        Sys { u, f, held: HashMap::new(), range_gap: None, full_farthest: None, age_pending: HashMap::new(), age_inflight: HashMap::new(), queued_under: HashMap::new(), rx: std::sync::Mutex::new(rx), bulk, liveness: true, touched: std::time::Instant::now() }
    }
    /// The fetcher stores real `Instant` deadlines, and a copy may sit in the search frontier for longer than the
    /// 20 s fetch timeout of wall-clock time. Model time moves only through `Age` steps: whatever wall-clock time
    /// passed since this object was last touched is added back to every deadline before anything else happens.
    fn freeze_time(&mut self) {
        let dt = self.touched.elapsed();
        self.f.unage(dt);
        self.touched = std::time::Instant::now();
    }
    fn kidx(&self, k: &RecordKey) -> usize {
        self.u.keys.iter().position(|x| x == k).expect("key of the universe")
    }
    fn tidx(&self, k: usize, t: &RecordType) -> usize {
        self.u.types[k].iter().position(|x| x == t).expect("type of the universe")
    }
    fn hidx(&self, h: &PeerId) -> usize {
        self.u.holders.iter().position(|x| x == h).expect("holder of the universe")
    }
    fn held_map(&self) -> HashMap<RecordKey, (NetworkAddress, RecordType)> {
        self.held.iter().map(|(k, t)| (self.u.keys[*k].clone(), (addr(&self.u.keys[*k]), self.u.types[*k][*t].clone()))).collect()
    }
    fn inflight(&self) -> BTreeSet<(usize, usize, usize)> {
        self.f.on_going_fetches().into_iter().map(|(k, t, h, _)| { let ki = self.kidx(&k); (ki, self.tidx(ki, &t), self.hidx(&h)) }).collect()
    }
    fn pending(&self) -> BTreeSet<(usize, usize, usize)> {
        self.f.to_be_fetched().into_iter().map(|(k, t, h, _)| { let ki = self.kidx(&k); (ki, self.tidx(ki, &t), self.hidx(&h)) }).collect()
    }
    fn drain_failed_holders(&self) -> BTreeSet<usize> {
        let mut out = BTreeSet::new();
        let mut rx = self.rx.lock().unwrap();
        while let Ok(e) = rx.try_recv() {
            if let NetworkEvent::FailedToFetchHolders(hs) = e {
                for h in hs {
                    out.insert(self.hidx(&h));
                }
            }
        }
        out
    }

    /// Judge one batch of issued fetches `(holder, key)` produced by `call`.
#[allow(clippy::too_many_arguments)]
    fn judge_issued(&self, issued: &[(PeerId, RecordKey)], before_inflight: &BTreeSet<(usize, usize, usize)>, queued_before: &BTreeSet<(usize, usize, usize)>, via_multi_list: Option<&[(usize, usize)]>, batch: bool, fails: &mut Vec<Fail>) {
        let after_inflight = self.inflight();
        for (h, k) in issued {
            let ki = self.kidx(k);
            let hi = self.hidx(h);
            // which (key,type) entries newly went in flight for this key and holder
            let new_entries: Vec<&(usize, usize, usize)> = after_inflight.iter().filter(|e| e.0 == ki && e.2 == hi && !before_inflight.contains(e)).collect();
            if new_entries.is_empty() {
                fails.push(Fail::new("issued-is-tracked", "plain", format!("fetch of k{ki} from h{hi} was issued but no in-flight entry was created")));
            }
            for e in &new_entries {
                // never for a (key,type) held
                if self.held.get(&ki) == Some(&e.1) {
                    fails.push(Fail::new("not-held", "plain", format!("fetch issued for k{ki} (type {}) which the node already holds", e.1)));
                }
                // no (key,type) issued while already in flight
                if before_inflight.iter().any(|b| b.0 == ki && b.1 == e.1) {
                    fails.push(Fail::new("no-duplicate-fetch", "plain", format!("k{ki} type {} issued while a fetch of the same record version was in flight", e.1)));
                }
            }
            // after NodeFull nothing farther than the reported farthest
            if let Some(far) = self.full_farthest {
                if ki > far {
                    fails.push(Fail::new("not-beyond-farthest-when-full", "plain", format!("k{ki} issued although the node is full and its farthest held record is k{far}")));
                }
            }
            // keys taken from a multi-key list must be within the responsible range: for a key issued
            // straight from the list being processed that is the current range, for a key issued from the
            // queue it is the range that was in force when the multi-key list queued it
            let from_queue: Option<Option<usize>> = new_entries.iter().find_map(|e| queued_before.contains(e).then(|| self.queued_under.get(*e).cloned().unwrap_or(None)));
            if let (Some(Some(gap)), None) = (from_queue, via_multi_list) {
                if ki >= gap {
                    fails.push(Fail::new("in-range-from-multi-key-list", "issued-from-queue", format!("k{ki} was queued from a multi-key list under range gap {gap} and is outside it")));
                }
            }
            if let (Some(list), Some(gap)) = (via_multi_list, if from_queue.is_some() { from_queue.unwrap() } else { self.range_gap }) {
                if list.iter().any(|(lk, _)| *lk == ki) && ki >= gap {
                    // entries of the list that are new to the node: not held in any version, not already queued from this holder
                    let effective_new = list.iter().filter(|(lk, lt)| !self.held.contains_key(lk) && !queued_before.contains(&(*lk, *lt, hi)) && self.full_farthest.map(|f| *lk <= f).unwrap_or(true)).count();
                    let trig = if list.len() > 1 && effective_new == 1 { "single-new-key-in-multi-key-list" } else { "plain" };
                    fails.push(Fail::new("in-range-from-multi-key-list", trig, format!("k{ki} taken from a {}-key list is outside the responsible range (gap {gap})", list.len())));
                }
            }
        }
        // batch scheduling never raises in-flight above the limit
        if batch && after_inflight.len() > MAX_PARALLEL && after_inflight.len() > before_inflight.len() {
            fails.push(Fail::new("parallel-limit", "plain", format!("{} fetches in flight after batch scheduling (limit {MAX_PARALLEL})", after_inflight.len())));
        }
    }

    /// closest first: within a batch nothing eligible and nearer is left queued while a farther one was issued
    fn judge_closest_first(&self, issued: &[(PeerId, RecordKey)], fails: &mut Vec<Fail>) {
        if issued.is_empty() {
            return;
        }
        let far_issued = issued.iter().map(|(_, k)| self.kidx(k)).max().unwrap();
        let inflight = self.inflight();
        for (k, t, _h) in self.pending() {
            let eligible = !inflight.iter().any(|e| e.0 == k && e.1 == t);
            if eligible && k < far_issued && inflight.len() >= MAX_PARALLEL {
                fails.push(Fail::new("closest-first", "plain", format!("k{k} is nearer than issued k{far_issued}, eligible, and still queued with the fetcher at its limit")));
            }
            if eligible && inflight.len() < MAX_PARALLEL {
                fails.push(Fail::new("closest-first", "left-queued-with-capacity", format!("k{k} type {t} is eligible and queued although only {} fetches are in flight", inflight.len())));
            }
        }
    }

    fn after_any(&mut self, fails: &mut Vec<Fail>) {
        // a timed-out holder is reported and none of its queued entries remain
        let failed = self.drain_failed_holders();
        let pend = self.pending();
        for h in &failed {
            if pend.iter().any(|e| e.2 == *h) {
                fails.push(Fail::new("timed-out-holder-dropped", "plain", format!("h{h} was reported as failed but still has queued entries")));
            }
        }
        // resynchronise the exact ages with what the fetcher still tracks
        let inflight = self.inflight();
        self.age_inflight.retain(|(k, t), (h, _)| inflight.contains(&(*k, *t, *h)));
        for e in &inflight {
            self.age_inflight.entry((e.0, e.1)).or_insert((e.2, 0));
        }
        self.queued_under.retain(|k, _| pend.contains(k));
        for e in &pend {
            let gap = self.range_gap;
            self.queued_under.entry(*e).or_insert(gap);
        }
        self.age_pending.retain(|k, _| pend.contains(k));
        for e in &pend {
            self.age_pending.entry(*e).or_insert(0);
        }
        // every in-flight entry older than the fetch timeout must have been pruned by any call that schedules
        // (checked after Tick/advertise/arrive, all of which prune)
    }

    /// Bounded liveness from this state: under the fair continuation {every holder re-advertises
    /// its lists, in-flight fetches arrive} an in-range, not-held, not-beyond-farthest advertised
    /// key is issued within `rounds` rounds.
    fn check_liveness(&self, fails: &mut Vec<Fail>) {
        let mut s = self.clone();
        s.liveness = false;
        let rounds = 4;
        // targets: advertised by some list, in range, not held (any type), not beyond farthest
        let mut wanted: BTreeSet<(usize, usize)> = BTreeSet::new();
        for hl in &self.u.lists {
            for l in hl {
                for (k, t) in l {
                    let in_range = self.range_gap.map(|g| *k < g).unwrap_or(true);
                    let not_far = self.full_farthest.map(|f| *k <= f).unwrap_or(true);
                    if in_range && not_far && !self.held.contains_key(k) {
                        wanted.insert((*k, *t));
                    }
                }
            }
        }
        let mut fetched: BTreeSet<(usize, usize)> = s.inflight().iter().map(|e| (e.0, e.1)).collect();
        let mut sink = vec![];
        for _ in 0..rounds {
            for h in 0..self.u.holders.len() {
                for l in 0..self.u.lists[h].len() {
                    s.step(&Act::AdvertiseList { h, l }, &mut sink);
                    fetched.extend(s.inflight().iter().map(|e| (e.0, e.1)));
                }
            }
            let arriving: Vec<(usize, usize, usize)> = s.inflight().into_iter().collect();
            for (k, t, _) in arriving {
                s.step(&Act::Arrive { k, t }, &mut sink);
                fetched.extend(s.inflight().iter().map(|e| (e.0, e.1)));
            }
        }
        for (k, t) in wanted {
            // a key arriving in one version is held; other versions of a held key are out of this clause
            if !fetched.contains(&(k, t)) && !s.held.contains_key(&k) {
                fails.push(Fail::new("progress", "plain", format!("k{k} type {t} is in range, not held and advertised every round, but was not fetched within {rounds} rounds")));
            }
        }
    }
}

impl System for Sys {
    type Action = Act;
    fn actions(&self) -> Vec<Act> {
        let mut v = vec![Act::Tick];
        let n = self.u.keys.len();
        if !self.bulk {
            for h in 0..self.u.holders.len() {
                for k in 0..n {
                    for t in 0..self.u.types[k].len() {
                        if h == 0 || k % 2 == h % 2 {
                            v.push(Act::AdvertiseOne { h, k, t });
                        }
                    }
                }
            }
        }
        for h in 0..self.u.holders.len() {
            for l in 0..self.u.lists[h].len() {
                v.push(Act::AdvertiseList { h, l });
            }
        }
        let inflight = self.inflight();
        let mut arrivals: BTreeSet<(usize, usize)> = inflight.iter().map(|e| (e.0, e.1)).collect();
        if self.bulk {
            // symmetry: in the bulk universe only the nearest and farthest in-flight fetch arrive
            let first = arrivals.iter().next().cloned();
            let last = arrivals.iter().next_back().cloned();
            arrivals = first.into_iter().chain(last).collect();
        }
        for (k, t) in &arrivals {
            v.push(Act::Arrive { k: *k, t: *t });
            v.push(Act::EarlyComplete { k: *k, t: *t });
        }
        if !self.bulk {
            // a record can also arrive unasked (client upload), in either version
            for k in [1usize, 2] {
                for t in 0..self.u.types[k].len() {
                    if !arrivals.contains(&(k, t)) {
                        v.push(Act::Arrive { k, t });
                    }
                }
            }
            for gap in [1, 3, 5] {
                v.push(Act::SetRange { gap });
            }
            for farthest in [2, 4] {
                v.push(Act::NodeFull { farthest });
            }
        } else {
            v.push(Act::SetRange { gap: n / 2 });
            v.push(Act::NodeFull { farthest: n - 3 });
        }
        v.push(Act::Age { secs: FETCH_TIMEOUT_S });
        v.push(Act::Age { secs: PENDING_TIMEOUT_S });
        v
    }

    fn step(&mut self, a: &Act, fails: &mut Vec<Fail>) {
        self.freeze_time();
        // in-flight entries that count as "already in flight" for this step: every scheduling call prunes
        // entries past their timeout first, and an arrival / completion ends the fetches it names first
        let timed_out_now: BTreeSet<(usize, usize, usize)> = self.age_inflight.iter().filter(|(_, (_, age))| *age >= FETCH_TIMEOUT_S).map(|((k, t), (h, _))| (*k, *t, *h)).collect();
        let before: BTreeSet<(usize, usize, usize)> = self
            .inflight()
            .into_iter()
            .filter(|e| !timed_out_now.contains(e))
            .filter(|e| match a {
                Act::Arrive { k, .. } => e.0 != *k,
                Act::EarlyComplete { k, t } => !(e.0 == *k && e.1 == *t),
                _ => true,
            })
            .collect();
        let queued_before = self.pending();
        match a {
            Act::AdvertiseOne { h, k, t } => {
                let held = self.held_map();
                let holder = self.u.holders[*h];
                let one = vec![(addr(&self.u.keys[*k]), self.u.types[*k][*t].clone())];
                let f = &mut self.f;
                let issued = with_ctx(|| f.add_keys(holder, one, &held));
                self.judge_issued(&issued, &before, &queued_before, None, false, fails);
            }
            Act::AdvertiseList { h, l } => {
                let list = self.u.lists[*h][*l].clone();
                let held = self.held_map();
                let keys = list.iter().map(|(k, t)| (addr(&self.u.keys[*k]), self.u.types[*k][*t].clone())).collect();
                let holder = self.u.holders[*h];
                let f = &mut self.f;
                let issued = with_ctx(|| f.add_keys(holder, keys, &held));
                self.judge_issued(&issued, &before, &queued_before, Some(&list), true, fails);
            }
            Act::Arrive { k, t } => {
                let (key, ty) = (self.u.keys[*k].clone(), self.u.types[*k][*t].clone());
                let f = &mut self.f;
                let issued = with_ctx(|| f.notify_about_new_put(key, ty));
                self.held.insert(*k, *t);
                // "the record arrives" ends every in-flight fetch of that key, whatever version was advertised
                let now = self.inflight();
                // the arrived version is no longer fetched; another version of the key may be fetched only as a
                // fresh issue of this very call (it was queued, and is a different record version)
                if now.iter().any(|e| e.0 == *k && (e.1 == *t || !issued.iter().any(|(h, ik)| self.kidx(ik) == e.0 && self.hidx(h) == e.2))) {
                    fails.push(Fail::new("arrival-ends-fetch", "plain", format!("k{k} (type {t}) arrived but a fetch of it is still in flight")));
                }
                if self.pending().iter().any(|e| e.0 == *k && e.1 == *t) {
                    fails.push(Fail::new("arrival-ends-fetch", "queued", format!("k{k} type {t} arrived but is still queued")));
                }
                self.judge_issued(&issued, &before, &queued_before, None, true, fails);
                self.judge_closest_first(&issued, fails);
            }
            Act::EarlyComplete { k, t } => {
                let (key, ty) = (self.u.keys[*k].clone(), self.u.types[*k][*t].clone());
                let f = &mut self.f;
                let issued = with_ctx(|| f.notify_fetch_early_completed(key, ty));
                if self.inflight().iter().any(|e| e.0 == *k && e.1 == *t) || self.pending().iter().any(|e| e.0 == *k && e.1 == *t) {
                    fails.push(Fail::new("completion-ends-fetch", "plain", format!("k{k} type {t} reported complete but is still tracked")));
                }
                self.judge_issued(&issued, &before, &queued_before, None, true, fails);
                self.judge_closest_first(&issued, fails);
            }
            Act::SetRange { gap } => {
                self.f.set_replication_distance_range(self.u.ranges[*gap]);
                self.range_gap = Some(*gap);
            }
            Act::NodeFull { farthest } => {
                self.f.set_farthest_on_full(Some(self.u.keys[*farthest].clone()));
                self.full_farthest = Some(self.full_farthest.map(|f| f.min(*farthest)).unwrap_or(*farthest));
                let far = self.full_farthest.unwrap();
                if self.inflight().iter().any(|e| e.0 > far) || self.pending().iter().any(|e| e.0 > far) {
                    fails.push(Fail::new("not-beyond-farthest-when-full", "still-tracked", format!("after the node reported full (farthest k{far}) a farther key is still tracked")));
                }
            }
            Act::Age { secs } => {
                self.f.age(Duration::from_secs(*secs));
                for v in self.age_pending.values_mut() {
                    *v += secs;
                }
                for (_, v) in self.age_inflight.values_mut() {
                    *v += secs;
                }
            }
            Act::Tick => {
                let timed_out: Vec<(usize, usize, usize)> = self.age_inflight.iter().filter(|(_, (_, age))| *age >= FETCH_TIMEOUT_S).map(|((k, t), (h, _))| (*k, *t, *h)).collect();
                let f = &mut self.f;
                let issued = with_ctx(|| f.next_keys_to_fetch());
                let now = self.inflight();
                for e in &timed_out {
                    if now.contains(e) && !issued.iter().any(|(h, k)| self.kidx(k) == e.0 && self.hidx(h) == e.2) {
                        fails.push(Fail::new("timeout-ends-fetch", "plain", format!("fetch of k{} from h{} is past its timeout but still in flight", e.0, e.2)));
                    }
                }
                // before judging re-issues, forget the timed-out entries
                let before2: BTreeSet<_> = before.iter().filter(|e| !timed_out.contains(e)).cloned().collect();
                self.judge_issued(&issued, &before2, &queued_before, None, true, fails);
                self.judge_closest_first(&issued, fails);
                if !timed_out.is_empty() {
                    let failed = self.drain_failed_holders();
                    for e in &timed_out {
                        if !failed.contains(&e.2) {
                            fails.push(Fail::new("timed-out-holder-reported", "plain", format!("h{} timed out on k{} but was not reported", e.2, e.0)));
                        }
                        if self.pending().iter().any(|p| p.2 == e.2) {
                            fails.push(Fail::new("timed-out-holder-dropped", "plain", format!("h{} timed out but still has queued entries", e.2)));
                        }
                    }
                }
            }
        }
        self.after_any(fails);
        if self.liveness && !self.bulk {
            self.check_liveness(fails);
        }
    }

    fn canon(&self) -> Vec<u8> {
        let mut pend: Vec<String> = self.pending().iter().map(|e| format!("{e:?}@{}", self.age_pending.get(e).copied().unwrap_or(0))).collect();
        pend.sort();
        let mut infl: Vec<String> = self.inflight().iter().map(|e| format!("{e:?}@{}", self.age_inflight.get(&(e.0, e.1)).map(|x| x.1).unwrap_or(0))).collect();
        infl.sort();
        let mut held: Vec<(usize, usize)> = self.held.iter().map(|(k, t)| (*k, *t)).collect();
        held.sort();
        let mut qu: Vec<String> = self.queued_under.iter().map(|(k, v)| format!("{k:?}:{v:?}")).collect();
        qu.sort();
        format!("p={pend:?};i={infl:?};h={held:?};r={:?};f={:?};qu={qu:?}", self.range_gap, self.full_farthest).into_bytes()
    }
}

/// The same rules one level up, where advertisements actually arrive: a real node-flavour `SwarmDriver` handling
/// `Cmd::Replicate` (`add_keys_to_replication_fetcher`: sender vetting, the store's view of what is held, the fetcher, the
/// event that starts the fetches). A fresh driver per case: 6 ranked keys, every held subset of up to 3 of them stored through
/// the real `PutLocalRecord` handling, the responsible range set after rank 1 / 3 / 5 (or not at all), and every non-empty list
/// over the 6 keys (each once as Chunk) from a routing-table neighbour. Judged from the `KeysToFetchForReplication` events: nothing held is
/// fetched; of a list that arrived with more than one key only keys within the range are fetched; every key that is not held and
/// (for multi-key lists) within the range is fetched (6 keys stay below the parallel limit).
fn driver_layer(run: &Run) {
    use crate::driver_rig::DriverRig;
    use ant_networking::verif_hooks::LocalSwarmCmd;
    let u = build_universe(6, "c08-driver", true);
    let n = u.keys.len();
    let value = |i: usize| -> Vec<u8> { [&[0x91u8, 1][..], format!("c08 driver {i}").as_bytes()].concat() };
    let held_sets: Vec<u32> = mc_core::enumerate::subsets(n, 0, run.pick(2, 3));
    let gaps: Vec<Option<usize>> = vec![None, Some(1), Some(3), Some(5)];
    let jobs: Vec<(u32, Option<usize>)> = held_sets.iter().flat_map(|h| gaps.iter().map(move |g| (*h, *g))).collect();
    let next = std::sync::atomic::AtomicUsize::new(0);
    let cases = std::sync::atomic::AtomicU64::new(0);
    std::thread::scope(|sc| {
        for _ in 0..mc_core::workers() {
            sc.spawn(|| loop {
                let j = next.fetch_add(1, std::sync::atomic::Ordering::Relaxed);
                if j >= jobs.len() || mc_core::budget_spent() {
                    break;
                }
                let (held, gap) = jobs[j];
                for list_mask in 1u32..(1 << n) {
                    let root = crate::c01::fresh_scratch("c08-driver");
                    let mut rig = DriverRig::new_node(1, &root);
                    for (i, h) in u.holders.iter().enumerate() {
                        if !rig.driver.verif_add_peer(*h, format!("/ip4/127.0.0.1/udp/{}/quic-v1", 42000 + i).parse().unwrap()) {
                            run.machinery_error("C08 driver layer: routing table insert failed");
                        }
                    }
                    for i in 0..n {
                        if held & (1 << i) != 0 {
                            let record = libp2p::kad::Record { key: u.keys[i].clone(), value: value(i), publisher: None, expires: None };
                            let _ = rig.handle_local(LocalSwarmCmd::PutLocalRecord { record });
                        }
                    }
                    rig.settle();
                    if let Some(g) = gap {
                        rig.driver.verif_set_responsible_range(u.ranges[g]);
                    }
                    rig.drain_events();
                    rig.events.clear();
                    let list: Vec<(NetworkAddress, RecordType)> = (0..n).filter(|i| list_mask & (1 << i) != 0).map(|i| (addr(&u.keys[i]), RecordType::Chunk)).collect();
                    let list_len = list.len();
                    let desc = serde_json::json!({"engine": "driver-layer", "held": (0..n).filter(|i| held & (1 << i) != 0).collect::<Vec<_>>(), "range_after_rank": gap, "list": (0..n).filter(|i| list_mask & (1 << i) != 0).collect::<Vec<_>>()});
                    run.case(desc.to_string().as_bytes(), list_len > 1 && gap.is_some());
                    cases.fetch_add(1, std::sync::atomic::Ordering::Relaxed);
                    let driver = &mut rig.driver;
                    let holder = NetworkAddress::from_peer(u.holders[0]);
                    let _ = rig.exec.capture(None, "replicate", || driver.verif_handle_replicate(holder, list));
                    rig.settle();
                    rig.drain_events();
                    let mut issued: BTreeSet<usize> = BTreeSet::new();
                    while let Some(ev) = rig.events.pop_front() {
                        if let NetworkEvent::KeysToFetchForReplication(ks) = ev {
                            for (_, k) in ks {
                                if let Some(i) = u.keys.iter().position(|x| *x == k) {
                                    issued.insert(i);
                                }
                            }
                        }
                    }
                    for i in 0..n {
                        let in_list = list_mask & (1 << i) != 0;
                        let is_held = held & (1 << i) != 0;
                        let in_range = gap.map(|g| i < g).unwrap_or(true);
                        let got = issued.contains(&i);
                        if got && (!in_list || is_held) {
                            run.violation("not-held", "driver-layer", format!("k{i} was fetched although it is {} ({desc})", if is_held { "held" } else { "not in the list" }), desc.clone());
                        }
                        if got && list_len > 1 && !in_range {
                            let new_in_list = (0..n).filter(|x| list_mask & (1 << x) != 0 && held & (1 << x) == 0).count();
                            let trig = if new_in_list == 1 { "driver-layer/single-new-key-in-multi-key-list" } else { "driver-layer" };
                            run.violation("in-range-from-multi-key-list", trig, format!("k{i}, taken from a {list_len}-key list, is outside the responsible range (after rank {}) and was fetched ({desc})", gap.unwrap()), desc.clone());
                        }
                        if !got && in_list && !is_held && (in_range || list_len == 1) {
                            run.violation("progress", "driver-layer", format!("k{i} is advertised, not held and {} but no fetch was started ({desc})", if list_len == 1 { "came as a single-key list" } else { "within the range" }), desc.clone());
                        }
                    }
                    drop(rig);
                    let _ = std::fs::remove_dir_all(&root);
                }
            });
        }
    });
    run.extra("driver_layer", serde_json::json!({"cases": cases.load(std::sync::atomic::Ordering::Relaxed), "held_sets": held_sets.len(), "ranges": gaps.len(), "lists_per_case": (1u32 << n) - 1}));
}

/// Driver layer, full node: a real node-flavour SwarmDriver whose store holds `cap` records and is full, a neighbour's list
/// of more new keys than the parallel limit (so that some stay queued), then fetched records handed to the real
/// `PutLocalRecord` handler one after the other — stored while nearer than the farthest held record, refused (MaxRecords)
/// beyond it. From the first refusal on the node knows it is full: no `KeysToFetchForReplication` event may name a key
/// farther away than the farthest record held at that moment.
fn driver_layer_full_node(run: &Run) {
    use crate::driver_rig::DriverRig;
    use ant_networking::verif_hooks::{LocalSwarmCmd, UnifiedRecordStore};
    let n = 26usize;
    let u = build_universe(n, "c08-full", true);
    let value = |i: usize| -> Vec<u8> { [&[0x91u8, 1][..], format!("c08 full {i}").as_bytes()].concat() };
    let mut cases = 0u64;
    // held sets (ranks), and which of the in-flight keys arrives first
    let held_sets: Vec<Vec<usize>> = vec![vec![2, 5, 8], vec![0, 1, 2], vec![3, 10, 15]];
    for held in &held_sets {
        let farthest_held = *held.iter().max().unwrap();
        for first_arrival in [22usize, farthest_held + 1, 0, 9] {
            if held.contains(&first_arrival) {
                continue;
            }
            let root = crate::c01::fresh_scratch("c08-full");
            let mut rig = DriverRig::new_node(1, &root);
            for (i, h) in u.holders.iter().enumerate() {
                if !rig.driver.verif_add_peer(*h, format!("/ip4/127.0.0.1/udp/{}/quic-v1", 43000 + i).parse().unwrap()) {
                    run.machinery_error("C08 full-node layer: routing table insert failed");
                }
            }
            match rig.store() {
                UnifiedRecordStore::Node(s) => s.verif_set_max_records(held.len()),
                UnifiedRecordStore::Client(_) => run.machinery_error("C08 full-node layer: client store"),
            }
            for i in held {
                let record = libp2p::kad::Record { key: u.keys[*i].clone(), value: value(*i), publisher: None, expires: None };
                let _ = rig.handle_local(LocalSwarmCmd::PutLocalRecord { record });
                rig.settle();
            }
            rig.drain_events();
            rig.events.clear();
            let list: Vec<(NetworkAddress, RecordType)> = (0..n).filter(|i| !held.contains(i)).map(|i| (addr(&u.keys[i]), RecordType::Chunk)).collect();
            let driver = &mut rig.driver;
            let holder = NetworkAddress::from_peer(u.holders[0]);
            let _ = rig.exec.capture(None, "replicate", || driver.verif_handle_replicate(holder, list));
            rig.settle();
            rig.drain_events();
            let mut in_flight: BTreeSet<usize> = BTreeSet::new();
            let mut take_events = |rig: &mut DriverRig, in_flight: &mut BTreeSet<usize>| -> Vec<usize> {
                let mut fresh = vec![];
                while let Some(ev) = rig.events.pop_front() {
                    if let NetworkEvent::KeysToFetchForReplication(ks) = ev {
                        for (_, k) in ks {
                            if let Some(i) = u.keys.iter().position(|x| *x == k) {
                                in_flight.insert(i);
                                fresh.push(i);
                            }
                        }
                    }
                }
                fresh
            };
            let _ = take_events(&mut rig, &mut in_flight);
            if in_flight.len() < 20 {
                run.machinery_error(&format!("C08 full-node layer: only {} fetches were started for a list of {} new keys", in_flight.len(), n - held.len()));
            }
            // arrivals: the chosen one first, then the rest of what is in flight, nearest first
            let mut order: Vec<usize> = vec![first_arrival];
            order.extend(in_flight.iter().cloned().filter(|i| *i != first_arrival));
            let mut known_full = false;
            let mut held_now: BTreeSet<usize> = held.iter().cloned().collect();
            let desc = serde_json::json!({"engine": "driver-layer/full-node", "capacity": held.len(), "held_ranks": held, "advertised": n - held.len(), "first_arrival_rank": first_arrival});
            run.case(desc.to_string().as_bytes(), true);
            cases += 1;
            for (step, i) in order.iter().enumerate().take(8) {
                if !in_flight.contains(i) {
                    continue;
                }
                let record = libp2p::kad::Record { key: u.keys[*i].clone(), value: value(*i), publisher: None, expires: None };
                let r = rig.handle_local(LocalSwarmCmd::PutLocalRecord { record });
                rig.settle();
                rig.drain_events();
                let listed: BTreeSet<usize> = match rig.store() {
                    UnifiedRecordStore::Node(s) => (0..n).filter(|x| s.verif_contains(&u.keys[*x])).collect(),
                    _ => BTreeSet::new(),
                };
                if r.is_err() || !listed.contains(i) {
                    known_full = true; // the put was refused: from here on the fetcher has been told the node is full
                }
                held_now = listed;
                in_flight.remove(i);
                let fresh = take_events(&mut rig, &mut in_flight);
                if known_full {
                    let far = held_now.iter().max().cloned().unwrap_or(n);
                    for f in fresh {
                        if f > far {
                            run.violation(
                                "not-beyond-farthest-when-full",
                                "driver-layer/after-a-refused-put",
                                format!("after arrival {step} (rank {i}, refused or evicting on a full store) a fetch was started for rank {f}, farther than the farthest held record (rank {far}) ({desc})"),
                                desc.clone(),
                            );
                        }
                    }
                }
            }
            drop(rig);
            let _ = std::fs::remove_dir_all(&root);
        }
    }
    run.extra("driver_layer_full_node", serde_json::json!({"cases": cases, "keys": n}));
}


/// "a timed-out holder being reported" when the consumer of the node's event channel is behind. The report travels
/// through a bounded channel; the fetcher pushes it "off thread so as to be non-blocking". Every combination of
/// channel capacity 1..=3, free slots 0..=capacity when the fetch times out, the call that notices the timeout
/// (scheduling tick, a further advertisement, an arrival of another record, an early completion of another record),
/// and the order in which the consumer catches up and the fetcher's own send tasks get to run. Once the consumer has
/// read everything and every task the fetcher started has run to its end, the report must have been delivered exactly
/// as if the channel had had room.
fn backpressure(run: &Run) {
    use std::collections::VecDeque;
    let u = build_universe(6, "c08", false);
    let h = u.holders[0];
    let other = u.holders[1];
    let mut cases = 0u64;
    let mut outcomes: BTreeSet<String> = BTreeSet::new();
    thread_local! {
        static RT2: tokio::runtime::Runtime = tokio::runtime::Builder::new_current_thread().build().expect("runtime");
    }
    for cap in 1usize..=3 {
        for free in 0..=cap {
            for trigger in 0..4usize {
                // consumer/task orders: tasks polled first then consumer drains and tasks polled again (0); consumer drains first (1);
                // consumer reads one event between polls (2)
                for order in 0..3usize {
                    cases += 1;
                    let desc = serde_json::json!({"channel_capacity": cap, "free_slots_at_timeout": free, "noticed_by": (["tick", "advertisement", "arrival-of-another-record", "early-completion-of-another-record"][trigger]), "consumer_order": order});
                    run.case(desc.to_string().as_bytes(), free == 0);
                    let delivered: Result<(bool, usize), String> = RT2.with(|rt| {
                        let _g = rt.enter();
                        let (tx, mut rx) = mpsc::channel::<NetworkEvent>(cap);
                        let mut f = VerifFetcher::new(u.me, tx.clone());
                        ant_networking::verif_hooks::install_spawn_sink();
                        let waker = futures::task::noop_waker();
                        let mut cx = std::task::Context::from_waker(&waker);
                        let mut tasks: VecDeque<ant_networking::verif_hooks::SpawnedTask> = VecDeque::new();
                        let held: HashMap<RecordKey, (NetworkAddress, RecordType)> = HashMap::new();
                        // a single-key advertisement from h: the fetch goes in flight
                        let issued = f.add_keys(h, vec![(addr(&u.keys[0]), RecordType::Chunk)], &held);
                        tasks.extend(ant_networking::verif_hooks::take_spawned());
                        if issued.len() != 1 {
                            return Err(format!("the single-key advertisement started {} fetches", issued.len()));
                        }
                        // other traffic occupies the channel: the consumer is behind
                        for _ in 0..cap - free {
                            tx.try_send(NetworkEvent::KeysToFetchForReplication(vec![])).map_err(|e| format!("filling the channel: {e}"))?;
                        }
                        f.age(Duration::from_secs(FETCH_TIMEOUT_S));
                        match trigger {
                            0 => {
                                let _ = f.next_keys_to_fetch();
                            }
                            1 => {
                                let _ = f.add_keys(other, vec![(addr(&u.keys[1]), RecordType::Chunk)], &held);
                            }
                            2 => {
                                let _ = f.notify_about_new_put(u.keys[3].clone(), RecordType::Chunk);
                            }
                            _ => {
                                let _ = f.notify_fetch_early_completed(u.keys[3].clone(), RecordType::Chunk);
                            }
                        }
                        tasks.extend(ant_networking::verif_hooks::take_spawned());
                        let still_in_flight = f.on_going_fetches().iter().any(|(k, _, hh, _)| *k == u.keys[0] && *hh == h);
                        let mut reported = false;
                        let mut read = 0usize;
                        let mut consume = |rx: &mut mpsc::Receiver<NetworkEvent>, at_most: usize, reported: &mut bool, read: &mut usize| {
                            for _ in 0..at_most {
                                match rx.try_recv() {
                                    Ok(NetworkEvent::FailedToFetchHolders(hs)) => {
                                        *read += 1;
                                        if hs.contains(&h) {
                                            *reported = true;
                                        }
                                    }
                                    Ok(_) => *read += 1,
                                    Err(_) => break,
                                }
                            }
                        };
                        let mut poll_all = |tasks: &mut VecDeque<ant_networking::verif_hooks::SpawnedTask>| {
                            let mut rest = VecDeque::new();
                            while let Some(mut t) = tasks.pop_front() {
                                if t.fut.as_mut().poll(&mut cx).is_pending() {
                                    rest.push_back(t);
                                }
                            }
                            *tasks = rest;
                        };
                        match order {
                            0 => poll_all(&mut tasks),
                            1 => consume(&mut rx, usize::MAX, &mut reported, &mut read),
                            _ => {
                                poll_all(&mut tasks);
                                consume(&mut rx, 1, &mut reported, &mut read);
                            }
                        }
                        // from here on the consumer keeps reading and the tasks keep running until nothing moves any more
                        for _ in 0..16 {
                            poll_all(&mut tasks);
                            consume(&mut rx, usize::MAX, &mut reported, &mut read);
                            tasks.extend(ant_networking::verif_hooks::take_spawned());
                            if tasks.is_empty() {
                                break;
                            }
                        }
                        let _ = ant_networking::verif_hooks::remove_spawn_sink();
                        if still_in_flight {
                            return Err("the timed-out fetch was still in flight after the call that should have noticed it".into());
                        }
                        Ok((reported, tasks.len()))
                    });
                    match delivered {
                        Ok((true, 0)) => {
                            outcomes.insert("reported".into());
                        }
                        Ok((true, n)) => {
                            outcomes.insert(format!("reported, {n} tasks never finished"));
                        }
                        Ok((false, n)) => {
                            outcomes.insert("not-reported".into());
                            run.violation(
                                "timed-out-holder-reported",
                                "event-channel-behind",
                                format!("the fetch from the holder timed out and left the in-flight set, the consumer then read the whole event channel and every send task ran ({n} left pending), but the holder was never reported ({desc})"),
                                desc,
                            );
                        }
                        Err(e) => {
                            outcomes.insert(format!("error: {e}"));
                            run.violation("removed-on-timeout", "event-channel-behind", format!("{e} ({desc})"), desc);
                        }
                    }
                }
            }
        }
    }
    for o in &outcomes {
        run.outcome(o.as_bytes());
    }
    run.extra("backpressure", serde_json::json!({"cases": cases, "outcomes": outcomes}));
}

pub fn main(tier: Option<&str>) {
    let run = Run::new("C08", "model_checking", tier);
    run.rule(
        "BFS, clone mode, on the real ReplicationFetcher: universe A = 6 keys ranked by the independent XOR metric (k2 in two NonChunk \
         versions), 3 holders, single-key advertisements and 7 fixed multi-key lists, Arrive / EarlyComplete / SetRange (3 gaps) / \
         NodeFull (2 values) / Age(21 s, 901 s) / Tick, depth 4(5); universe B = 24 keys with bulk lists, depth 4(6), for the parallel \
         limit. State key = queue and in-flight sets with the exact aging applied since creation, held set, range, farthest. Bounded \
         liveness (4 fair rounds) is run from every reachable state of universe A. Driver layer: a fresh real SwarmDriver per case, every held \
         subset of <=2(3) of 6 ranked keys x range {unset, after rank 1, 3, 5} x every non-empty list over the 6 keys from a routing-table neighbour, \
         judged from the KeysToFetchForReplication events. Back-pressure: event channel of capacity 1..=3 x free slots 0..=capacity when a fetch times out x the call that notices it (tick, \
         advertisement, arrival / early completion of another record) x 3 orders of consumer reads and send-task polls: the timed-out holder's report must arrive once the consumer has caught up.",
    );
    run.assume("time moves only through Age steps (hook moves every stored deadline into the past); raw instants never enter the state key");
    run.assume("the parallel-fetch limit (20) and the two timeouts (20 s, 900 s) are pinned in the harness");
    run.assume("a queued entry is judged against the responsible range in force when its list queued it (the fetcher does not re-filter its queue when the range changes, and the statement does not ask it to)");
    run.assume("single-key advertisements are exempt from the range and limit clauses by the statement's wording (fresh-record replication)");
    let ua = Arc::new(build_universe(6, "c08", false));
    let _ = &ua.dist;
    bfs_clone(
        &run,
        BfsOpts { max_depth: run.pick(4, 5), wall_cap: Some(Duration::from_secs(run.pick(45, 1800))), state_cap: None, label: "universe-A".into() },
        vec![Sys::new(ua.clone(), false)],
    );
    let ub = Arc::new(build_universe(24, "c08-bulk", true));
    bfs_clone(
        &run,
        BfsOpts { max_depth: run.pick(4, 6), wall_cap: Some(Duration::from_secs(run.pick(30, 900))), state_cap: None, label: "universe-B(24 keys)".into() },
        vec![Sys::new(ub, true)],
    );
    driver_layer(&run);
    driver_layer_full_node(&run);
    backpressure(&run);
    run.finish();
}
