//! Maps a `file:line` spawn site to the name of the enclosing function by reading the source
//! under /repo, so that task classification survives line shifts in the code under test.
use std::collections::HashMap;
use std::sync::Mutex;

static CACHE: Mutex<Option<HashMap<String, String>>> = Mutex::new(None);

pub fn enclosing_fn(site: &str) -> String {
    let mut g = CACHE.lock().unwrap();
    let map = g.get_or_insert_with(HashMap::new);
    if let Some(v) = map.get(site) {
        return v.clone();
    }
    let v = compute(site);
    map.insert(site.to_string(), v.clone());
    v
}

fn compute(site: &str) -> String {
    let Some((file, line)) = site.rsplit_once(':') else { return "?".into() };
    let Ok(line) = line.parse::<usize>() else { return "?".into() };
    let path = if file.starts_with('/') { file.to_string() } else { format!("{}/{}", mc_core::run::repo_root().display(), file) };
    let Ok(text) = std::fs::read_to_string(&path) else { return "?".into() };
    let lines: Vec<&str> = text.lines().collect();
    let mut i = line.min(lines.len());
    while i > 0 {
        i -= 1;
        let l = lines[i].trim_start();
        // a function item, not a closure or a call
        for prefix in ["pub(crate) async fn ", "pub(crate) fn ", "pub(super) fn ", "pub async fn ", "pub fn ", "async fn ", "fn "] {
            if let Some(rest) = l.strip_prefix(prefix) {
                let name: String = rest.chars().take_while(|c| c.is_alphanumeric() || *c == '_').collect();
                if !name.is_empty() {
                    let base = std::path::Path::new(file).file_name().and_then(|s| s.to_str()).unwrap_or("?");
                    return format!("{base}::{name}");
                }
            }
        }
    }
    "?".into()
}
