//! C17, record-store layer: the names and contents of the files in a node's record directory are stored text and bytes
//! that the node parses at every start (hex file name -> record key -> nonce; file bytes -> ciphertext -> record). For
//! every file name of a menu (hex of every length 0..=18, 32, 64, 66 and 130 digits, odd lengths, upper case, non-hex,
//! non-ASCII, a dot file, a nested directory) x every content of a menu (empty, 1..3 bytes, a bare header, 16 zero
//! bytes, garbage, the real file of a record stored under another key) the real `NodeRecordStore::with_config` is opened
//! on the directory (ant-node's default features: encrypted records), the key is read and listed, a record is stored and
//! the store is opened again. Nothing may panic, and nothing may be served that was never stored. Runs as a subprocess
//! of the C17 check (vcheck-pure); also called by C02.
use crate::store_rig::{RigCfg, StoreRig};
use libp2p::kad::RecordKey;
use mc_core::Run;
use serde_json::json;
use std::collections::BTreeSet;

fn names() -> Vec<String> {
    let mut v: Vec<String> = vec![];
    for n in 0..=18usize {
        v.push("a1b2c3d4e5f60718293a".chars().cycle().take(n).collect());
    }
    for n in [32usize, 63, 64, 65, 66, 130] {
        v.push("0f1e2d3c".chars().cycle().take(n).collect());
    }
    v.push("00".into());
    v.push("DEADBEEF".into());
    v.push("deadbeefDEADBEEF00112233".into());
    v.push("zz".into());
    v.push("record.tmp".into());
    v.push(".hidden".into());
    v.push("é0".into());
    v.push("00é".into());
    v.push("0x1234".into());
    v.push("sub/cafe".into());
    v.push("sub/0011223344556677".into());
    v.retain(|s| !s.is_empty());
    v.sort();
    v.dedup();
    v
}

pub fn sweep(run: &Run, clause_prefix: &str) -> (u64, u64) {
    let peer = rigs::fixtures::peer_id(1);
    let cfg = RigCfg { max_records: 64, cache_size: 2, max_value_bytes: None };
    // the real file of a real record (to be planted under other names)
    let donor_root = crate::c01::fresh_scratch("c17s-donor");
    let donor_key = RecordKey::new(&xor_name::XorName::from_content(b"c17s donor"));
    let donor_val = [&[0x91u8, 1][..], b"donor record"].concat();
    let donor_file: Vec<u8> = {
        let mut rig = StoreRig::new(&donor_root, cfg.clone(), peer);
        rig.put(&donor_key, &donor_val).expect("donor put");
        rig.settle();
        let f = std::fs::read(rig.storage_dir().join(hex::encode(donor_key.as_ref()))).expect("donor file");
        drop(rig);
        f
    };
    let _ = std::fs::remove_dir_all(&donor_root);
    let contents: Vec<(&str, Vec<u8>)> = vec![
        ("empty", vec![]),
        ("1 byte", vec![0x91]),
        ("bare header", vec![0x91, 0x01]),
        ("3 bytes", vec![0x91, 0x01, 0xc4]),
        ("16 zero bytes", vec![0u8; 16]),
        ("garbage", (0..40u8).map(|i| i.wrapping_mul(37)).collect()),
        ("plain record bytes", donor_val.clone()),
        ("file of a record stored under another key", donor_file.clone()),
    ];
    let fresh_key = RecordKey::new(&xor_name::XorName::from_content(b"c17s fresh"));
    let fresh_val = [&[0x91u8, 1][..], b"fresh record"].concat();
    let (mut cases, mut panics) = (0u64, 0u64);
    for name in names() {
        for (cname, bytes) in &contents {
            cases += 1;
            let root = crate::c01::fresh_scratch("c17s");
            let dir = root.join("record_store");
            let path = dir.join(&name);
            std::fs::create_dir_all(path.parent().unwrap()).expect("dir");
            std::fs::write(&path, bytes).expect("plant");
            let desc = json!({"file_name": name, "content": cname, "bytes": bytes.len()});
            run.case(format!("store-dir:{name}:{cname}").as_bytes(), true);
            let key = hex::decode(name.rsplit('/').next().unwrap_or("")).ok().map(RecordKey::from);
            let (cfg2, root2, fk, fv) = (cfg.clone(), root.clone(), fresh_key.clone(), fresh_val.clone());
            let key2 = key.clone();
            let r = mc_core::catch(move || {
                let mut served: Vec<(String, Vec<u8>)> = vec![];
                let mut listed: BTreeSet<String> = BTreeSet::new();
                let mut rig = StoreRig::new(&root2, cfg2.clone(), peer);
                for round in 0..2 {
                    if let Some(k) = &key2 {
                        if let Some(v) = rig.get(k) {
                            served.push((format!("open {round}"), v.value));
                        }
                    }
                    listed.extend(rig.view().records.iter().map(|(k, _)| hex::encode(k.as_ref())));
                    if round == 0 {
                        let _ = rig.put(&fk, &fv);
                        rig.settle();
                        rig = rig.restart();
                    }
                }
                let fresh_back = rig.get(&fk);
                drop(rig);
                (served, listed, fresh_back)
            });
            match r {
                Err(p) => {
                    panics += 1;
                    run.violation(&format!("{clause_prefix}no-panic"), "record-store-start", format!("opening the record store on a directory holding the file {name:?} ({cname}, {} bytes) panicked: {p}", bytes.len()), json!({"case": desc}));
                }
                Ok((served, listed, fresh_back)) => {
                    run.outcome(format!("{}/{}", served.len(), listed.len()).as_bytes());
                    for (when, v) in served {
                        run.violation(&format!("{clause_prefix}served-value-was-validated"), "planted-file", format!("{when}: the store serves {} bytes for the key of a planted file {name:?} ({cname}) that was never stored", v.len()), json!({"case": desc}));
                    }
                    if fresh_back.as_ref().map(|r| &r.value[..]) != Some(&fresh_val[..]) {
                        run.violation(&format!("{clause_prefix}completed-write-survives"), "next-to-a-planted-file", format!("a record stored next to the planted file {name:?} ({cname}) reads back as {:?} after a restart", fresh_back.map(|v| v.value.len())), json!({"case": desc}));
                    }
                }
            }
            let _ = std::fs::remove_dir_all(&root);
        }
    }
    (cases, panics)
}

pub fn main(tier: Option<&str>) {
    let run = Run::new("C17-store", "exploration", tier);
    let (cases, panics) = sweep(&run, "");
    let violations = run.dump_violations();
    println!("C17S-SUMMARY {}", json!({"cases": cases, "panics": panics, "violations": violations}));
    mc_core::remove_scratch_root();
    std::process::exit(if violations.is_empty() { 0 } else { 1 });
}
