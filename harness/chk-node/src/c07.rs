//! C07 — mutable records never regress and hold only owner-signed content.
//! (seq) BFS in replay mode over deliveries to one real Node (scratchpads, transactions,
//!       registers; paid upload / unpaid update / replication), run to quiescence after each.
//! (conc) every pair of deliveries to one key with both validation futures live at once:
//!       stateless deviation-bounded DFS over all interleavings of the two futures at their await
//!       points, the driver's command handling, and the spawned write / notification tasks.
use crate::c01::fresh_scratch;
use crate::driver_rig::Step;
use crate::evm_stub::{Chain, EvmStub};
use crate::node_rig::NodeRig;
use ant_protocol::storage::{try_deserialize_record, Scratchpad, Transaction};
use ant_registers::SignedRegister;
use libp2p::kad::{Record, RecordKey};
use mc_core::bfs::{bfs_replay, BfsOpts, Fail, System};
use mc_core::sched::{explore, Chooser, SchedOpts};
use mc_core::Run;
use rigs::records as rec;
use serde_json::json;
use std::collections::BTreeSet;
use std::path::PathBuf;
use std::sync::{Arc, Mutex};
use std::time::{Duration, SystemTime};

const OWNER: u8 = 5;

#[derive(Clone, Copy, Debug, PartialEq, Eq)]
pub enum Path {
    Paid,
    Unpaid,
    Replicated,
}

#[derive(Clone, Copy, Debug, PartialEq, Eq)]
pub enum Family {
    Scratchpad,
    Transaction,
    Register,
}

/// One deliverable item of a family, with what the statement says about it.
#[derive(Clone)]
pub struct Item {
    pub name: String,
    /// plain record (unpaid / replicated form)
    pub plain: Record,
    /// record for the paid-upload path (None: the family has no single-item paid form for this item)
    pub paid: Option<Arc<dyn Fn(&ant_evm::ProofOfPayment) -> Record + Send + Sync>>,
    /// valid contribution: counter (scratchpad) / set of entry ids (transactions, register ops)
    pub counter: Option<u64>,
    pub entries: BTreeSet<usize>,
    /// validly signed by the owner and addressed to the family's key
    pub authentic: bool,
    /// a valid record of *another kind* that lives under the same record key (a scratchpad and a transaction set of
    /// one owner share their key): offered only once something of the family's kind is held, and must change nothing
    pub alien: bool,
    /// scratchpads: identity of the payload (two owner-signed versions may carry the same counter); 0 otherwise
    pub content: u64,
}

pub struct Fam {
    pub family: Family,
    pub key: RecordKey,
    pub items: Vec<Item>,
}

fn proof_for(key: &RecordKey) -> ant_evm::ProofOfPayment {
    let now = SystemTime::now() - Duration::from_secs(30);
    let addr = rec::xorname_of_key(key);
    rec::proof(vec![(1, rec::quote(1, addr, now)), (2, rec::quote(2, addr, now)), (3, rec::quote(3, addr, now))])
}

fn pad_content(p: &Scratchpad) -> u64 {
    (mc_core::key128(&rigs::fixtures::ScratchpadMirror::from_real(p).encrypted_data) >> 64) as u64
}

pub fn scratchpad_family() -> Fam {
    let key = rec::pad_key(&rec::pad(OWNER, 1, b"x", OWNER));
    let mut items = vec![];
    for c in [1u64, 2, 3] {
        for (variant, signer, authentic) in [("owner-signed", OWNER, true), ("signed-by-another-key", 6u8, false), ("unsigned", 0u8, false)] {
            let p = rec::pad(OWNER, c, format!("pad-{c}").as_bytes(), signer);
            let p2 = p.clone();
            items.push(Item {
                name: format!("pad(c={c},{variant})"),
                plain: rec::pad_record(&p),
                paid: Some(Arc::new(move |pr| rec::paid_pad_record(pr, &p2))),
                counter: Some(c),
                entries: BTreeSet::new(),
                authentic,
                alien: false,
                content: pad_content(&p),
            });
        }
        // a second owner-signed version with the SAME counter and other content (two devices writing from the same base):
        // "applied only if its counter is strictly higher" — whichever of the two is stored first stays
        if c <= 2 {
            let p = rec::pad(OWNER, c, format!("pad-{c}-written-elsewhere").as_bytes(), OWNER);
            let p2 = p.clone();
            items.push(Item {
                name: format!("pad(c={c},owner-signed,other-content)"),
                plain: rec::pad_record(&p),
                paid: Some(Arc::new(move |pr| rec::paid_pad_record(pr, &p2))),
                counter: Some(c),
                entries: BTreeSet::new(),
                authentic: true,
                alien: false,
                content: pad_content(&p),
            });
        }
        // the genuine signature of the counter-1 version replayed on this counter and other content
        if c > 1 {
            let genuine1 = rigs::fixtures::ScratchpadMirror::from_real(&rec::pad(OWNER, 1, b"pad-1", OWNER));
            let mut m = rigs::fixtures::ScratchpadMirror::from_real(&rec::pad(OWNER, c, format!("replayed-{c}").as_bytes(), 0));
            m.signature = genuine1.signature.clone();
            let p = m.into_real();
            let p2 = p.clone();
            items.push(Item {
                name: format!("pad(c={c},signature-replayed-from-c=1)"),
                plain: rec::pad_record(&p),
                paid: Some(Arc::new(move |pr| rec::paid_pad_record(pr, &p2))),
                counter: Some(c),
                entries: BTreeSet::new(),
                authentic: false,
                alien: false,
                content: 0,
            });
        }
        // a validly signed pad of ANOTHER owner presented under this key
        let foreign = rec::pad(6, c, format!("foreign-{c}").as_bytes(), 6);
        let mut plain = rec::pad_record(&foreign);
        plain.key = key.clone();
        let (f2, k2) = (foreign.clone(), key.clone());
        items.push(Item {
            name: format!("pad(c={c},foreign-owner-under-this-key)"),
            plain,
            paid: Some(Arc::new(move |pr| {
                let mut r = rec::paid_pad_record(pr, &f2);
                r.key = k2.clone();
                r
            })),
            counter: Some(c),
            entries: BTreeSet::new(),
            authentic: false,
            alien: false,
            content: 0,
        });
    }
    // a valid transaction of the same owner: its address hashes the same public key, so it arrives under this very key
    let t = rec::tx(OWNER, 9, OWNER);
    if rec::tx_key(&t) == key {
        let t2 = t.clone();
        let k2 = key.clone();
        items.push(Item {
            name: "transaction-of-the-same-owner".into(),
            plain: rec::txs_record(key.clone(), &[t]),
            paid: Some(Arc::new(move |pr: &ant_evm::ProofOfPayment| {
                let mut r = rec::paid_tx_record(pr, &t2);
                r.key = k2.clone();
                r
            })),
            counter: None,
            entries: BTreeSet::new(),
            authentic: false,
            alien: true,
            content: 0,
        });
    }
    Fam { family: Family::Scratchpad, key, items }
}

pub fn transaction_family() -> Fam {
    // pool: 0,1,2 valid; 3 badly signed; 4 valid but of another owner
    let pool: Vec<Transaction> = vec![rec::tx(OWNER, 1, OWNER), rec::tx(OWNER, 2, OWNER), rec::tx(OWNER, 3, OWNER), rec::tx(OWNER, 4, 6), rec::tx(6, 5, 6)];
    let key = rec::tx_key(&pool[0]);
    let mut items = vec![];
    // every non-empty subset of size <= 2 as a replicated vector; singles also as paid uploads
    // (pairs in both orders: which entry comes first in the vector must not matter)
    let mut orders: Vec<Vec<usize>> = vec![];
    for mask in mc_core::enumerate::subsets(5, 1, 2) {
        let idx: Vec<usize> = (0..5).filter(|i| mask & (1 << i) != 0).collect();
        if idx.len() == 2 {
            orders.push(vec![idx[1], idx[0]]);
        }
        orders.push(idx);
    }
    orders.sort_by_key(|o| (o.len(), o.clone()));
    for idx in orders {
        let ts: Vec<Transaction> = idx.iter().map(|i| pool[*i].clone()).collect();
        let valid: BTreeSet<usize> = idx.iter().cloned().filter(|i| *i < 3).collect();
        let single = if ts.len() == 1 { Some(ts[0].clone()) } else { None };
        let k2 = key.clone();
        items.push(Item {
            name: format!("txs{idx:?}"),
            plain: rec::txs_record(key.clone(), &ts),
            paid: single.map(|t| {
                Arc::new(move |pr: &ant_evm::ProofOfPayment| {
                    let mut r = rec::paid_tx_record(pr, &t);
                    r.key = k2.clone();
                    r
                }) as Arc<dyn Fn(&ant_evm::ProofOfPayment) -> Record + Send + Sync>
            }),
            counter: None,
            entries: valid.clone(),
            authentic: !valid.is_empty(),
            alien: false,
            content: 0,
        });
    }
    // a valid scratchpad of the same owner: its address hashes the same public key, so it arrives under this very key
    let p = rec::pad(OWNER, 5, b"pad of the same owner", OWNER);
    if rec::pad_key(&p) == key {
        let p2 = p.clone();
        let k2 = key.clone();
        items.push(Item {
            name: "scratchpad-of-the-same-owner(c=5)".into(),
            plain: rec::pad_record(&p),
            paid: Some(Arc::new(move |pr: &ant_evm::ProofOfPayment| {
                let mut r = rec::paid_pad_record(pr, &p2);
                r.key = k2.clone();
                r
            })),
            counter: None,
            entries: BTreeSet::new(),
            authentic: false,
            alien: true,
            content: 0,
        });
    }
    Fam { family: Family::Transaction, key, items }
}

pub fn register_family() -> Fam {
    let fx = rec::reg_fixture(OWNER, b"c07-register");
    let key = rec::reg_key(&fx.base);
    let mut items = vec![];
    for mask in 0u32..8 {
        let idx: Vec<usize> = (0..3).filter(|i| mask & (1 << i) != 0).collect();
        let r = fx.with_ops(&idx);
        let r2 = r.clone();
        items.push(Item {
            name: format!("reg(ops{idx:?})"),
            plain: rec::reg_record(&r),
            paid: Some(Arc::new(move |pr| rec::paid_reg_record(pr, &r2))),
            counter: None,
            entries: idx.iter().cloned().collect(),
            authentic: true,
            alien: false,
            content: 0,
        });
    }
    // a register whose owner signature is invalid (base signed by another key), carrying op 2
    let forged = {
        let good = fx.with_ops(&[2]);
        let j = serde_json::to_value(&good).unwrap();
        let other = rec::reg_fixture(6, b"c07-register").base;
        let jo = serde_json::to_value(&other).unwrap();
        let mut jj = j.clone();
        jj["signature"] = jo["signature"].clone();
        serde_json::from_value::<SignedRegister>(jj).unwrap()
    };
    let f2 = forged.clone();
    items.push(Item {
        name: "reg(ops[2],forged-owner-signature)".into(),
        plain: rec::reg_record(&forged),
        paid: Some(Arc::new(move |pr| rec::paid_reg_record(pr, &f2))),
        counter: None,
        entries: BTreeSet::from([2]),
        authentic: false,
        alien: false,
        content: 0,
    });
    Fam { family: Family::Register, key, items }
}

/// What the node holds for the family's key, in the reference's terms.
#[derive(Clone, Debug, PartialEq, Eq)]
pub enum Held {
    Nothing,
    Pad { counter: u64, valid: bool, owner_ok: bool, content: u64 },
    Set(BTreeSet<usize>),
    Undecodable,
}

pub fn observe(rig: &mut NodeRig, fam: &Fam) -> Held {
    let Some(bytes) = rig.stored(&fam.key) else { return Held::Nothing };
    let r = Record { key: fam.key.clone(), value: bytes, publisher: None, expires: None };
    match fam.family {
        Family::Scratchpad => match try_deserialize_record::<Scratchpad>(&r) {
            Ok(p) => {
                // validity judged independently of the code under test: BLS verification of the signing bytes
                let m = rigs::fixtures::ScratchpadMirror::from_real(&p);
                let valid = m.signature.as_ref().map(|sig| p.owner().verify(sig, rigs::fixtures::ScratchpadMirror::signing_bytes(m.counter, &m.encrypted_data))).unwrap_or(false);
                Held::Pad { counter: p.count(), valid, owner_ok: rec::pad_key(&p) == fam.key, content: pad_content(&p) }
            }
            Err(_) => Held::Undecodable,
        },
        Family::Transaction => match try_deserialize_record::<Vec<Transaction>>(&r) {
            Ok(ts) => {
                let pool: Vec<Transaction> = vec![rec::tx(OWNER, 1, OWNER), rec::tx(OWNER, 2, OWNER), rec::tx(OWNER, 3, OWNER), rec::tx(OWNER, 4, 6), rec::tx(6, 5, 6)];
                Held::Set(ts.iter().map(|t| pool.iter().position(|p| p == t).unwrap_or(99)).collect())
            }
            Err(_) => Held::Undecodable,
        },
        Family::Register => match try_deserialize_record::<SignedRegister>(&r) {
            Ok(reg) => {
                if reg.verify().is_err() {
                    return Held::Undecodable;
                }
                let fx = rec::reg_fixture(OWNER, b"c07-register");
                Held::Set(reg.ops().iter().map(|o| fx.ops.iter().position(|p| p == o).unwrap_or(99)).collect())
            }
            Err(_) => Held::Undecodable,
        },
    }
}

/// The reference: fold of the deliveries, from the statement.
#[derive(Clone, Debug, PartialEq, Eq)]
pub struct Reference {
    pub held: bool,
    pub counter: u64,
    /// payload identity of the version that set `counter`
    pub content: u64,
    pub set: BTreeSet<usize>,
}

impl Reference {
    pub fn new() -> Reference {
        Reference { held: false, counter: 0, content: 0, set: BTreeSet::new() }
    }
    /// Apply one delivery. Returns whether the delivery is admissible at all.
    pub fn deliver(&mut self, fam: &Fam, item: &Item, path: Path) -> bool {
        // an unpaid update needs the key to be held already; a paid upload / replicated copy does not
        let path_ok = match path {
            Path::Unpaid => self.held && fam.family != Family::Transaction,
            Path::Paid => item.paid.is_some(),
            Path::Replicated => true,
        };
        if !path_ok || !item.authentic {
            return false;
        }
        match fam.family {
            Family::Scratchpad => {
                let c = item.counter.unwrap();
                if !self.held || c > self.counter {
                    self.counter = c;
                    self.content = item.content;
                }
                self.held = true;
            }
            _ => {
                self.set.extend(item.entries.iter().cloned());
                self.held = true;
            }
        }
        true
    }
    pub fn expected(&self, fam: &Fam) -> Held {
        if !self.held {
            return Held::Nothing;
        }
        match fam.family {
            Family::Scratchpad => Held::Pad { counter: self.counter, valid: true, owner_ok: true, content: self.content },
            _ => Held::Set(self.set.clone()),
        }
    }
}

fn safety(fam: &Fam, held: &Held, fails: &mut Vec<Fail>, ctx: &str) {
    match held {
        Held::Undecodable => fails.push(Fail::new("stored-is-authentic", "undecodable", format!("{ctx}: the stored record does not decode / verify"))),
        Held::Pad { valid, owner_ok, .. } => {
            if !valid || !owner_ok {
                fails.push(Fail::new("stored-is-authentic", "invalid-scratchpad", format!("{ctx}: stored scratchpad valid={valid} owner_matches_key={owner_ok}")));
            }
        }
        Held::Set(s) => {
            if s.iter().any(|i| *i >= 3) {
                fails.push(Fail::new("stored-is-authentic", "foreign-or-invalid-entry", format!("{ctx}: stored {:?} set contains an invalidly signed or foreign entry: {s:?}", fam.family)));
            }
        }
        Held::Nothing => {}
    }
}

// ---------------------------------------------------------------------------------------------
// sequential BFS

#[derive(Clone, Debug)]
pub struct Deliver {
    pub item: usize,
    pub name: String,
    pub path: Path,
}

pub struct SeqSys {
    rig: NodeRig,
    fam: Arc<Fam>,
    reference: Reference,
    last: Held,
    scratch: PathBuf,
}

impl Drop for SeqSys {
    fn drop(&mut self) {
        let _ = std::fs::remove_dir_all(&self.scratch);
    }
}

thread_local! {
    static STUB: Arc<EvmStub> = Arc::new(EvmStub::start());
}

impl SeqSys {
    fn new(fam: Arc<Fam>) -> SeqSys {
        let scratch = fresh_scratch("c07");
        let stub = STUB.with(|s| s.clone());
        stub.set(Chain::Paid);
        let mut rig = NodeRig::new(1, &scratch, stub);
        rig.add_peers(&[2, 3]);
        SeqSys { rig, fam, reference: Reference::new(), last: Held::Nothing, scratch }
    }
    fn apply(&mut self, a: &Deliver) -> Option<Result<(), String>> {
        let item = self.fam.items[a.item].clone();
        let node = self.rig.node.clone();
        match a.path {
            Path::Paid => {
                let r = (item.paid.as_ref().unwrap())(&proof_for(&self.fam.key));
                self.rig.run("paid", async move { node.validate_and_store_record(r).await })
            }
            Path::Unpaid => {
                let r = item.plain.clone();
                self.rig.run("unpaid", async move { node.validate_and_store_record(r).await })
            }
            Path::Replicated => {
                let r = item.plain.clone();
                self.rig.run("replicated", async move { node.store_replicated_in_record(r).await })
            }
        }
    }
}

impl System for SeqSys {
    type Action = Deliver;
    fn actions(&self) -> Vec<Deliver> {
        let mut v = vec![];
        for (i, it) in self.fam.items.iter().enumerate() {
            for path in [Path::Replicated, Path::Unpaid, Path::Paid] {
                if path == Path::Paid && it.paid.is_none() {
                    continue;
                }
                if path == Path::Unpaid && self.fam.family == Family::Transaction && !it.alien {
                    continue; // there is no unpaid transaction upload
                }
                if it.alien && (self.last == Held::Nothing || (path == Path::Unpaid && self.fam.family == Family::Scratchpad)) {
                    continue; // a record of the other kind is only offered against something already held (on an empty node it is simply a valid upload)
                }
                v.push(Deliver { item: i, name: it.name.clone(), path });
            }
        }
        v
    }
    fn step(&mut self, a: &Deliver, fails: &mut Vec<Fail>) {
        let res = self.apply(a);
        let item = &self.fam.items[a.item];
        self.reference.deliver(&self.fam, item, a.path);
        let held = observe(&mut self.rig, &self.fam);
        let ctx = format!("after {} via {:?} (result {res:?})", item.name, a.path);
        safety(&self.fam, &held, fails, &ctx);
        // never regresses
        if let (Held::Pad { counter: before, .. }, Held::Pad { counter: after, .. }) = (&self.last, &held) {
            if after < before {
                fails.push(Fail::new("never-regresses", "sequential", format!("{ctx}: counter went from {before} to {after}")));
            }
        }
        if let (Held::Set(before), Held::Set(after)) = (&self.last, &held) {
            if !before.is_subset(after) {
                fails.push(Fail::new("never-regresses", "sequential", format!("{ctx}: stored set shrank from {before:?} to {after:?}")));
            }
        }
        if self.last != Held::Nothing && held == Held::Nothing {
            fails.push(Fail::new("never-regresses", "vanished", format!("{ctx}: the record vanished")));
        }
        let want = self.reference.expected(&self.fam);
        if held != want {
            let trig = match (&held, &want) {
                (Held::Nothing, _) => "valid-delivery-not-stored",
                (Held::Pad { counter: h, .. }, Held::Pad { counter: w, .. }) if h < w => "lower-counter-kept",
                (Held::Pad { counter: h, valid: true, owner_ok: true, .. }, Held::Pad { counter: w, .. }) if h == w => "same-counter-other-content-applied",
                (Held::Pad { .. }, Held::Pad { .. }) => "higher-counter-than-delivered",
                (Held::Set(h), Held::Set(w)) if h.is_subset(w) => "entries-missing",
                _ => "other",
            };
            fails.push(Fail::new("stored-equals-reference", trig, format!("{ctx}: node holds {held:?}, the deliveries so far determine {want:?}")));
        }
        self.last = held;
    }
    fn canon(&self) -> Vec<u8> {
        format!("{:?}|{:?}", self.last, self.reference).into_bytes()
    }
}

// ---------------------------------------------------------------------------------------------
// concurrent pairs

fn conc_pairs(run: &Run, fam: Arc<Fam>, bound: usize) {
    // deliveries used for overlap: authentic items only, via the paths that need no contract call
    let auth: Vec<usize> = (0..fam.items.len()).filter(|i| fam.items[*i].authentic).collect();
    let pick: Vec<usize> = match fam.family {
        Family::Scratchpad => auth.iter().cloned().filter(|i| !fam.items[*i].name.contains("other-content")).collect(), // counters 1,2,3 (which of two equal counters is "first" is undefined under overlap)
        Family::Transaction => auth.iter().cloned().filter(|i| fam.items[*i].entries.len() == 1).collect(),
        Family::Register => auth.iter().cloned().filter(|i| fam.items[*i].entries.len() == 1).collect(),
    };
    let prior_choices: Vec<Option<usize>> = vec![None, Some(pick[0])];
    for prior in &prior_choices {
        for &a in &pick {
            for &b in &pick {
                if a == b {
                    continue;
                }
                for paths in [(Path::Replicated, Path::Replicated), (Path::Unpaid, Path::Replicated)] {
                    if paths.0 == Path::Unpaid && (prior.is_none() || fam.family == Family::Transaction) {
                        continue;
                    }
                    if prior.is_some() && (*prior == Some(a) || *prior == Some(b)) && fam.family != Family::Scratchpad {
                        continue;
                    }
                    let label = format!("{:?}: prior={:?} || {} via {:?} || {} via {:?}", fam.family, prior.map(|p| fam.items[p].name.clone()), fam.items[a].name, paths.0, fam.items[b].name, paths.1);
                    let outcomes: Mutex<BTreeSet<String>> = Mutex::new(BTreeSet::new());
                    let fam2 = fam.clone();
                    let st = explore(
                        run,
                        SchedOpts { label: label.clone(), bound, wall_cap: Some(Duration::from_secs(run.pick(20, 600))), exec_cap: None },
                        |ch: &mut Chooser| {
                            let scratch = fresh_scratch("c07c");
                            let stub = STUB.with(|s| s.clone());
                            let mut rig = NodeRig::new(1, &scratch, stub);
                            let mut reference = Reference::new();
                            if let Some(p) = prior {
                                let (n, r) = (rig.node.clone(), fam2.items[*p].plain.clone());
                                let _ = rig.run("prior", async move { n.store_replicated_in_record(r).await });
                                reference.deliver(&fam2, &fam2.items[*p], Path::Replicated);
                            }
                            // both deliveries are admissible whatever their order (same key already held or replication)
                            for (it, path) in [(a, paths.0), (b, paths.1)] {
                                reference.deliver(&fam2, &fam2.items[it], path);
                                let (n, r) = (rig.node.clone(), fam2.items[it].plain.clone());
                                match path {
                                    Path::Replicated => {
                                        rig.d.exec.add(&format!("deliver:{}", fam2.items[it].name), async move {
                                            let _ = n.store_replicated_in_record(r).await;
                                        });
                                    }
                                    _ => {
                                        rig.d.exec.add(&format!("deliver:{}", fam2.items[it].name), async move {
                                            let _ = n.validate_and_store_record(r).await;
                                        });
                                    }
                                }
                            }
                            let mut steps = 0;
                            loop {
                                // Tasks of `replicate_valid_fresh_record` (and what they spawn) only read the store and
                                // talk to neighbours: they cannot influence what is stored, so they run after everything
                                // else has quiesced. This also keeps their reads out of the read/write log used below.
                                let en_all = rig.d.enabled_steps();
                                let is_observer = |id: usize| -> bool {
                                    let mut cur = Some(id);
                                    while let Some(c) = cur {
                                        let info = rig.d.exec.info(c);
                                        if info.func.ends_with("::replicate_valid_fresh_record") {
                                            return true;
                                        }
                                        cur = info.parent;
                                    }
                                    false
                                };
                                let primary: Vec<Step> = en_all.iter().cloned().filter(|s| !matches!(s, Step::Poll(id) if is_observer(*id))).collect();
                                let en = if primary.is_empty() { en_all } else { primary };
                                if en.is_empty() {
                                    break;
                                }
                                steps += 1;
                                if steps > 5000 {
                                    run.machinery_error(&format!("C07 concurrent execution did not quiesce within 5000 steps: {label}"));
                                }
                                let c = if en.len() == 1 { 0 } else { ch.choose(en.len(), "step") };
                                let s: Step = en[c];
                                rig.d.take_step(s);
                            }
                            let held = observe(&mut rig, &fam2);
                            let want = reference.expected(&fam2);
                            outcomes.lock().unwrap().insert(format!("{held:?}"));
                            run.outcome(format!("{label}:{held:?}").as_bytes());
                            let mut fails = vec![];
                            safety(&fam2, &held, &mut fails, "after both deliveries settled");
                            if held != want {
                                // The known race: the update that is written last read the local copy BEFORE the other
                                // update's write was handled by the driver (a stale read). If instead it read the copy
                                // after that write had been handled and still lost data, it is a different defect.
                                let kx = crate::store_rig::hexkey(&fam2.key);
                                let rw: Vec<&str> = rig.d.rw_log.iter().filter(|e| e.ends_with(&kx)).map(|e| &e[..1]).collect();
                                let last_w = rw.iter().rposition(|e| *e == "W");
                                let prev_w = last_w.and_then(|l| rw[..l].iter().rposition(|e| *e == "W"));
                                let stale_read = match (prev_w, last_w) {
                                    (Some(p), Some(l)) => !rw[p + 1..l].contains(&"R"),
                                    _ => false,
                                };
                                let trig = match (&held, &want, stale_read) {
                                    (Held::Pad { counter: h, .. }, Held::Pad { counter: w, .. }, true) if h < w => "overlapping-updates-lower-counter-wins",
                                    (Held::Set(h), Held::Set(w), true) if h.is_subset(w) => "overlapping-updates-entry-lost",
                                    (Held::Pad { counter: h, .. }, Held::Pad { counter: w, .. }, false) if h < w => "lower-counter-written-after-fresh-read",
                                    (Held::Set(h), Held::Set(w), false) if h.is_subset(w) => "entry-lost-after-fresh-read",
                                    _ => "other",
                                };
                                fails.push(Fail::new("stored-equals-reference", trig, format!("both deliveries settled: node holds {held:?}, deliveries determine {want:?}")));
                            }
                            for f in fails {
                                run.violation(&f.clause, &f.trigger, format!("{label}: {}", f.what), json!({"engine":"sched","pair": label, "choices": ch.choices(), "deviations": ch.deviations()}));
                            }
                            drop(rig);
                            let _ = std::fs::remove_dir_all(&scratch);
                        },
                    );
                    let n_out = outcomes.lock().unwrap().len();
                    if st.executions > 10 && n_out == 1 {
                        run.count("pairs_with_single_outcome", 1);
                    } else {
                        run.count("pairs_with_several_outcomes", 1);
                    }
                }
            }
        }
    }
}

/// After the node's read cache has rolled over (more unrelated records than it holds have been stored since), the
/// stored mutable record is still the one the deliveries determine — judged on what the store serves from disk.
fn after_cache_rollover(run: &Run) {
    for fam in [scratchpad_family(), transaction_family(), register_family()] {
        let fam = Arc::new(fam);
        let mut sys = SeqSys::new(fam.clone());
        // the authentic items in ascending order of what they contribute, each by replication
        let mut auth: Vec<usize> = (0..fam.items.len()).filter(|i| fam.items[*i].authentic && !fam.items[*i].alien).collect();
        auth.sort_by_key(|i| (fam.items[*i].counter, fam.items[*i].entries.len(), *i));
        let picks: Vec<usize> = match fam.family {
            Family::Scratchpad => vec![auth[0], *auth.last().unwrap()],
            _ => auth.iter().take(2).cloned().collect(),
        };
        let mut sink = vec![];
        for i in &picks {
            sys.step(&Deliver { item: *i, name: fam.items[*i].name.clone(), path: Path::Replicated }, &mut sink);
        }
        let want = sys.reference.expected(&fam);
        // 30 unrelated chunks through the same node: the read cache (25 entries) forgets the record
        for n in 0..30u32 {
            let c = rec::chunk(format!("c07 rollover filler {n}").as_bytes());
            let (node, r) = (sys.rig.node.clone(), rec::chunk_record(&c));
            let _ = sys.rig.run("filler", async move { node.store_replicated_in_record(r).await });
        }
        let held = observe(&mut sys.rig, &fam);
        let desc = json!({"engine": "directed", "family": format!("{:?}", fam.family), "delivered": picks.iter().map(|i| fam.items[*i].name.clone()).collect::<Vec<_>>(), "then": "30 unrelated chunks"});
        run.case(desc.to_string().as_bytes(), true);
        if held != want {
            run.violation(
                "stored-equals-reference",
                "after-the-read-cache-rolled-over",
                format!("{:?}: after {:?} and 30 unrelated records the node serves {held:?}, the deliveries determine {want:?}", fam.family, desc["delivered"]),
                desc.clone(),
            );
        }
        // and a lower / already contained delivery afterwards changes nothing
        let again = picks[0];
        sys.step(&Deliver { item: again, name: fam.items[again].name.clone(), path: Path::Replicated }, &mut sink);
        let held2 = observe(&mut sys.rig, &fam);
        if held2 != want {
            run.violation("never-regresses", "after-the-read-cache-rolled-over", format!("{:?}: re-delivering {} after the cache rolled over left {held2:?}, expected {want:?}", fam.family, fam.items[again].name), desc);
        }
    }
}


/// A first delivery whose disk write fails (a directory squats on the record's file name; the fault is gone
/// afterwards). What the node *serves at rest* must never go backwards: whatever it serves once everything has settled
/// stays at least that — through 30 unrelated records (the read cache rolls over) and a later, older delivery. A node
/// that serves nothing after the failed write may take the older version as its first; a node that goes on serving the
/// version whose write failed must not lose it again.
fn after_failed_first_write(run: &Run) {
    for fam in [scratchpad_family(), transaction_family(), register_family()] {
        let fam = Arc::new(fam);
        let mut sys = SeqSys::new(fam.clone());
        let mut auth: Vec<usize> = (0..fam.items.len()).filter(|i| fam.items[*i].authentic && !fam.items[*i].alien).collect();
        auth.sort_by_key(|i| (fam.items[*i].counter, fam.items[*i].entries.len(), *i));
        // the newest version first, the oldest later (for the set families: two different entries)
        let (first, later) = match fam.family {
            Family::Scratchpad => (*auth.last().unwrap(), auth[0]),
            _ => (auth[1], auth[0]),
        };
        let squat = sys.scratch.join("record_store").join(hex::encode(fam.key.as_ref()));
        std::fs::create_dir_all(&squat).expect("squat");
        let r1 = sys.apply(&Deliver { item: first, name: fam.items[first].name.clone(), path: Path::Replicated });
        sys.rig.settle();
        let _ = std::fs::remove_dir(&squat);
        if squat.exists() {
            run.machinery_error("C07: the squatting directory could not be removed again");
        }
        let o1 = observe(&mut sys.rig, &fam);
        for n in 0..30u32 {
            let c = rec::chunk(format!("c07 failed-write filler {n}").as_bytes());
            let (node, r) = (sys.rig.node.clone(), rec::chunk_record(&c));
            let _ = sys.rig.run("filler", async move { node.store_replicated_in_record(r).await });
        }
        let o2 = observe(&mut sys.rig, &fam);
        let r3 = sys.apply(&Deliver { item: later, name: fam.items[later].name.clone(), path: Path::Replicated });
        sys.rig.settle();
        let o3 = observe(&mut sys.rig, &fam);
        let desc = json!({"engine": "directed", "family": format!("{:?}", fam.family), "history": [format!("{} delivered while the record's file cannot be written ({r1:?})", fam.items[first].name), "30 unrelated chunks".to_string(), format!("{} delivered ({r3:?})", fam.items[later].name)], "served_at_rest": [format!("{o1:?}"), format!("{o2:?}"), format!("{o3:?}")]});
        run.case(desc.to_string().as_bytes(), true);
        run.outcome(format!("failed-first-write:{:?}:{}", fam.family, o1 == Held::Nothing).as_bytes());
        let not_below = |a: &Held, b: &Held| -> bool {
            // b is at least a
            match (a, b) {
                (Held::Nothing, _) => true,
                (Held::Pad { counter: x, .. }, Held::Pad { counter: y, .. }) => y >= x,
                (Held::Set(x), Held::Set(y)) => x.is_subset(y),
                _ => false,
            }
        };
        for (from, to, what) in [(&o1, &o2, "after 30 unrelated records"), (&o1, &o3, "after the older delivery"), (&o2, &o3, "after the older delivery")] {
            if !not_below(from, to) {
                run.violation("never-regresses", "after-a-failed-first-write", format!("{:?}: the node served {from:?} at rest and serves {to:?} {what} ({desc})", fam.family), desc.clone());
                break;
            }
        }
        for o in [&o1, &o2, &o3] {
            let mut fails = vec![];
            safety(&fam, o, &mut fails, "after a failed first write");
            for f in fails {
                run.violation(&f.clause, &f.trigger, f.what, desc.clone());
            }
        }
    }
}

pub fn main(tier: Option<&str>) {
    let run = Run::new("C07", "model_checking", tier);
    run.rule(
        "(seq) BFS, replay mode: deliveries of every item of a family (scratchpads: counters 1..3 x {owner-signed, owner-signed with other content (counters 1, 2), other key, unsigned, foreign \
         owner under this key}; transactions: every vector of <=2 distinct entries (both orders) of a 5-entry pool incl. badly signed and foreign; registers: all 8 op subsets + forged; plus, against held content, a valid record of the *other* kind that shares the key (a scratchpad and a transaction set of one owner hash the same public key) \
         base) via {replication, unpaid update, paid upload} to one real Node, each run to quiescence; state = (held value, reference). \
         (rollover) per family two authentic deliveries, then 30 unrelated chunks so that the 25-entry read cache forgets the record, then the read and a re-delivery; (failed first write) per family the newest version delivered while the record's file cannot be written, 30 unrelated chunks, the oldest version: what the node serves at rest never goes backwards. (conc) every ordered pair of authentic single deliveries to one key, with and without prior content, both futures live: \
         stateless DFS over all interleavings of future polls / command handling / write and notification tasks with <=1(2) deviations from FIFO.",
    );
    run.assume("paid uploads use an always-paying contract stub (payment conditions are C03's subject)");
    run.assume("concurrent part: the read-only replicate_valid_fresh_record tasks are scheduled after everything else has quiesced (they cannot change what is stored)");
    run.assume("concurrent part: deliveries via replication and unpaid update only (no contract I/O inside the explored schedules)");
    let fams = [Arc::new(scratchpad_family()), Arc::new(transaction_family()), Arc::new(register_family())];
    for fam in &fams {
        let f = fam.clone();
        bfs_replay(
            &run,
            BfsOpts { max_depth: run.pick(3, 4), wall_cap: Some(Duration::from_secs(run.pick(40, 900))), state_cap: None, label: format!("seq/{:?}", fam.family) },
            || SeqSys::new(f.clone()),
        );
    }
    let bound = run.pick(1, 2);
    for fam in &fams {
        conc_pairs(&run, fam.clone(), bound);
    }
    after_cache_rollover(&run);
    after_failed_first_write(&run);
    run.finish();
}
