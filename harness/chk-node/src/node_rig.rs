//! Node rig: a real `Node` (hook constructor) over the `Network` handle of a real `SwarmDriver`;
//! the harness pumps the driver's channels and runs every spawned task. The payment contract is
//! the loopback JSON-RPC stub, reached through `EvmNetwork::Custom`.
use crate::driver_rig::DriverRig;
use crate::evm_stub::EvmStub;
use ant_networking::verif_hooks::UnifiedRecordStore;
use ant_node::verif_hooks::VerifNode;
use libp2p::kad::store::RecordStore;
use libp2p::kad::RecordKey;
use std::future::Future;
use std::path::Path;
use std::sync::{Arc, Mutex};

pub struct NodeRig {
    pub d: DriverRig,
    pub node: VerifNode,
    pub stub: Arc<EvmStub>,
}

impl NodeRig {
    pub fn new(identity: u8, root: &Path, stub: Arc<EvmStub>) -> NodeRig {
        let d = DriverRig::new_node(identity, root);
        let node = VerifNode::new(d.network.clone(), stub.network(), ant_evm::RewardsAddress::from([identity; 20]));
        NodeRig { d, node, stub }
    }

    /// Put fixture peers into the routing table so that they count as "known close".
    pub fn add_peers(&mut self, ids: &[u8]) {
        for (i, id) in ids.iter().enumerate() {
            let addr = format!("/ip4/127.0.0.1/udp/{}/quic-v1", 20000 + i).parse().unwrap();
            let ok = self.d.driver.verif_add_peer(rigs::fixtures::peer_id(*id), addr);
            assert!(ok || ids.len() > 20, "routing table insert of fixture peer {id}");
        }
    }

    /// Default schedule until nothing moves; waits for loopback I/O (the contract call) when a
    /// task is blocked and the stub has been active recently.
    pub fn settle(&mut self) {
        self.settle_until(|| true)
    }

    /// Run everything to quiescence. Whether a task blocked on loopback I/O will still be answered cannot be seen from
    /// here, so "nothing moved for a while" ends the wait only once `done()` holds (the operation the caller is
    /// interested in has produced its result); until then the wait goes on for up to 60 s without any progress — on a
    /// loaded machine the stub's thread may not be scheduled for longer than any short grace period, and taking that
    /// for "the upload never completes" was a false alarm.
    pub fn settle_until(&mut self, done: impl Fn() -> bool) {
        let mut idle_turns = 0;
        let mut last_progress = std::time::Instant::now();
        loop {
            self.d.settle();
            if self.d.exec.unfinished().is_empty() {
                break;
            }
            // blocked tasks: let tokio's I/O and timer driver (and hyper's own tasks) make progress
            self.d.exec.runtime().block_on(async { tokio::time::sleep(std::time::Duration::from_millis(1)).await });
            if !self.d.exec.runnable().is_empty() {
                idle_turns = 0;
                last_progress = std::time::Instant::now();
                continue;
            }
            idle_turns += 1;
            let stub_busy = self.stub.idle_for() < std::time::Duration::from_millis(40);
            if done() {
                if idle_turns > 25 && !stub_busy {
                    break; // whatever is left waits for the outside world (parked requests) or a long timer
                }
                if idle_turns > 3000 {
                    break;
                }
            } else if last_progress.elapsed() > std::time::Duration::from_secs(60) {
                break;
            }
        }
    }

    /// Run a harness-owned future under the default schedule; None if it never finished.
    pub fn run<T: Send + 'static>(&mut self, tag: &str, fut: impl Future<Output = T> + Send + 'static) -> Option<T> {
        let slot: Arc<Mutex<Option<T>>> = Arc::new(Mutex::new(None));
        let s2 = slot.clone();
        let _id = self.d.exec.add(tag, async move {
            let r = fut.await;
            *s2.lock().unwrap() = Some(r);
        });
        let s3 = slot.clone();
        self.settle_until(move || s3.lock().unwrap().is_some());
        let r = slot.lock().unwrap().take();
        r
    }

    /// Like `run`, for rigs that do no loopback I/O: never waits for the I/O driver.
    pub fn run_no_io<T: Send + 'static>(&mut self, tag: &str, fut: impl Future<Output = T> + Send + 'static) -> Option<T> {
        let slot: Arc<Mutex<Option<T>>> = Arc::new(Mutex::new(None));
        let s2 = slot.clone();
        let _id = self.d.exec.add(tag, async move {
            let r = fut.await;
            *s2.lock().unwrap() = Some(r);
        });
        self.d.settle();
        let r = slot.lock().unwrap().take();
        r
    }

    fn node_store(&mut self) -> &mut ant_networking::NodeRecordStore {
        match self.d.store() {
            UnifiedRecordStore::Node(s) => s,
            UnifiedRecordStore::Client(_) => panic!("node rig with a client store"),
        }
    }
    pub fn set_max_records(&mut self, n: usize) {
        self.node_store().verif_set_max_records(n);
    }
    pub fn stored(&mut self, key: &RecordKey) -> Option<Vec<u8>> {
        self.node_store().get(key).map(|r| r.into_owned().value)
    }
    pub fn contains(&mut self, key: &RecordKey) -> bool {
        self.node_store().verif_contains(key)
    }
    pub fn listed(&mut self) -> Vec<String> {
        let mut v: Vec<String> = self.node_store().verif_record_addresses().into_iter().map(|(a, t)| format!("{}:{t:?}", hex::encode(a.to_record_key().as_ref()))).collect();
        v.sort();
        v
    }
    pub fn payments(&mut self) -> usize {
        self.node_store().verif_view().received_payment_count
    }
}
