//! C10 — store capacity, distance-based eviction and quoting metrics are exact.
//! BFS (replay mode) over Put / SetRange / Payment / Cleanup / Restart plus every scheduling of
//! the store's background tasks (writes, deletes, notification sends, metrics flushes in any
//! order) on a real `NodeRecordStore` with capacity 2 or 3; a second part loads the store to just
//! below / at / above the clean-up threshold and checks clean-up exactly.
use crate::c01::fresh_scratch;
use crate::store_rig::{hexkey, ranked_keys, short, RigCfg, StoreRig};
use ant_evm::U256;
use ant_protocol::NetworkAddress;
use libp2p::kad::RecordKey;
use mc_core::bfs::{bfs_replay, BfsOpts, Fail, System};
use mc_core::Run;
use rigs::reference::{xor_distance, U256Be};
use std::collections::BTreeSet;
use std::path::PathBuf;

const NKEYS: usize = 4;

#[derive(Clone, Debug)]
pub enum Act {
    Put { k: usize, v: usize },
    /// RecordStore::remove of a held key with nothing of it in flight (as the driver does for a failed write or a clean-up)
    Remove { k: usize },
    /// `RecordStore::put`, the entry point of a record arriving over kad: it only forwards the record for validation.
    /// Nothing has been accepted yet, so nothing may be evicted, listed or counted
    KadPut { k: usize },
    /// responsible range set strictly between the distances of rank `below` and `below+1` (0 = nearer than every key)
    SetRange { gap: usize },
    Payment,
    Cleanup,
    Restart,
    RunTask { i: usize, what: String },
    Deliver { what: String },
}

struct Uni {
    keys: Vec<RecordKey>,
    dist: Vec<U256Be>,
    /// gap g -> a range value strictly between rank g-1 and rank g
    ranges: Vec<U256>,
}

/// XOR distance between a node's address and a record key, as the integer the store compares.
pub fn distance_u256(me: &NetworkAddress, k: &libp2p::kad::RecordKey) -> U256 {
    u256(&xor_distance(&me.as_bytes(), k.as_ref()))
}

fn u256(b: &U256Be) -> U256 {
    U256::from_be_bytes(*b)
}

fn universe(salt: &str, n: usize) -> Uni {
    let peer = rigs::fixtures::peer_id(1);
    let me = NetworkAddress::from_peer(peer).as_bytes();
    let keys = ranked_keys(peer, n, salt);
    let dist: Vec<U256Be> = keys.iter().map(|k| xor_distance(&me, k.as_ref())).collect();
    let mut ranges = vec![];
    for g in 0..=n {
        let lo = if g == 0 { U256::ZERO } else { u256(&dist[g - 1]) };
        let hi = if g == n { U256::MAX } else { u256(&dist[g]) };
        ranges.push(lo + (hi - lo) / U256::from(2u8));
    }
    Uni { keys, dist, ranges }
}

pub struct Sys {
    rig: Option<StoreRig>,
    uni: std::sync::Arc<Uni>,
    capacity: usize,
    /// accepted puts whose completion notification has not been handled yet (per key)
    unacked: Vec<usize>,
    range_gap: Option<usize>,
    payments: usize,
    /// false once a restart happened while a metrics flush was still pending (count then unconstrained until re-synced)
    payments_known: bool,
    burst: bool,
    /// a restart happened while record tasks or notifications were pending (an interrupted
    /// eviction can leave an extra file): the capacity bound is not judged from then on
    unclean_restart: bool,
    api_used: usize,
    api_max: usize,
    scratch: PathBuf,
}

impl Drop for Sys {
    fn drop(&mut self) {
        self.rig = None;
        let _ = std::fs::remove_dir_all(&self.scratch);
    }
}

impl Sys {
    fn new(uni: std::sync::Arc<Uni>, capacity: usize, api_max: usize, prefill: &[usize]) -> Sys {
        let scratch = fresh_scratch("c10");
        let mut rig = StoreRig::new(&scratch, RigCfg { max_records: capacity, cache_size: 25, max_value_bytes: None }, rigs::fixtures::peer_id(1));
        rig.settle();
        let mut s = Sys { rig: Some(rig), uni, capacity, unacked: vec![0; NKEYS], range_gap: None, payments: 0, payments_known: true, burst: false, unclean_restart: false, api_used: 0, api_max, scratch };
        for k in prefill {
            s.apply(&Act::Put { k: *k, v: 0 }, &mut vec![]);
            s.rig.as_mut().unwrap().settle();
            s.unacked = vec![0; NKEYS];
        }
        s.api_used = 0;
        s.burst = false;
        s
    }
    fn rig(&self) -> &StoreRig {
        self.rig.as_ref().unwrap()
    }
    fn rigm(&mut self) -> &mut StoreRig {
        self.rig.as_mut().unwrap()
    }
    fn held(&self) -> BTreeSet<usize> {
        let v = self.rig().view();
        (0..NKEYS).filter(|k| v.records.iter().any(|(x, _)| *x == self.uni.keys[*k])).collect()
    }
    fn value(k: usize, v: usize) -> Vec<u8> {
        [&[0x91u8, 1][..], format!("c10-{k}-{v}").as_bytes()].concat()
    }
    fn trigger(&self) -> &'static str {
        if self.burst {
            "burst-of-unacknowledged-puts"
        } else {
            "plain"
        }
    }

    fn check_always(&self, fails: &mut Vec<Fail>) {
        let held = self.held();
        let inflight: usize = self.unacked.iter().sum();
        if held.len() > self.capacity + inflight && !self.unclean_restart {
            fails.push(Fail::new(
                "capacity-bound",
                self.trigger(),
                format!("{} records held with capacity {} and {} writes in flight", held.len(), self.capacity, inflight),
            ));
        }
        // quoting metrics
        let (qm, _) = self.rig().store.verif_quoting_metrics(&self.uni.keys[0], None);
        let want_close = match self.range_gap {
            None => held.len(),
            Some(g) => held.iter().filter(|k| **k < g).count(),
        };
        if qm.close_records_stored != want_close {
            fails.push(Fail::new(
                "metrics-records",
                self.trigger(),
                format!("quoting metrics report {} close records; held {:?}, range gap {:?} => {}", qm.close_records_stored, held, self.range_gap, want_close),
            ));
        }
        if qm.max_records != self.capacity {
            fails.push(Fail::new("metrics-capacity", "plain", format!("quoting metrics report capacity {}, configured {}", qm.max_records, self.capacity)));
        }
        if self.payments_known && qm.received_payment_count != self.payments {
            fails.push(Fail::new("metrics-payments", "in-memory", format!("quoting metrics report {} payments, {} were received", qm.received_payment_count, self.payments)));
        }
        // the store's idea of its farthest record is the farthest of what it holds
        // (asked through the store's own get_farthest(), which is what the driver reports to the replication fetcher)
        let far = self.rig().store.get_farthest();
        let want_far = held.iter().max().map(|k| self.uni.keys[*k].clone());
        if far != want_far && self.unacked.iter().all(|u| *u == 0) {
            fails.push(Fail::new(
                "farthest-tracking",
                self.trigger(),
                format!("store tracks {:?} as farthest, the farthest held is {:?}", far.as_ref().map(short), want_far.as_ref().map(short)),
            ));
        }
    }

    fn apply(&mut self, a: &Act, fails: &mut Vec<Fail>) {
        if !matches!(a, Act::RunTask { .. } | Act::Deliver { .. }) {
            self.api_used += 1;
        }
        match a {
            Act::Put { k, v } => {
                let held_before = self.held();
                let inflight_before: usize = self.unacked.iter().sum();
                let key = self.uni.keys[*k].clone();
                let tasks_before = self.rig().exec.task_count();
                let res = self.rigm().put(&key, &Self::value(*k, *v));
                let held_after = self.held();
                let spawned_write = (tasks_before..self.rig().exec.task_count()).any(|id| self.rig().exec.info(id).func.ends_with("::put_verified"));
                if res.is_ok() && spawned_write {
                    if inflight_before > 0 && !held_before.contains(k) {
                        self.burst = true;
                    }
                    self.unacked[*k] += 1;
                }
                // a put of a record that is already held takes no extra room: nothing else may leave (evictions are for
                // accepting a record the node does not yet hold)
                if inflight_before == 0 && held_before.contains(k) && held_after != held_before {
                    fails.push(Fail::new(
                        "eviction-only-for-new-records",
                        if held_before.len() >= self.capacity { "update-of-held-record-at-capacity" } else { "update-of-held-record" },
                        format!("putting k{k}, which is already held, changed the held set {held_before:?} -> {held_after:?} (result {res:?})"),
                    ));
                }
                // a put that is answered Ok without any write being started (the same bytes are already on their way or
                // in the read cache) is a no-op: it must not change what is held
                let noop = res.is_ok() && !spawned_write;
                if noop && held_after != held_before {
                    fails.push(Fail::new("duplicate-put-changes-nothing", self.trigger(), format!("putting k{k} again with the same bytes started no write, yet the held set changed {held_before:?} -> {held_after:?}")));
                }
                // the admission rule, judged whenever the acknowledged records fill the store (with or without writes in flight)
                if !noop && held_before.len() >= self.capacity && !held_before.contains(k) {
                    let farthest = *held_before.iter().max().unwrap();
                    if *k < farthest {
                        match &res {
                            Ok(()) => {
                                let gone: Vec<usize> = held_before.difference(&held_after).cloned().collect();
                                if gone != vec![farthest] {
                                    fails.push(Fail::new("eviction-exact", self.trigger(), format!("at capacity, putting nearer k{k}: evicted {gone:?}, the farthest held was k{farthest}")));
                                }
                            }
                            Err(e) => fails.push(Fail::new("admission", self.trigger(), format!("at capacity, k{k} is nearer than the farthest held k{farthest} but was refused: {e}"))),
                        }
                    } else {
                        match &res {
                            Ok(()) => fails.push(Fail::new("admission", self.trigger(), format!("at capacity, k{k} is farther than the farthest held k{farthest} but was accepted"))),
                            Err(e) => {
                                if !e.contains("MaxRecords") {
                                    fails.push(Fail::new("admission", "wrong-error", format!("refusal returned {e}, expected MaxRecords")));
                                }
                                if held_after != held_before {
                                    fails.push(Fail::new("refusal-leaves-held-set", self.trigger(), format!("refused put changed the held set {held_before:?} -> {held_after:?}")));
                                }
                            }
                        }
                    }
                }
            }
            Act::Remove { k } => {
                let before = self.held();
                let key = self.uni.keys[*k].clone();
                self.rigm().remove(&key);
                let after = self.held();
                let mut want = before.clone();
                want.remove(k);
                if after != want {
                    fails.push(Fail::new("removal-exact", self.trigger(), format!("removing k{k} changed the held set {before:?} -> {after:?}")));
                }
            }
            Act::KadPut { k } => {
                // everything a reader or the next put can observe: index, distance index, farthest, cache, reads, files, metrics
                // (not the task list: forwarding the record for validation is a task)
                let observable = |s: &Sys| -> String {
                    let c = String::from_utf8_lossy(&s.rig().canon(&s.uni.keys)).to_string();
                    c.split(";tasks=").next().unwrap_or("").to_string()
                };
                let before = (self.held(), observable(self));
                let key = self.uni.keys[*k].clone();
                let _ = self.rigm().kad_put(&key, &[&[0x91u8, 1][..], b"unvalidated inbound"].concat());
                let after = (self.held(), observable(self));
                if after != before {
                    fails.push(Fail::new("eviction-only-for-new-records", "unvalidated-inbound-record", format!("an inbound record for k{k} that has not been validated changed the store: held {:?} -> {:?}", before.0, after.0)));
                }
            }
            Act::SetRange { gap } => {
                let r = self.uni.ranges[*gap];
                self.rigm().store.verif_set_responsible_distance_range(r);
                self.range_gap = Some(*gap);
            }
            Act::Payment => {
                self.rigm().payment();
                self.payments += 1;
            }
            Act::Cleanup => {
                let before = self.held();
                self.rigm().cleanup();
                let after = self.held();
                // far below the clean-up threshold: nothing may be removed
                if before != after {
                    fails.push(Fail::new("cleanup-threshold", "small-store", format!("clean-up removed {:?} from a store of {} records", before.difference(&after).collect::<Vec<_>>(), before.len())));
                }
            }
            Act::Restart => {
                let flush_pending = self.rig().pending_tasks().iter().any(|(t, _)| t == "metrics");
                if self.rig().pending_tasks().iter().any(|(t, _)| t != "metrics") || !self.rig().queue.is_empty() {
                    self.unclean_restart = true;
                }
                let on_disk = std::fs::read(self.rig().root.join("historic_quoting_metrics")).ok().and_then(|b| crate::store_rig::payment_count_in_metrics_file(&b));
                let old = self.rig.take().unwrap();
                let new = old.restart();
                self.rig = Some(new);
                self.unacked = vec![0; NKEYS];
                self.range_gap = None;
                // `burst` stays: what a burst admitted is on disk and comes back with the restart
                let restored = self.rig().view().received_payment_count;
                if self.payments_known && !flush_pending && restored != self.payments {
                    fails.push(Fail::new(
                        "metrics-payments",
                        "restart-after-flushes-settled",
                        format!("{} payments received and every flush had completed, but the restarted store restored {restored} (file held {on_disk:?})", self.payments),
                    ));
                }
                // from here on the restored value is the reference
                self.payments = restored;
                self.payments_known = true;
            }
            Act::RunTask { i, .. } => {
                if let Some(id) = self.rig().enabled_tasks().get(*i).copied() {
                    self.rigm().run_task(id);
                }
            }
            Act::Deliver { .. } => {
                if let Some(q) = self.rig().queue_desc().first().cloned() {
                    self.rigm().deliver();
                    if q.starts_with("stored:") {
                        for k in 0..NKEYS {
                            if q.contains(&short(&self.uni.keys[k])) && self.unacked[k] > 0 {
                                self.unacked[k] -= 1;
                            }
                        }
                    }
                }
            }
        }
    }
}

impl System for Sys {
    type Action = Act;
    fn actions(&self) -> Vec<Act> {
        let mut v = vec![];
        for (i, id) in self.rig().enabled_tasks().into_iter().enumerate() {
            let info = self.rig().exec.info(id);
            let k = self.uni.keys.iter().position(|x| hexkey(x) == info.tag).map(|k| format!("k{k}")).unwrap_or_else(|| info.tag.clone());
            v.push(Act::RunTask { i, what: format!("{}@{k}", info.func) });
        }
        if let Some(q) = self.rig().queue_desc().first() {
            v.push(Act::Deliver { what: q.clone() });
        }
        if self.api_used < self.api_max {
            for k in 0..NKEYS {
                v.push(Act::Put { k, v: 0 });
            }
            v.push(Act::Put { k: 0, v: 1 });
            // an unvalidated inbound record for the nearest key (it would displace the farthest record if it were accepted)
            v.push(Act::KadPut { k: 0 });
            if self.unacked.iter().all(|u| *u == 0) && self.rig().pending_tasks().iter().all(|(t, _)| t == "metrics") {
                for k in self.held() {
                    v.push(Act::Remove { k });
                }
            }
            for gap in [1, 2, 3] {
                v.push(Act::SetRange { gap });
            }
            v.push(Act::Payment);
            v.push(Act::Cleanup);
            v.push(Act::Restart);
        }
        v
    }
    fn step(&mut self, a: &Act, fails: &mut Vec<Fail>) {
        self.apply(a, fails);
        self.check_always(fails);
    }
    fn step_quiet(&mut self, a: &Act) {
        self.apply(a, &mut vec![]);
    }
    fn canon(&self) -> Vec<u8> {
        let mut b = self.rig().canon(&self.uni.keys);
        b.extend(format!(";unacked={:?};gap={:?};pay={}/{};burst={};unclean={};api={}", self.unacked, self.range_gap, self.payments, self.payments_known, self.burst, self.unclean_restart, self.api_used).bytes());
        b
    }
}

/// Clean-up around the threshold (the constant MAX_RECORDS_COUNT/10 = 1638 of the code): stores
/// loaded with 1637 / 1638 / 1639 settled records, every range choice from a grid.
fn cleanup_threshold(run: &Run) {
    const THRESHOLD: usize = 16 * 1024 / 10;
    let peer = rigs::fixtures::peer_id(1);
    let me = NetworkAddress::from_peer(peer).as_bytes();
    let all = ranked_keys(peer, THRESHOLD + 1, "c10-bulk");
    let dists: Vec<U256> = all.iter().map(|k| u256(&xor_distance(&me, k.as_ref()))).collect();
    let loads = [THRESHOLD - 1, THRESHOLD, THRESHOLD + 1];
    std::thread::scope(|sc| {
        for n in loads {
            let (all, dists) = (&all, &dists);
            sc.spawn(move || {
                let gaps: Vec<usize> = vec![0, 1, n / 2, n - 1, n];
                for (gi, gap) in gaps.iter().enumerate() {
                    for with_range in [true, false] {
                        if !with_range && gi > 0 {
                            continue;
                        }
                        let scratch = fresh_scratch("c10-bulk");
                        let mut rig = StoreRig::new(&scratch, RigCfg { max_records: 16 * 1024, cache_size: 25, max_value_bytes: None }, peer);
                        for k in all.iter().take(n) {
                            rig.put(k, &[&[0x91u8, 1][..], b"bulk"].concat()).expect("bulk put");
                        }
                        rig.settle();
                        let before: BTreeSet<String> = rig.view().records.iter().map(|(k, _)| hexkey(k)).collect();
                        assert_eq!(before.len(), n);
                        // a range strictly between rank gap-1 and rank gap
                        let lo = if *gap == 0 { U256::ZERO } else { dists[*gap - 1] };
                        let hi = if *gap >= n { U256::MAX } else { dists[*gap] };
                        let r = lo + (hi - lo) / U256::from(2u8);
                        if with_range {
                            rig.store.verif_set_responsible_distance_range(r);
                        }
                        let (qm, _) = rig.store.verif_quoting_metrics(&all[0], None);
                        let want_close = if with_range { *gap.min(&n) } else { n };
                        run.case(format!("bulk:{n}:{gap}:{with_range}").as_bytes(), true);
                        if qm.close_records_stored != want_close {
                            run.violation("metrics-records", "bulk", format!("{n} records, range after rank {gap}: metrics report {} close records, expected {want_close}", qm.close_records_stored), serde_json::json!({"engine":"bulk","records":n,"gap":gap,"range_set":with_range}));
                        }
                        rig.cleanup();
                        rig.settle();
                        let after: BTreeSet<String> = rig.view().records.iter().map(|(k, _)| hexkey(k)).collect();
                        let want: BTreeSet<String> = if with_range && n >= THRESHOLD { all.iter().take(n).enumerate().filter(|(i, _)| i < gap).map(|(_, k)| hexkey(k)).collect() } else { before.clone() };
                        if after != want {
                            let trig = if n < THRESHOLD { "below-threshold" } else if !with_range { "no-range" } else { "wrong-set" };
                            run.violation(
                                "cleanup-exact",
                                trig,
                                format!("{n} records (threshold {THRESHOLD}), range {} after rank {gap}: clean-up left {} records, expected {}", if with_range { "set" } else { "not set" }, after.len(), want.len()),
                                serde_json::json!({"engine":"bulk","records":n,"gap":gap,"range_set":with_range}),
                            );
                        }
                        // files of removed records are gone, the others are still readable
                        let files: BTreeSet<String> = rig.listing().into_keys().collect();
                        if files != after {
                            run.violation("cleanup-exact", "files", format!("{n} records: after clean-up {} files for {} records", files.len(), after.len()), serde_json::json!({"engine":"bulk","records":n,"gap":gap}));
                        }
                        // what the clean-up removed is gone for readers too, what it kept reads back
                        for (i, k) in all.iter().take(n).enumerate() {
                            let readable = rig.get(k).is_some();
                            let kept = after.contains(&hexkey(k));
                            if readable != kept {
                                run.violation("cleanup-exact", if readable { "removed-still-readable" } else { "kept-unreadable" }, format!("{n} records, range after rank {gap}: rank {i} is {} after the clean-up but {}", if kept { "held" } else { "not held" }, if readable { "readable" } else { "not readable" }), serde_json::json!({"engine":"bulk","records":n,"gap":gap,"rank":i}));
                            }
                        }
                        drop(rig);
                        let _ = std::fs::remove_dir_all(&scratch);
                    }
                }
            });
        }
    });
    run.sample(serde_json::json!({"bulk_cleanup": {"records": THRESHOLD, "range": "between rank 818 and 819", "expected_left": 819}}));
    admission_after_cleanup(run);
}

/// Start from a non-initial state that only a clean-up can produce: a full store (capacity =
/// threshold) whose out-of-range half was cleaned up and which was then refilled to capacity with
/// nearer records. The admission rule must still be exact: a record farther than everything held is
/// refused, a nearer one evicts exactly the farthest held.
fn admission_after_cleanup(run: &Run) {
    const N: usize = 16 * 1024 / 10; // 1638, even
    let gap = N / 2;
    let peer = rigs::fixtures::peer_id(1);
    let me = NetworkAddress::from_peer(peer).as_bytes();
    let r = ranked_keys(peer, 2 * N + 8, "c10-admission");
    let dist = |k: &RecordKey| u256(&xor_distance(&me, k.as_ref()));
    let scratch = fresh_scratch("c10-adm");
    let mut rig = StoreRig::new(&scratch, RigCfg { max_records: N, cache_size: 25, max_value_bytes: None }, peer);
    let val = [&[0x91u8, 1][..], b"adm"].concat();
    // prefill: the even-ranked near keys, then a contiguous block of far keys
    let mut prefill: Vec<RecordKey> = (0..gap).map(|j| r[2 * j].clone()).collect();
    prefill.extend((0..N - gap).map(|j| r[2 * gap + j].clone()));
    for k in &prefill {
        rig.put(k, &val).expect("prefill");
    }
    rig.settle();
    assert_eq!(rig.view().records.len(), N);
    // range between rank 2*gap-1 and 2*gap: exactly the far block is out of range
    let lo = dist(&r[2 * gap - 1]);
    let hi = dist(&r[2 * gap]);
    rig.store.verif_set_responsible_distance_range(lo + (hi - lo) / U256::from(2u8));
    rig.cleanup();
    rig.settle();
    let held_after_cleanup = rig.view().records.len();
    run.case(b"admission-after-cleanup:cleanup", true);
    if held_after_cleanup != gap {
        run.violation("cleanup-exact", "wrong-set", format!("full store of {N}: clean-up left {held_after_cleanup}, expected {gap}"), serde_json::json!({"engine":"admission-after-cleanup"}));
    }
    // the store's public idea of its farthest record (reported to the replication fetcher when full)
    let check_farthest = |rig: &StoreRig, when: &str| {
        let held: Vec<RecordKey> = rig.view().records.iter().map(|(k, _)| k.clone()).collect();
        let want = held.iter().max_by_key(|k| dist(k)).cloned();
        let got = rig.store.get_farthest();
        if got != want {
            run.violation(
                "farthest-tracking",
                "after-cleanup",
                format!("{when}: get_farthest() names {:?}, the farthest held record is {:?}", got.as_ref().map(short), want.as_ref().map(short)),
                serde_json::json!({"engine":"admission-after-cleanup","when":when}),
            );
        }
    };
    check_farthest(&rig, "after clean-up");
    // refill to capacity with the odd-ranked near keys
    for j in 0..N - gap {
        rig.put(&r[2 * j + 1], &val).expect("refill below capacity");
    }
    rig.settle();
    let held: BTreeSet<String> = rig.view().records.iter().map(|(k, _)| hexkey(k)).collect();
    run.case(b"admission-after-cleanup:refill", true);
    if held.len() != N {
        run.violation("capacity-bound", "after-cleanup", format!("refilled store holds {} records, capacity {N}", held.len()), serde_json::json!({"engine":"admission-after-cleanup"}));
    }
    check_farthest(&rig, "after refill");
    // farther than everything held (held = r[0..N)): must be refused, nothing changes
    let far = &r[N + 5];
    let res = rig.put(far, &val);
    rig.settle();
    let held2: BTreeSet<String> = rig.view().records.iter().map(|(k, _)| hexkey(k)).collect();
    run.case(b"admission-after-cleanup:probe-far", true);
    if res.is_ok() || held2 != held {
        run.violation(
            "admission",
            "after-cleanup",
            format!("full store after clean-up + refill: a record farther than every held record was answered {res:?}; held {} -> {}", held.len(), held2.len()),
            serde_json::json!({"engine":"admission-after-cleanup","probe":"farther than all held"}),
        );
    }
    // nearer than the farthest held, not held: accepted, evicting exactly the farthest (r[N-1])
    // (there is no unused nearer key left in r[0..N), so take one strictly between ranks by construction:
    //  re-use the far block's first key after removing it is not possible; use capacity probe only when available)
    drop(rig);
    let _ = std::fs::remove_dir_all(&scratch);
}

/// The same rules one level up, on a real node: a real `SwarmDriver` (its `PutLocalRecord`, `PaymentReceived`,
/// `TriggerIrrelevantRecordCleanup` and `GetLocalQuotingMetrics` handlers) under a real `Node` answering `GetStoreQuote`.
/// A store of `THRESHOLD + 2` records (so that everything the clean-up threshold gates can run) at capacity, a
/// responsible range that leaves the 40 farthest outside, three payments. Judged: the figures *in the signed quote*
/// (not the store's own report), the quote's signature and address, a refused put (held set unchanged — the handler
/// around `put_verified` must not react to a refusal by dropping records), an admitted nearer put (exactly the farthest
/// goes), the periodic clean-up (exactly the records outside the range go), and the quote again afterwards.
fn node_layer(run: &Run) {
    use ant_networking::verif_hooks::LocalSwarmCmd;
    use ant_protocol::messages::{Query, QueryResponse};
    use ant_protocol::storage::ChunkAddress;
    const THRESHOLD: usize = 16 * 1024 / 10;
    const N: usize = THRESHOLD + 2;
    const OUTSIDE: usize = 40;
    const PAYMENTS: usize = 3;
    let root = fresh_scratch("c10-node");
    let stub = std::sync::Arc::new(crate::evm_stub::EvmStub::start());
    let mut rig = crate::node_rig::NodeRig::new(1, &root, stub);
    let peer = rig.d.peer_id();
    let me = NetworkAddress::from_peer(peer).as_bytes();
    rig.set_max_records(N);
    // ranks 0, 1: nearer than everything held (kept for later); ranks 2..N+2: held; rank N+2: farther than everything held
    let keys = ranked_keys(peer, N + 3, "c10-node");
    let dist = |k: &RecordKey| u256(&xor_distance(&me, k.as_ref()));
    let val = [&[0x91u8, 1][..], b"node-layer"].concat();
    let rec = |k: &RecordKey| libp2p::kad::Record { key: k.clone(), value: val.clone(), publisher: None, expires: None };
    let held0: Vec<RecordKey> = keys[2..N + 2].to_vec();
    for (i, k) in held0.iter().enumerate() {
        if let Err(e) = rig.d.handle_local(LocalSwarmCmd::PutLocalRecord { record: rec(k) }) {
            run.violation("admission", "node-layer/fill", format!("put {i} of {N} into a store of capacity {N} was refused: {e}"), serde_json::json!({"engine":"node-layer"}));
        }
        if i % 64 == 63 {
            rig.d.settle();
        }
    }
    rig.d.settle();
    let listed = |rig: &mut crate::node_rig::NodeRig| -> BTreeSet<String> { rig.listed().into_iter().map(|s| s.split(':').next().unwrap_or("").to_string()).collect() };
    let want0: BTreeSet<String> = held0.iter().map(hexkey).collect();
    run.case(b"node-layer:fill", true);
    if listed(&mut rig) != want0 {
        run.violation("capacity-bound", "node-layer/fill", format!("after {N} acknowledged puts the node lists {} records", listed(&mut rig).len()), serde_json::json!({"engine":"node-layer"}));
        return;
    }
    // the range: between the (N - OUTSIDE)th and the next held record
    let (lo, hi) = (dist(&held0[N - OUTSIDE - 1]), dist(&held0[N - OUTSIDE]));
    let range = lo + (hi - lo) / U256::from(2u8);
    rig.d.driver.verif_set_responsible_range(range);
    for _ in 0..PAYMENTS {
        let _ = rig.d.handle_local(LocalSwarmCmd::PaymentReceived);
        rig.d.settle();
    }
    let rewards = ant_evm::RewardsAddress::from([7u8; 20]);
    let quote_for = |rig: &mut crate::node_rig::NodeRig, k: &RecordKey| {
        let mut x = [0u8; 32];
        x.copy_from_slice(k.as_ref());
        let addr = NetworkAddress::from_chunk_address(ChunkAddress::new(xor_name::XorName(x)));
        let net = rig.d.network.clone();
        let q = Query::GetStoreQuote { key: addr, nonce: None, difficulty: 0 };
        rig.run_no_io("quote", async move { ant_node::verif_hooks::VerifNode::handle_query(&net, q, rewards).await })
    };
    let judge_quote = |rig: &mut crate::node_rig::NodeRig, when: &str, k: &RecordKey, want_close: usize| {
        run.case(format!("node-layer:quote:{when}").as_bytes(), true);
        match quote_for(rig, k) {
            Some(ant_protocol::messages::Response::Query(QueryResponse::GetStoreQuote { quote: Ok(q), peer_address, .. })) => {
                let m = &q.quoting_metrics;
                let mut wrong = vec![];
                if m.close_records_stored != want_close {
                    wrong.push(format!("records within the responsible range: quoted {}, held {want_close}", m.close_records_stored));
                }
                if m.max_records != N {
                    wrong.push(format!("capacity: quoted {}, configured {N}", m.max_records));
                }
                if m.received_payment_count != PAYMENTS {
                    wrong.push(format!("payments received: quoted {}, received {PAYMENTS}", m.received_payment_count));
                }
                if m.network_density != Some(range.to_be_bytes()) {
                    wrong.push("the responsible range in the quote is not the one in force".to_string());
                }
                if q.content.0[..] != *k.as_ref() {
                    wrong.push("the quote names another address than the one asked about".to_string());
                }
                if q.rewards_address != rewards {
                    wrong.push("the quote names another rewards address".to_string());
                }
                if !q.check_is_signed_by_claimed_peer(peer) {
                    wrong.push("the quote is not signed by this node over its content".to_string());
                }
                if peer_address != NetworkAddress::from_peer(peer) {
                    wrong.push("the answer names another peer".to_string());
                }
                for w in wrong {
                    run.violation("quoting-metrics", "node-layer/signed-quote", format!("{when}: {w}"), serde_json::json!({"engine":"node-layer","when":when}));
                }
            }
            other => run.violation("quoting-metrics", "node-layer/no-quote", format!("{when}: asked for a quote for a record the node does not hold, got {:?}", other.map(|o| format!("{o:?}").chars().take(120).collect::<String>())), serde_json::json!({"engine":"node-layer","when":when})),
        }
    };
    judge_quote(&mut rig, "store full, range leaving 40 held records outside, 3 payments", &keys[0], N - OUTSIDE);
    // a record the node holds is not quoted for
    run.case(b"node-layer:quote-held", true);
    match quote_for(&mut rig, &held0[5]) {
        Some(ant_protocol::messages::Response::Query(QueryResponse::GetStoreQuote { quote: Err(ant_protocol::error::Error::RecordExists(_)), .. })) => {}
        other => run.violation("quoting-metrics", "node-layer/held-record-quoted", format!("asked for a quote for a record the node holds, got {:?}", other.map(|o| format!("{o:?}").chars().take(120).collect::<String>())), serde_json::json!({"engine":"node-layer"})),
    }
    // refused: farther than the farthest held record
    run.case(b"node-layer:refused-put", true);
    let r = rig.d.handle_local(LocalSwarmCmd::PutLocalRecord { record: rec(&keys[N + 2]) });
    rig.d.settle();
    let after = listed(&mut rig);
    if r.is_ok() || after.contains(&hexkey(&keys[N + 2])) {
        run.violation("admission", "node-layer/farther-record-admitted", format!("a full node admitted a record farther than its farthest ({r:?})"), serde_json::json!({"engine":"node-layer"}));
    }
    if after != want0 {
        let gone = want0.difference(&after).count();
        run.violation("refusal-leaves-held-set", "node-layer", format!("a refused put changed the held set: {gone} records went missing, {} appeared", after.difference(&want0).count()), serde_json::json!({"engine":"node-layer"}));
    }
    if after == want0 {
        // admitted: nearer than everything; exactly the farthest goes
        run.case(b"node-layer:admitted-put", true);
        let r = rig.d.handle_local(LocalSwarmCmd::PutLocalRecord { record: rec(&keys[0]) });
        rig.d.settle();
        let after = listed(&mut rig);
        let mut want1 = want0.clone();
        want1.remove(&hexkey(&held0[N - 1]));
        want1.insert(hexkey(&keys[0]));
        if r.is_err() || after != want1 {
            run.violation("eviction-exact", "node-layer", format!("full node, nearer record: result {r:?}; {} records missing, {} unexpected", want1.difference(&after).count(), after.difference(&want1).count()), serde_json::json!({"engine":"node-layer"}));
        }
        judge_quote(&mut rig, "after the nearer record replaced the farthest", &keys[1], N - OUTSIDE + 1);
        // periodic clean-up: exactly the records outside the range go
        run.case(b"node-layer:clean-up", true);
        let _ = rig.d.handle_local(LocalSwarmCmd::TriggerIrrelevantRecordCleanup);
        rig.d.settle();
        let after = listed(&mut rig);
        let want2: BTreeSet<String> = want1.iter().filter(|h| keys.iter().find(|k| hexkey(k) == **h).map(|k| dist(k) <= range).unwrap_or(false)).cloned().collect();
        if after != want2 {
            run.violation("cleanup-exact", "node-layer", format!("clean-up on a node of {} records with 39 outside the range: {} left, expected {}", want1.len(), after.len(), want2.len()), serde_json::json!({"engine":"node-layer"}));
        }
        judge_quote(&mut rig, "after the periodic clean-up", &keys[1], N - OUTSIDE + 1);
    }
    drop(rig);
    let _ = std::fs::remove_dir_all(&root);
}


/// The node layer on a small store, in the states a burst of unacknowledged puts leaves behind (the recorded finding
/// `burst-of-unacknowledged-puts`: more records held than the configured capacity). Capacity 3..=5, `cap - 1` records held,
/// a burst of 2..=4 `PutLocalRecord` of new nearer keys handled before any of their write acknowledgements, then
/// everything settles; with no range and with a range leaving the 1..=2 farthest held records outside. The figures in
/// the *signed quote* must be the true ones whatever the store's fill level: records within the range as listed now,
/// the configured capacity, the payments received.
fn node_layer_burst(run: &Run) {
    use ant_networking::verif_hooks::LocalSwarmCmd;
    use ant_protocol::messages::{Query, QueryResponse};
    use ant_protocol::storage::ChunkAddress;
    let mut cases = 0u64;
    for cap in 3usize..=5 {
        for burst in 2usize..=4 {
            for outside in 0usize..=2 {
                let root = fresh_scratch("c10-burst");
                let stub = std::sync::Arc::new(crate::evm_stub::EvmStub::start());
                let mut rig = crate::node_rig::NodeRig::new(1, &root, stub);
                let peer = rig.d.peer_id();
                let me = NetworkAddress::from_peer(peer).as_bytes();
                rig.set_max_records(cap);
                let keys = ranked_keys(peer, cap + burst + 2, "c10-burst");
                let dist = |k: &RecordKey| u256(&xor_distance(&me, k.as_ref()));
                let val = [&[0x91u8, 1][..], b"burst"].concat();
                let rec = |k: &RecordKey| libp2p::kad::Record { key: k.clone(), value: val.clone(), publisher: None, expires: None };
                // ranks 0: asked about; 1..=burst: the burst (nearer than everything held); then cap-1 held records
                let held0: Vec<RecordKey> = keys[burst + 1..burst + cap].to_vec();
                for k in &held0 {
                    let _ = rig.d.handle_local(LocalSwarmCmd::PutLocalRecord { record: rec(k) });
                    rig.d.settle();
                }
                for k in &keys[1..=burst] {
                    let _ = rig.d.handle_local(LocalSwarmCmd::PutLocalRecord { record: rec(k) });
                }
                rig.d.settle();
                let _ = rig.d.handle_local(LocalSwarmCmd::PaymentReceived);
                rig.d.settle();
                let listed: Vec<String> = rig.listed().into_iter().map(|s| s.split(':').next().unwrap_or("").to_string()).collect();
                let mut held: Vec<&RecordKey> = keys.iter().filter(|k| listed.contains(&hexkey(k))).collect();
                held.sort_by_key(|k| dist(k));
                let range = if outside == 0 || held.len() <= outside {
                    None
                } else {
                    let (lo, hi) = (dist(held[held.len() - outside - 1]), dist(held[held.len() - outside]));
                    Some(lo + (hi - lo) / U256::from(2u8))
                };
                if let Some(r) = range {
                    rig.d.driver.verif_set_responsible_range(r);
                }
                let want_close = held.iter().filter(|k| range.map(|r| dist(k) <= r).unwrap_or(true)).count();
                let desc = serde_json::json!({"engine": "node-layer", "capacity": cap, "held_before": cap - 1, "burst": burst, "listed_after": held.len(), "held_records_outside_the_range": if range.is_some() { outside } else { 0 }});
                cases += 1;
                run.case(desc.to_string().as_bytes(), held.len() > cap);
                let mut x = [0u8; 32];
                x.copy_from_slice(keys[0].as_ref());
                let addr = NetworkAddress::from_chunk_address(ChunkAddress::new(xor_name::XorName(x)));
                let net = rig.d.network.clone();
                let rewards = ant_evm::RewardsAddress::from([7u8; 20]);
                let q = Query::GetStoreQuote { key: addr, nonce: None, difficulty: 0 };
                let got = rig.run_no_io("quote", async move { ant_node::verif_hooks::VerifNode::handle_query(&net, q, rewards).await });
                match got {
                    Some(ant_protocol::messages::Response::Query(QueryResponse::GetStoreQuote { quote: Ok(q), .. })) => {
                        let m = &q.quoting_metrics;
                        run.outcome(format!("{}/{}", m.close_records_stored, m.max_records).as_bytes());
                        if m.close_records_stored != want_close {
                            run.violation("quoting-metrics", "node-layer/signed-quote-after-a-burst", format!("records within the responsible range: quoted {}, held {want_close} ({desc})", m.close_records_stored), desc.clone());
                        }
                        if m.max_records != cap {
                            run.violation("quoting-metrics", "node-layer/signed-quote-after-a-burst", format!("capacity: quoted {}, configured {cap} ({desc})", m.max_records), desc.clone());
                        }
                        if m.received_payment_count != 1 {
                            run.violation("quoting-metrics", "node-layer/signed-quote-after-a-burst", format!("payments received: quoted {}, received 1 ({desc})", m.received_payment_count), desc.clone());
                        }
                    }
                    other => run.violation("quoting-metrics", "node-layer/no-quote", format!("asked for a quote for a record the node does not hold, got {:?} ({desc})", other.map(|o| format!("{o:?}").chars().take(120).collect::<String>())), desc.clone()),
                }
                drop(rig);
                let _ = std::fs::remove_dir_all(&root);
            }
        }
    }
    run.extra("node_layer_burst_cases", serde_json::json!(cases));
}

pub fn main(tier: Option<&str>) {
    let run = Run::new("C10", "model_checking", tier);
    run.rule(
        "BFS, replay mode, on a real NodeRecordStore with capacity 2 and 3 over 4 keys ranked by the independent XOR metric: \
         Put(k) (notification delivered later, so bursts of unacknowledged writes exist), Remove(held k, nothing of it in flight), SetRange(strictly between ranks), Payment, \
         Cleanup, Restart, and every order of the store's background tasks incl. metrics flushes; at most 3(4) API operations per history \
         from empty and pre-filled stores, scheduler steps unbounded. Second part: stores loaded with 1637/1638/1639 settled records x \
         5 ranges (+ no range) checked for exact clean-up and exact close-record count. Third part (node layer): a real Node over a real \
         SwarmDriver holding 1640 records at capacity with a range leaving 40 outside and 3 payments: the signed figures, signature and address of \
         the quote it answers GetStoreQuote with (before and after an admitted put and the clean-up), a refused and an admitted PutLocalRecord, \
         TriggerIrrelevantRecordCleanup, each judged on the node's listed records; and the signed quote of small nodes (capacity 3..=5) after a burst of 2..=4 unacknowledged puts \
         has left them above capacity, with no range and with 1..=2 held records outside it.",
    );
    run.assume("ranges are placed strictly between key distances: behaviour at distance == range is not probed");
    run.assume("payment count after a restart is judged only when no metrics flush was pending at the restart");
    run.assume("after a restart taken while record tasks or notifications were pending (an interrupted eviction) the capacity bound is not judged; crash states are C02's subject");
    run.assume("the admission rule is judged when nothing is in flight; with writes in flight only the capacity bound is judged");
    let uni = std::sync::Arc::new(universe("c10", NKEYS));
    let _ = &uni.dist;
    let api = run.pick(3, 4);
    for (cap, prefill, label) in [(2usize, vec![], "cap2"), (2, vec![0usize], "cap2-prefilled(k0)"), (2, vec![1, 3], "cap2-prefilled(k1,k3)"), (2, vec![2, 3], "cap2-prefilled(k2,k3)"), (3, vec![0, 1, 3], "cap3-prefilled(k0,k1,k3)")] {
        let u = uni.clone();
        bfs_replay(
            &run,
            BfsOpts { max_depth: 6 * api + 2, wall_cap: Some(std::time::Duration::from_secs(run.pick(40, 1500))), state_cap: None, label: format!("{label}/api<={api}") },
            || Sys::new(u.clone(), cap, api, &prefill),
        );
    }
    cleanup_threshold(&run);
    node_layer(&run);
    node_layer_burst(&run);
    run.finish();
}
