//! ant-cli is a binary-only crate: its wallet encryption module is compiled into the harness
//! straight from /repo with `#[path]`, so the code under test is the repository's own file.
#[path = "/repo/ant-cli/src/wallet/error.rs"]
pub mod error;
#[path = "/repo/ant-cli/src/wallet/encryption.rs"]
#[allow(dead_code)]
pub mod encryption;

/// An authentic ciphertext in the wallet format for arbitrary plaintext bytes (the same scheme as
/// `encrypt_private_key`: salt(8) | nonce(12) | ChaCha20-Poly1305(plaintext), key =
/// PBKDF2-HMAC-SHA512(password, salt, 100_000)), with fixed salt and nonce.
pub fn craft(plain: &[u8], password: &str) -> String {
    use ring::aead::{BoundKey, Nonce, NonceSequence};
    struct Seq([u8; 12]);
    impl NonceSequence for Seq {
        fn advance(&mut self) -> Result<Nonce, ring::error::Unspecified> {
            Nonce::try_assume_unique_for_key(&self.0)
        }
    }
    let salt = [1u8; 8];
    let nonce = [2u8; 12];
    let mut key = [0u8; 32];
    ring::pbkdf2::derive(ring::pbkdf2::PBKDF2_HMAC_SHA512, std::num::NonZeroU32::new(100_000).unwrap(), &salt, password.as_bytes(), &mut key);
    let unbound = ring::aead::UnboundKey::new(&ring::aead::CHACHA20_POLY1305, &key).unwrap();
    let mut sealing = ring::aead::SealingKey::new(unbound, Seq(nonce));
    let mut data = plain.to_vec();
    sealing.seal_in_place_append_tag(ring::aead::Aad::from(&[]), &mut data).unwrap();
    let mut out = salt.to_vec();
    out.extend_from_slice(&nonce);
    out.extend_from_slice(&data);
    hex::encode(out)
}
