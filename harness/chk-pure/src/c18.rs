//! C18 — bootstrap cache stays bounded, well-formed and atomically persisted.
//! (H) BFS in replay mode on a real `BootstrapCacheStore` (add / status / remove / cleanup /
//!     sync_and_flush against prepared cache files) under 8 configurations.
//! (F2) every truncation and boundary substitution of a valid cache file, and foreign files.
//! (F1, interleavings of concurrent flushers at file-system-call granularity) lives in the
//!     separate `vcheck-fs` binary because it interposes libc symbols.
use ant_bootstrap::{BootstrapAddr, BootstrapCacheConfig, BootstrapCacheStore};
use libp2p::multiaddr::Protocol;
use libp2p::{Multiaddr, PeerId};
use mc_core::bfs::{bfs_replay, BfsOpts, Fail, System};
use mc_core::{catch, Run};
use serde_json::json;
use std::collections::{BTreeMap, BTreeSet};
use std::path::PathBuf;
use std::sync::atomic::{AtomicU64, Ordering};
use std::sync::Arc;
use std::time::{Duration, SystemTime};

#[derive(Clone, Debug)]
pub enum Act {
    Add { a: usize, desc: String },
    Status { a: usize, ok: bool },
    Remove { a: usize },
    Cleanup,
    /// the cache file is replaced by prepared file `f` (another process wrote it), then this store flushes
    Flush { file: Option<usize>, cleanup: bool },
}

struct Cfg {
    max_peers: usize,
    max_addrs: usize,
    expiry: Duration,
    /// how the store is built: 0 = `BootstrapCacheStore::new(config)`; 1 = `new_from_peers_args` with a
    /// `--bootstrap-cache-dir` (which takes precedence over the configured path: the configured path is a decoy
    /// holding another, valid cache); 2 = `new_from_peers_args` without one (the configured path is used)
    ctor: u8,
}

struct Pool {
    tied_files: Vec<String>,
    addrs: Vec<Multiaddr>,
    well_formed: usize,
    files: Vec<String>,
}

fn pid(n: u8) -> PeerId {
    rigs::fixtures::peer_id(n)
}

fn pool() -> Pool {
    let (p1, p2, p3) = (pid(1), pid(2), pid(3));
    let mut addrs: Vec<Multiaddr> = vec![
        format!("/ip4/10.0.0.1/udp/1201/quic-v1/p2p/{p1}").parse().unwrap(),
        format!("/ip4/10.0.0.1/tcp/1301/ws/p2p/{p1}").parse().unwrap(),
        format!("/ip4/10.0.0.9/udp/1209/quic-v1/p2p/{p1}").parse().unwrap(),
        format!("/ip4/10.0.0.2/udp/1202/quic-v1/p2p/{p2}").parse().unwrap(),
        format!("/ip4/10.0.0.2/tcp/1302/p2p/{p2}").parse().unwrap(),
        format!("/ip4/10.0.0.8/udp/1208/quic-v1/p2p/{p2}").parse().unwrap(),
    ];
    let well_formed = addrs.len();
    // ill-formed or unusual shapes
    addrs.push("/ip4/10.0.0.3/udp/1203/quic-v1".parse().unwrap()); // no peer id
    addrs.push(format!("/udp/1204/quic-v1/p2p/{p3}").parse().unwrap()); // no ip4
    addrs.push(format!("/ip6/::1/udp/1205/quic-v1/p2p/{p3}").parse().unwrap()); // ip6 only
    addrs.push(format!("/ip4/10.0.0.6/p2p/{p3}").parse().unwrap()); // no transport
    addrs.push(format!("/ip4/10.0.0.7/udp/1207/quic-v1/p2p/{p2}/p2p-circuit/p2p/{p3}").parse().unwrap()); // relay circuit
    addrs.push(format!("/ip4/10.0.0.5/tcp/1305/ws/udp/1205/p2p/{p3}").parse().unwrap()); // tcp+ws and udp
    // prepared files: built with the real store, then aged by rewriting the timestamps
    let dir = mc_core::scratch_root().join("c18-prep");
    std::fs::create_dir_all(&dir).unwrap();
    let mk = |name: &str, items: &[(usize, u32, u32)], age_days: u64, tied: bool| -> String {
        let path = dir.join(name);
        let cfg = BootstrapCacheConfig::empty().with_cache_path(&path);
        let mut st = BootstrapCacheStore::new(cfg).unwrap();
        for (a, ok, fail) in items {
            st.add_addr(addrs[*a].clone());
            for _ in 1..*ok {
                st.update_addr_status(&addrs[*a], true);
            }
            for _ in 0..*fail {
                st.update_addr_status(&addrs[*a], false);
            }
        }
        st.write().unwrap();
        let text = std::fs::read_to_string(&path).unwrap();
        // move every last_seen into the past
        let mut v: serde_json::Value = serde_json::from_str(&text).unwrap();
        // every entry gets its own age, 30 s apart (and `age_days` on top), so that "oldest" is unambiguous
        fn age(v: &mut serde_json::Value, by: u64, n: &mut u64, tied: Option<u64>) {
            match v {
                serde_json::Value::Object(m) => {
                    if let Some(ls) = m.get_mut("last_seen") {
                        if let Some(s) = ls.get_mut("secs_since_epoch") {
                            let cur = s.as_u64().unwrap_or(0);
                            *n += 1;
                            *s = match tied {
                                // a file written in one go / by a coarse clock: every entry carries the same instant
                                Some(t) => json!(t),
                                None => json!(cur.saturating_sub(by + 30 * *n)),
                            };
                        }
                        if tied.is_some() {
                            if let Some(ns) = ls.get_mut("nanos_since_epoch") {
                                *ns = json!(0);
                            }
                        }
                    }
                    for (_, x) in m.iter_mut() {
                        age(x, by, n, tied);
                    }
                }
                serde_json::Value::Array(a) => a.iter_mut().for_each(|x| age(x, by, n, tied)),
                _ => {}
            }
        }
        let mut n = 0;
        let tie_at = SystemTime::now().duration_since(SystemTime::UNIX_EPOCH).unwrap().as_secs().saturating_sub(age_days * 86400 + 60);
        age(&mut v, age_days * 86400, &mut n, if tied { Some(tie_at) } else { None });
        serde_json::to_string_pretty(&v).unwrap()
    };
    let files = vec![
        mk("f0.json", &[(0, 2, 0), (3, 1, 0)], 0, false),              // fresh, reliable: p1 a0, p2 a3
        mk("f1.json", &[(1, 1, 0), (2, 1, 2), (5, 3, 1)], 0, false),   // fresh: p1 a1 reliable, p1 a2 unreliable (1 ok, 2 fail), p2 a5 reliable
        mk("f2.json", &[(0, 5, 0), (4, 1, 0)], 2, false),       // two days old
    ];
    // files whose entries all carry exactly the same last_seen (written in one go / coarse clock / hand-made): which of
    // the tied peers survives a trim depends on HashMap order, so these are kept out of the state search (replays must
    // be deterministic) and get their own order-independent sweep
    let tied_files = vec![
        mk("t0.json", &[(1, 1, 0), (4, 1, 0)], 0, true),                        // p1 a1, p2 a4
        mk("t1.json", &[(0, 1, 0), (1, 2, 0), (3, 1, 0), (4, 1, 0)], 0, true),  // p1 a0 a1, p2 a3 a4
        mk("t2.json", &[(0, 1, 0), (3, 1, 0)], 2, true),                        // two days old, tied
    ];
    Pool { addrs, well_formed, files, tied_files }
}

pub struct Sys {
    st: BootstrapCacheStore,
    cfg: Arc<Cfg>,
    pool: Arc<Pool>,
    path: PathBuf,
}

static SEQ: AtomicU64 = AtomicU64::new(0);

impl Drop for Sys {
    fn drop(&mut self) {
        let _ = std::fs::remove_file(&self.path);
        if self.cfg.ctor == 1 {
            if let Some(d) = self.path.parent() {
                let _ = std::fs::remove_dir_all(d);
            }
        }
    }
}

/// (peer, addr, success, failure, last_seen) of everything in memory
fn entries(st: &BootstrapCacheStore) -> Vec<(PeerId, Multiaddr, u32, u32, SystemTime)> {
    st.get_all_addrs().filter_map(|b: &BootstrapAddr| b.peer_id().map(|p| (p, b.addr.clone(), b.success_count, b.failure_count, b.last_seen))).collect()
}

/// "A dialable address carrying a peer id": one IPv4 host, one transport (udp, optionally quic-v1; or tcp, optionally ws)
/// and one peer id, in that order and nothing else — in particular no second peer id (a relayed address stripped of its
/// `/p2p-circuit` names two peers and reaches neither) and no protocol twice.
fn well_formed(a: &Multiaddr) -> bool {
    let ps: Vec<Protocol> = a.iter().collect();
    let tail_ok = |rest: &[Protocol]| matches!(rest, [Protocol::P2p(_)]);
    match ps.as_slice() {
        [Protocol::Ip4(_), Protocol::Udp(_), Protocol::QuicV1, rest @ ..] => tail_ok(rest),
        [Protocol::Ip4(_), Protocol::Udp(_), rest @ ..] => tail_ok(rest),
        [Protocol::Ip4(_), Protocol::Tcp(_), Protocol::Ws(_), rest @ ..] => tail_ok(rest),
        [Protocol::Ip4(_), Protocol::Tcp(_), rest @ ..] => tail_ok(rest),
        _ => false,
    }
}

fn expired(ls: SystemTime, expiry: Duration) -> bool {
    match SystemTime::now().duration_since(ls) {
        Ok(d) => d >= expiry,
        Err(_) => true,
    }
}

impl Sys {
    fn new(cfg: Arc<Cfg>, pool: Arc<Pool>) -> Sys {
        let path = mc_core::scratch_root().join(format!("c18-{}.json", SEQ.fetch_add(1, Ordering::Relaxed)));
        let c = BootstrapCacheConfig::empty().with_cache_path(&path).with_max_peers(cfg.max_peers).with_addrs_per_peer(cfg.max_addrs).with_addr_expiry_duration(cfg.expiry);
        match cfg.ctor {
            0 => Sys { st: BootstrapCacheStore::new(c).expect("store"), cfg, pool, path },
            1 => {
                // the directory given on the command line decides where the cache lives; the configured path holds
                // a valid cache of its own (prepared file 1) that this store must neither read nor write
                let dir = path.with_extension("d");
                std::fs::create_dir_all(&dir).unwrap();
                let decoy = dir.join("configured-elsewhere.json");
                std::fs::write(&decoy, &pool.files[1]).unwrap();
                let c = c.with_cache_path(&decoy);
                let args = ant_bootstrap::PeersArgs { bootstrap_cache_dir: Some(dir.clone()), ..Default::default() };
                let st = BootstrapCacheStore::new_from_peers_args(&args, Some(c)).expect("store");
                Sys { st, cfg, pool, path: dir.join(ant_bootstrap::config::cache_file_name()) }
            }
            _ => {
                let args = ant_bootstrap::PeersArgs::default();
                Sys { st: BootstrapCacheStore::new_from_peers_args(&args, Some(c)).expect("store"), cfg, pool, path }
            }
        }
    }

    fn check_bounds(&self, after: &str, fails: &mut Vec<Fail>) {
        let es = entries(&self.st);
        let mut per_peer: BTreeMap<String, usize> = BTreeMap::new();
        for (p, a, _, _, _) in &es {
            *per_peer.entry(p.to_string()).or_default() += 1;
            if !well_formed(a) {
                fails.push(Fail::new("well-formed-addresses", "memory", format!("after {after}: the cache holds {a}, which is not host / transport / one peer id")));
            }
            // the entry is filed under the peer its address names
            if !matches!(a.iter().last(), Some(Protocol::P2p(id)) if id == *p) {
                fails.push(Fail::new("well-formed-addresses", "filed-under-another-peer", format!("after {after}: {a} is filed under peer {p}")));
            }
        }
        if self.st.peer_count() > self.cfg.max_peers {
            fails.push(Fail::new("bounded", "peers", format!("after {after}: {} peers held, limit {}", self.st.peer_count(), self.cfg.max_peers)));
        }
        for (p, n) in per_peer {
            if n > self.cfg.max_addrs {
                fails.push(Fail::new("bounded", "addrs-per-peer", format!("after {after}: peer {p} has {n} addresses, limit {}", self.cfg.max_addrs)));
            }
        }
    }

    fn check_clean(&self, after: &str, fails: &mut Vec<Fail>) {
        for (_, a, ok, fail, ls) in entries(&self.st) {
            if fail > ok {
                fails.push(Fail::new("clean-after-cleanup", "unreliable", format!("after {after}: {a} kept with {fail} failures > {ok} successes")));
            }
            if expired(ls, self.cfg.expiry) {
                fails.push(Fail::new("clean-after-cleanup", "expired", format!("after {after}: {a} kept although it is expired")));
            }
        }
    }
}

/// (peer, addr, success, failure, last_seen) of the cache file exactly as it is on disk
fn read_raw(path: &std::path::Path) -> Vec<(String, String, u32, u32, SystemTime)> {
    std::fs::read_to_string(path)
        .ok()
        .and_then(|t| serde_json::from_str::<serde_json::Value>(&t).ok())
        .map(|v| {
            let mut out = vec![];
            if let Some(peers) = v["peers"].as_object() {
                for (p, list) in peers {
                    for e in list.as_array().into_iter().flatten() {
                        let secs = e["last_seen"]["secs_since_epoch"].as_u64().unwrap_or(0);
                        out.push((p.clone(), e["addr"].as_str().unwrap_or("").to_string(), e["success_count"].as_u64().unwrap_or(0) as u32, e["failure_count"].as_u64().unwrap_or(0) as u32, SystemTime::UNIX_EPOCH + Duration::from_secs(secs)));
                    }
                }
            }
            out
        })
        .unwrap_or_default()
}

fn addr_set(es: &[(PeerId, Multiaddr, u32, u32, SystemTime)]) -> BTreeSet<String> {
    es.iter().map(|e| e.1.to_string()).collect()
}

impl System for Sys {
    type Action = Act;
    fn actions(&self) -> Vec<Act> {
        let mut v = vec![];
        for (i, a) in self.pool.addrs.iter().enumerate() {
            v.push(Act::Add { a: i, desc: a.to_string().chars().take(40).collect() });
        }
        for i in 0..self.pool.well_formed {
            v.push(Act::Status { a: i, ok: true });
            v.push(Act::Status { a: i, ok: false });
        }
        for i in [0usize, 3] {
            v.push(Act::Remove { a: i });
        }
        v.push(Act::Cleanup);
        for cleanup in [true, false] {
            v.push(Act::Flush { file: None, cleanup });
            for f in 0..self.pool.files.len() {
                v.push(Act::Flush { file: Some(f), cleanup });
            }
        }
        v
    }

    fn step(&mut self, a: &Act, fails: &mut Vec<Fail>) {
        match a {
            Act::Add { a, .. } => {
                // The code ranks peers by `last_seen.elapsed()` evaluated one after the other, so two entries created
                // within a microsecond of each other could be ranked either way. Keep creation times clearly apart so
                // that "oldest" is well defined and replay is deterministic.
                std::thread::sleep(Duration::from_micros(400));
                let addr = self.pool.addrs[*a].clone();
                let r = catch(|| self.st.add_addr(addr));
                if let Err(p) = r {
                    fails.push(Fail::new("no-panic", "add_addr", p));
                }
                // (add_addr cleans up only when it inserts something new, so cleanliness is judged after clean-ups)
                self.check_bounds("add_addr", fails);
            }
            Act::Status { a, ok } => {
                let addr = self.pool.addrs[*a].clone();
                self.st.update_addr_status(&addr, *ok);
                self.check_bounds("update_addr_status", fails);
            }
            Act::Remove { a } => {
                let addr = self.pool.addrs[*a].clone();
                self.st.remove_addr(&addr);
                if entries(&self.st).iter().any(|e| e.1 == addr) {
                    fails.push(Fail::new("remove", "still-there", format!("{addr} still held after remove_addr")));
                }
            }
            Act::Cleanup => {
                self.st.perform_cleanup();
                self.check_bounds("perform_cleanup", fails);
                self.check_clean("perform_cleanup", fails);
            }
            Act::Flush { file, cleanup } => {
                match file {
                    Some(f) => std::fs::write(&self.path, &self.pool.files[*f]).unwrap(),
                    None => {}
                }
                let mem_before = entries(&self.st);
                // the file exactly as it is on disk (not through load_cache_data, which already cleans up and breaks
                // ties between equally old peers by HashMap order)
                let file_before = read_raw(&self.path);
                let raw_file_before: BTreeSet<String> = file_before.iter().map(|e| e.1.clone()).collect();
                let r = catch(|| self.st.sync_and_flush_to_disk(*cleanup));
                match r {
                    Err(p) => fails.push(Fail::new("no-panic", "sync_and_flush_to_disk", p)),
                    Ok(Err(e)) => fails.push(Fail::new("flush-succeeds", "error", format!("{e:?}"))),
                    Ok(Ok(())) => {}
                }
                // the file as written by a flush with clean-up *is* the cache after merge + clean-up: judged raw
                // (load_cache_data would trim it again with this store's limits and hide an over-full file)
                if *cleanup {
                    let raw = read_raw(&self.path);
                    let mut per_peer: BTreeMap<&str, usize> = BTreeMap::new();
                    for e in &raw {
                        *per_peer.entry(e.0.as_str()).or_default() += 1;
                        if e.3 > e.2 || expired(e.4, self.cfg.expiry) {
                            fails.push(Fail::new("clean-after-cleanup", "file-after-flush", format!("the file written by a flush with clean-up holds {} (ok {}, fail {}, expired {})", e.1, e.2, e.3, expired(e.4, self.cfg.expiry))));
                        }
                    }
                    if per_peer.len() > self.cfg.max_peers {
                        fails.push(Fail::new("bounded", "file-peers", format!("the file written by a flush with clean-up holds {} peers, limit {}", per_peer.len(), self.cfg.max_peers)));
                    }
                    for (p, n) in per_peer {
                        if n > self.cfg.max_addrs {
                            fails.push(Fail::new("bounded", "file-addrs-per-peer", format!("the file written by a flush with clean-up holds {n} addresses for {p}, limit {}", self.cfg.max_addrs)));
                        }
                    }
                }
                // what a fresh process now loads
                match catch(|| BootstrapCacheStore::load_cache_data(self.st.config())) {
                    Err(p) => fails.push(Fail::new("no-panic", "load_cache_data", p)),
                    Ok(Err(e)) => fails.push(Fail::new("saved-file-loads", "error", format!("the file written by sync_and_flush_to_disk does not load: {e:?}"))),
                    Ok(Ok(d)) => {
                        let loaded: Vec<(PeerId, Multiaddr, u32, u32, SystemTime)> = d.peers.values().flat_map(|x| x.0.iter().cloned()).filter_map(|b| b.peer_id().map(|p| (p, b.addr.clone(), b.success_count, b.failure_count, b.last_seen))).collect();
                        let (ls, ms) = (addr_set(&loaded), addr_set(&mem_before));
                        let fs = raw_file_before.clone();
                        let union: BTreeSet<String> = ms.union(&raw_file_before).cloned().collect();
                        // never invents an address
                        for a in ls.difference(&union) {
                            fails.push(Fail::new("load-subset-of-memory-and-file", "invented", format!("loaded cache holds {a}, which was neither in memory nor in the file")));
                        }
                        // within limits and clean (load cleans up)
                        if d.peers.len() > self.cfg.max_peers {
                            fails.push(Fail::new("bounded", "loaded-peers", format!("loaded cache has {} peers, limit {}", d.peers.len(), self.cfg.max_peers)));
                        }
                        for (p, l) in d.peers.iter() {
                            if l.0.len() > self.cfg.max_addrs {
                                fails.push(Fail::new("bounded", "loaded-addrs-per-peer", format!("loaded cache has {} addresses for {p}, limit {}", l.0.len(), self.cfg.max_addrs)));
                            }
                        }
                        for (_, a, ok, fail, lsn) in &loaded {
                            if !well_formed(a) {
                                fails.push(Fail::new("well-formed-addresses", "loaded", format!("loaded cache holds ill-formed {a}")));
                            }
                            if fail > ok || expired(*lsn, self.cfg.expiry) {
                                fails.push(Fail::new("clean-after-cleanup", "loaded", format!("loaded cache holds {a} (ok {ok}, fail {fail}, expired {})", expired(*lsn, self.cfg.expiry))));
                            }
                        }
                        // merging never loses what either side knew, apart from what clean-up removes: when nothing in
                        // memory ∪ file (as on disk) is expired / unreliable / over a limit, the result is exactly that union.
                        // Counters of an address known to both sides add up, so judge reliability on the sums.
                        let mut merged: BTreeMap<(String, String), (u64, u64, SystemTime)> = BTreeMap::new();
                        for e in mem_before.iter().map(|e| (e.0.to_string(), e.1.to_string(), e.2, e.3, e.4)).chain(file_before.iter().cloned()) {
                            let m = merged.entry((e.0, e.1)).or_insert((0, 0, SystemTime::UNIX_EPOCH));
                            m.0 += e.2 as u64;
                            m.1 += e.3 as u64;
                            m.2 = m.2.max(e.4);
                        }
                        let each_side_clean = mem_before.iter().map(|e| (e.2, e.3, e.4)).chain(file_before.iter().map(|e| (e.2, e.3, e.4))).all(|(ok, fail, ls)| fail <= ok && !expired(ls, self.cfg.expiry));
                        let nothing_to_clean = each_side_clean && merged.values().all(|(ok, fail, ls)| fail <= ok && !expired(*ls, self.cfg.expiry));
                        let mut per_peer: BTreeMap<String, BTreeSet<String>> = BTreeMap::new();
                        for (p, a) in merged.keys() {
                            per_peer.entry(p.clone()).or_default().insert(a.clone());
                        }
                        let within = per_peer.len() <= self.cfg.max_peers && per_peer.values().all(|s| s.len() <= self.cfg.max_addrs);
                        // failure counters add up in a merge: an address reliable on both sides stays reliable
                        if nothing_to_clean && within {
                            let want: BTreeSet<String> = ms.union(&fs).cloned().collect();
                            if ls != want {
                                fails.push(Fail::new(
                                    "merge-loses-nothing",
                                    if *cleanup { "with-cleanup" } else { "without-cleanup" },
                                    format!("nothing was expired, unreliable or over a limit, yet the saved cache {ls:?} differs from memory ∪ file {want:?}"),
                                ));
                            }
                        }
                    }
                }
            }
        }
    }

    fn canon(&self) -> Vec<u8> {
        // last_seen values are compared only with each other and with now - expiry: keep rank and expired flag
        let mut es = entries(&self.st);
        let mut instants: Vec<SystemTime> = es.iter().map(|e| e.4).collect();
        instants.sort();
        instants.dedup();
        es.sort_by(|a, b| (a.0.to_string(), a.1.to_string()).cmp(&(b.0.to_string(), b.1.to_string())));
        let mem: Vec<String> = es.iter().map(|e| format!("{}|{}|{}|{}|r{}|x{}", e.0, e.1, e.2.min(4), e.3.min(4), instants.iter().position(|i| *i == e.4).unwrap_or(0), expired(e.4, self.cfg.expiry))).collect();
        let file = std::fs::read_to_string(&self.path).ok().and_then(|t| serde_json::from_str::<serde_json::Value>(&t).ok()).map(|v| {
            let mut s = vec![];
            if let Some(peers) = v["peers"].as_object() {
                for (p, list) in peers {
                    for e in list.as_array().into_iter().flatten() {
                        s.push(format!("{p}|{}|{}|{}", e["addr"], e["success_count"].as_u64().unwrap_or(0).min(4), e["failure_count"].as_u64().unwrap_or(0).min(4)));
                    }
                }
            }
            s.sort();
            s
        });
        format!("{mem:?}##{file:?}").into_bytes()
    }
}

fn corrupt_files(run: &Run, pool: &Pool) {
    let path = mc_core::scratch_root().join("c18-corrupt.json");
    let cfg = BootstrapCacheConfig::empty().with_cache_path(&path);
    let seed = &pool.files[1];
    let mut cases: Vec<(String, Vec<u8>)> = vec![];
    for l in 0..seed.len() {
        if seed.is_char_boundary(l) {
            cases.push((format!("truncated at {l}"), seed.as_bytes()[..l].to_vec()));
        }
    }
    let bytes = seed.as_bytes();
    let step = if run.quick() { 3 } else { 1 };
    for i in (0..bytes.len()).step_by(step) {
        for sub in [0x00u8, b'{', b'"', 0xff, b'9'] {
            if bytes[i] != sub {
                let mut b = bytes.to_vec();
                b[i] = sub;
                cases.push((format!("byte {i} := {sub:#x}"), b));
            }
        }
    }
    for (i, f) in ["", "[]", "{}", "null", "{\"peers\":[]}", "{\"nodes\":[],\"save_path\":\"x\"}", "\u{feff}{}"].iter().enumerate() {
        cases.push((format!("foreign shape {i}"), f.as_bytes().to_vec()));
    }
    // foreign *text*: a file of 700 bytes that is valid UTF-8 and no cache file, with one multi-byte character starting at
    // every byte offset 0..=600 (code that quotes or cuts the unparsable content by byte position meets the inside of a
    // character for one of them)
    for k in 0..=600usize {
        for ch in ["\u{e9}", "\u{20ac}"] {
            let mut t = "x".repeat(k);
            t.push_str(ch);
            t.push_str(&"y".repeat(700 - k));
            let name = if matches!(k, 254..=257 | 510..=513) { format!("foreign shape text, {}-byte character at offset {k}", ch.len()) } else { format!("foreign text, {}-byte character at offset {k}", ch.len()) };
            cases.push((name, t.into_bytes()));
        }
    }
    // well-formed files of the right shape whose numbers are not what this code would have written: every number token
    // of the seed file replaced in turn by boundary values (counters, seconds and nanoseconds of a timestamp)
    {
        let b = seed.as_bytes();
        let mut i = 0;
        let mut tokens: Vec<(usize, usize)> = vec![];
        while i < b.len() {
            if b[i].is_ascii_digit() && (i == 0 || matches!(b[i - 1], b':' | b',' | b'[' | b' ')) {
                let st = i;
                while i < b.len() && b[i].is_ascii_digit() {
                    i += 1;
                }
                if i < b.len() && matches!(b[i], b',' | b'}' | b']' | b' ' | b'\n') {
                    tokens.push((st, i));
                }
            } else {
                i += 1;
            }
        }
        let day = 86_400u64;
        let values: Vec<String> = vec![
            "0".into(),
            "4294967295".into(),
            "4294967296".into(),
            (i64::MAX as u64 - day - 1).to_string(),
            (i64::MAX as u64 - day + 1).to_string(),
            (i64::MAX as u64 - 1).to_string(),
            (i64::MAX as u64).to_string(),
            (i64::MAX as u64 + 1).to_string(),
            u64::MAX.to_string(),
            "18446744073709551616".into(),
            "-1".into(),
            "1e30".into(),
            "999999999".into(),
            "1000000000".into(),
        ];
        for (n, (st, en)) in tokens.iter().enumerate() {
            for v in &values {
                let mut f = seed[..*st].to_string();
                f.push_str(v);
                f.push_str(&seed[*en..]);
                cases.push((format!("number token {n} := {v}"), f.into_bytes()));
            }
        }
        run.extra("corrupt_files_number_tokens", json!(tokens.len()));
    }
    let mut loaded = 0u64;
    // the same files under every expiry setting a configuration can carry (the clean-up compares each entry's age with it)
    let expiry_cfgs: Vec<(&str, BootstrapCacheConfig)> = vec![
        ("expiry 24 h", cfg.clone()),
        ("expiry 0", cfg.clone().with_addr_expiry_duration(Duration::ZERO)),
        ("expiry Duration::MAX", cfg.clone().with_addr_expiry_duration(Duration::MAX)),
    ];
    for (ename, ecfg) in expiry_cfgs.iter().skip(1) {
        for (name, content) in cases.iter().filter(|(n, _)| n.starts_with("number token") || n.starts_with("foreign shape") || n == "truncated at 0") {
            std::fs::write(&path, content).unwrap();
            run.case(format!("corrupt:{ename}:{name}").as_bytes(), true);
            let r = catch(|| {
                let _ = BootstrapCacheStore::load_cache_data(ecfg);
                let mut st = BootstrapCacheStore::new(ecfg.clone()).expect("store");
                st.add_addr(pool.addrs[0].clone());
                let _ = st.sync_and_flush_to_disk(true);
                let _ = BootstrapCacheStore::load_cache_data(ecfg);
            });
            if let Err(p) = r {
                run.violation("corrupt-file-ignored", "load-panics", format!("{ename}: loading / adding / flushing over a cache file {name} panicked: {p}"), json!({"engine":"corrupt-files","file": name, "config": ename}));
            }
        }
    }
    for (name, content) in &cases {
        std::fs::write(&path, content).unwrap();
        run.case(format!("corrupt:{name}").as_bytes(), true);
        match catch(|| BootstrapCacheStore::load_cache_data(&cfg)) {
            Err(p) => run.violation("corrupt-file-ignored", "load-panics", format!("load_cache_data panicked on a cache file {name}: {p}"), json!({"engine":"corrupt-files","file": name})),
            Ok(Ok(_)) => loaded += 1,
            Ok(Err(_)) => {}
        }
        // a process starting over such a file must be able to work and to overwrite it
        let r = catch(|| {
            let mut st = BootstrapCacheStore::new(cfg.clone()).expect("store");
            st.add_addr(pool.addrs[0].clone());
            let res = st.sync_and_flush_to_disk(true);
            (res.is_ok(), BootstrapCacheStore::load_cache_data(&cfg).map(|d| d.peers.len()).ok())
        });
        match r {
            Err(p) => run.violation("corrupt-file-ignored", "flush-panics", format!("flushing over a cache file {name} panicked: {p}"), json!({"engine":"corrupt-files","file": name})),
            Ok((ok, after)) => {
                if !ok || after.is_none() || after == Some(0) {
                    run.violation("corrupt-file-ignored", "not-overwritten", format!("after flushing over a cache file {name}: flush ok={ok}, reload = {after:?} peers"), json!({"engine":"corrupt-files","file": name}));
                }
            }
        }
    }
    run.extra("corrupt_files", json!({"cases": cases.len(), "still_loadable": loaded}));
    let _ = std::fs::remove_file(&path);
}

/// Cache files whose entries are tied in age: limits and cleanliness must hold whichever of the tied peers is dropped.
fn tied_files(run: &Run, pool: &Pool) {
    let path = mc_core::scratch_root().join("c18-tied.json");
    let mut n = 0u64;
    for (fi, content) in pool.tied_files.iter().enumerate() {
        for max_peers in [1usize, 2, 3] {
            for max_addrs in [1usize, 2] {
                for expiry in [Duration::from_secs(86400), Duration::from_secs(7 * 86400)] {
                    for op in ["load", "flush-with-cleanup", "add-then-flush-with-cleanup", "flush-without-cleanup-then-load"] {
                        let desc = json!({"engine": "tied-files", "file": fi, "max_peers": max_peers, "max_addrs": max_addrs, "expiry_s": expiry.as_secs(), "op": op});
                        run.case(desc.to_string().as_bytes(), true);
                        n += 1;
                        std::fs::write(&path, content).unwrap();
                        let cfg = BootstrapCacheConfig::empty().with_cache_path(&path).with_max_peers(max_peers).with_addrs_per_peer(max_addrs).with_addr_expiry_duration(expiry);
                        let r = catch(|| {
                            let mut st = BootstrapCacheStore::new(cfg.clone()).expect("store");
                            match op {
                                "load" => {}
                                "flush-with-cleanup" => drop(st.sync_and_flush_to_disk(true)),
                                "add-then-flush-with-cleanup" => {
                                    st.add_addr(pool.addrs[5].clone());
                                    drop(st.sync_and_flush_to_disk(true));
                                }
                                _ => drop(st.sync_and_flush_to_disk(false)),
                            }
                            BootstrapCacheStore::load_cache_data(&cfg).map(|d| (d.peers.len(), d.peers.values().map(|a| a.0.len()).max().unwrap_or(0)))
                        });
                        match r {
                            Err(p) => run.violation("no-panic", "tied-file", format!("{desc}: {p}"), desc),
                            Ok(Err(e)) => run.violation("saved-file-loads", "tied-file", format!("{desc}: {e:?}"), desc),
                            Ok(Ok((peers, addrs))) => {
                                if peers > max_peers {
                                    run.violation("bounded", "loaded-peers-tied", format!("a cache whose peers are equally old loads with {peers} peers, limit {max_peers} ({desc})"), desc.clone());
                                }
                                if addrs > max_addrs {
                                    run.violation("bounded", "loaded-addrs-per-peer-tied", format!("a cache whose entries are equally old loads with {addrs} addresses for one peer, limit {max_addrs} ({desc})"), desc.clone());
                                }
                                // the raw file after a flush with clean-up
                                if op.contains("with-cleanup") {
                                    let raw = read_raw(&path);
                                    let mut per_peer: BTreeMap<&str, usize> = BTreeMap::new();
                                    for e in &raw {
                                        *per_peer.entry(e.0.as_str()).or_default() += 1;
                                    }
                                    if per_peer.len() > max_peers || per_peer.values().any(|c| *c > max_addrs) {
                                        run.violation("bounded", "file-tied", format!("the file written by a flush with clean-up over equally old entries holds {} peers (limit {max_peers}) with up to {} addresses (limit {max_addrs}) ({desc})", per_peer.len(), per_peer.values().max().unwrap_or(&0)), desc.clone());
                                    }
                                }
                            }
                        }
                    }
                }
            }
        }
    }
    run.extra("tied_files", json!({"cases": n}));
    let _ = std::fs::remove_file(&path);
}

/// Cache files written under looser limits than the ones now in force (another version, another configuration, a flush
/// without clean-up): one peer with 1..=6 addresses, another with 1..=2, distinct ages. Under every tighter per-peer
/// limit the loaded cache, and the file a flush with clean-up writes, must respect the limit however large the excess
/// is — a clean-up that sheds one address at a time only works for an excess of one.
fn crowded_files(run: &Run) {
    let dir = mc_core::scratch_root().join("c18-crowded");
    std::fs::create_dir_all(&dir).unwrap();
    let (p1, p2) = (pid(1), pid(2));
    let a1: Vec<Multiaddr> = (0..7).map(|i| format!("/ip4/10.1.0.{}/udp/{}/quic-v1/p2p/{p1}", i + 1, 2200 + i).parse().unwrap()).collect();
    let a2: Vec<Multiaddr> = (0..2).map(|i| format!("/ip4/10.2.0.{}/udp/{}/quic-v1/p2p/{p2}", i + 1, 2300 + i).parse().unwrap()).collect();
    let path = dir.join("cache.json");
    let mut n = 0u64;
    let mut excess_seen = 0usize;
    for n1 in 1..=6usize {
        for n2 in 1..=2usize {
            // written by a real store under the default limits (6 addresses per peer), entries 400 us apart
            let loose = BootstrapCacheConfig::empty().with_cache_path(&path);
            let _ = std::fs::remove_file(&path);
            let mut w = BootstrapCacheStore::new(loose).unwrap();
            for a in a1.iter().take(n1).chain(a2.iter().take(n2)) {
                std::thread::sleep(Duration::from_micros(400));
                w.add_addr(a.clone());
            }
            w.write().unwrap();
            let content = std::fs::read_to_string(&path).unwrap();
            if read_raw(&path).len() != n1 + n2 {
                run.machinery_error("crowded-files: the prepared file does not hold the addresses it was built from");
            }
            for max_addrs in 1..=5usize {
                for op in ["load", "flush-with-cleanup", "add-then-flush-with-cleanup", "flush-without-cleanup-then-load", "fresh-addresses-then-flush-with-cleanup"] {
                    let desc = json!({"engine": "crowded-files", "p1_addrs": n1, "p2_addrs": n2, "max_addrs": max_addrs, "op": op});
                    run.case(desc.to_string().as_bytes(), n1 > max_addrs);
                    n += 1;
                    excess_seen = excess_seen.max(n1.saturating_sub(max_addrs));
                    std::fs::write(&path, &content).unwrap();
                    let cfg = BootstrapCacheConfig::empty().with_cache_path(&path).with_max_peers(5).with_addrs_per_peer(max_addrs).with_addr_expiry_duration(Duration::from_secs(86400));
                    let r = catch(|| {
                        let mut st = BootstrapCacheStore::new(cfg.clone()).expect("store");
                        match op {
                            "load" => {}
                            "flush-with-cleanup" => drop(st.sync_and_flush_to_disk(true)),
                            "add-then-flush-with-cleanup" => {
                                st.add_addr(a1[6].clone());
                                drop(st.sync_and_flush_to_disk(true));
                            }
                            "fresh-addresses-then-flush-with-cleanup" => {
                                // the driver's rhythm: an empty in-memory cache filled one address at a time, then merged with the file
                                let mut fresh = BootstrapCacheStore::new(cfg.clone()).expect("store");
                                for a in a1.iter().rev().take(max_addrs) {
                                    std::thread::sleep(Duration::from_micros(400));
                                    fresh.add_addr(a.clone());
                                }
                                drop(fresh.sync_and_flush_to_disk(true));
                            }
                            _ => drop(st.sync_and_flush_to_disk(false)),
                        }
                        BootstrapCacheStore::load_cache_data(&cfg).map(|d| d.peers.values().map(|a| a.0.len()).max().unwrap_or(0))
                    });
                    match r {
                        Err(p) => run.violation("no-panic", "crowded-file", format!("{desc}: {p}"), desc),
                        Ok(Err(e)) => run.violation("saved-file-loads", "crowded-file", format!("{desc}: {e:?}"), desc),
                        Ok(Ok(addrs)) => {
                            if addrs > max_addrs {
                                run.violation("bounded", "loaded-addrs-per-peer-crowded", format!("a cache file holding {n1} addresses of one peer loads with {addrs} of them under a limit of {max_addrs} ({desc})"), desc.clone());
                            }
                            if op.contains("with-cleanup") {
                                let raw = read_raw(&path);
                                let mut per_peer: BTreeMap<&str, usize> = BTreeMap::new();
                                for e in &raw {
                                    *per_peer.entry(e.0.as_str()).or_default() += 1;
                                }
                                let worst = per_peer.values().max().cloned().unwrap_or(0);
                                if worst > max_addrs {
                                    run.violation("bounded", "file-addrs-per-peer-crowded", format!("the file written by a flush with clean-up holds {worst} addresses of one peer, limit {max_addrs} ({desc})"), desc.clone());
                                }
                                if raw.is_empty() {
                                    run.violation("merge-keeps-everything", "crowded-file-emptied", format!("a flush with clean-up over a crowded file wrote no address at all ({desc})"), desc.clone());
                                }
                            }
                        }
                    }
                }
            }
        }
    }
    if excess_seen < 3 {
        run.machinery_error("crowded-files: no case exceeds its limit by three or more");
    }
    run.extra("crowded_files", json!({"cases": n, "largest_excess_over_the_limit": excess_seen}));
    let _ = std::fs::remove_dir_all(&dir);
}

pub fn main(tier: Option<&str>) {
    let run = Run::new("C18", "model_checking", tier);
    run.rule(
        "(H) BFS, replay mode, on a real BootstrapCacheStore: add_addr over 6 well-formed addresses of 2 peers + 6 ill-formed shapes, \
         update_addr_status(ok|fail), remove_addr, perform_cleanup, sync_and_flush_to_disk(with|without clean-up) against the current file or \
         one of 3 prepared files (fresh reliable, fresh with an unreliable address, two days old); depth 4(5); 8 configurations \
         (max_peers 1|2 x max_addrs 1|2 x expiry 0|1 day); state key = memory and file entries with last_seen reduced to rank + expired flag; \
         the same search one level shallower on stores built by new_from_peers_args with a --bootstrap-cache-dir (the configured path then holds a decoy cache) and without. \
         (F2) every truncation and every 3rd(every) byte substituted by 5 boundary bytes in a valid file, 7 foreign shapes. \
         (T) 3 cache files whose entries all carry the same last_seen x max_peers 1|2|3 x max_addrs 1|2 x 2 expiries x {load, flush with clean-up, add then flush, flush without clean-up then load}: limits only. \
         (C) 12 cache files written by a real store under the default limits (one peer with 1..=6 addresses, another with 1..=2) x per-peer limit 1..=5 x \
         {load, flush with clean-up, add then flush, flush without clean-up then load, an empty cache filled one address at a time then flushed}: per-peer limit on the loaded cache and on the raw file.",
    );
    run.assume("which of several equally old peers clean-up drops depends on HashMap order: not judged (only counts and cleanliness are)");
    run.assume("last_seen values enter the state key as ranks plus an expired flag: the code only compares them with each other and with now - expiry");
    run.assume("concurrent writers (interleavings of file-system calls) are checked by the vcheck-fs binary, see evidence key fs_interleavings");
    let pool = Arc::new(pool());
    let depth = run.pick(4, 5);
    for max_peers in [1usize, 2] {
        for max_addrs in [1usize, 2] {
            for expiry in [Duration::from_secs(0), Duration::from_secs(86400)] {
                let cfg = Arc::new(Cfg { max_peers, max_addrs, expiry, ctor: 0 });
                let p = pool.clone();
                bfs_replay(
                    &run,
                    BfsOpts { max_depth: depth, wall_cap: Some(Duration::from_secs(run.pick(12, 600))), state_cap: None, label: format!("peers<={max_peers}/addrs<={max_addrs}/expiry={}s", expiry.as_secs()) },
                    || Sys::new(cfg.clone(), p.clone()),
                );
            }
        }
    }
    // the store as a node or client really builds it: `new_from_peers_args`, with and without a cache directory
    // given on the command line (one level shallower; the widest and the narrowest limits)
    for ctor in [1u8, 2] {
        for (max_peers, max_addrs) in [(2usize, 2usize), (1, 1)] {
            let cfg = Arc::new(Cfg { max_peers, max_addrs, expiry: Duration::from_secs(86400), ctor });
            let p = pool.clone();
            bfs_replay(
                &run,
                BfsOpts { max_depth: depth - 1, wall_cap: Some(Duration::from_secs(run.pick(12, 600))), state_cap: None, label: format!("new_from_peers_args({})/peers<={max_peers}/addrs<={max_addrs}", if ctor == 1 { "cache dir" } else { "no cache dir" }) },
                || Sys::new(cfg.clone(), p.clone()),
            );
        }
    }
    corrupt_files(&run, &pool);
    tied_files(&run, &pool);
    crowded_files(&run);
    crate::c18fs::run_fs_interleavings(&run);
    run.finish();
}
