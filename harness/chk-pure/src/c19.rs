//! C19 — service lifecycle state matches the managed processes, even under faults.
//! BFS (replay mode) over add/start/stop/remove/upgrade/process-dies on the real `add_node`,
//! `ServiceManager` and `NodeRegistry`, against a simulated OS (`SimOs` implements the public
//! `ServiceControl` and `RpcActions` traits). Every call the code makes into the OS is numbered;
//! a fault placement fails call k of an operation with one of the error variants the code
//! distinguishes.
use ant_evm::{EvmNetwork, RewardsAddress};
use ant_node_manager::add_services::add_node;
use ant_node_manager::add_services::config::{AddNodeServiceOptions, PortRange};
use ant_node_manager::{ServiceManager, VerbosityLevel};
use ant_service_management::control::ServiceControl;
use ant_service_management::error::{Error as SvcError, Result as SvcResult};
use ant_service_management::rpc::{NetworkInfo, NodeInfo, RecordAddress, RpcActions};
use ant_service_management::{NodeRegistry, NodeService, ServiceStatus, UpgradeOptions};
use mc_core::bfs::{bfs_replay, BfsOpts, Fail, System};
use mc_core::Run;
use service_manager::ServiceInstallCtx;
use std::collections::BTreeMap;
use std::path::{Path, PathBuf};
use std::sync::atomic::{AtomicU64, Ordering};
use std::sync::{Arc, Mutex};
use std::time::Duration;

#[derive(Clone, Copy, Debug, PartialEq, Eq)]
pub enum FaultKind {
    ProcessNotFound,
    RemovedManually,
    DoesNotExist,
    Generic,
}

fn make_err(k: FaultKind, what: &str) -> SvcError {
    match k {
        FaultKind::ProcessNotFound => SvcError::ServiceProcessNotFound(what.to_string()),
        FaultKind::RemovedManually => SvcError::ServiceRemovedManually(what.to_string()),
        FaultKind::DoesNotExist => SvcError::ServiceDoesNotExists(what.to_string()),
        FaultKind::Generic => SvcError::Io(std::io::Error::other(format!("injected failure in {what}"))),
    }
}

#[derive(Default)]
pub struct OsState {
    /// service label -> program path
    pub installed: BTreeMap<String, PathBuf>,
    /// program path -> pid
    pub processes: BTreeMap<PathBuf, u32>,
    pub next_pid: u32,
    pub next_port: u16,
    /// calls made during the current operation
    pub calls: Vec<String>,
    /// (index of the call within the operation, kind)
    pub faults: Vec<(usize, FaultKind)>,
    pub injected: usize,
    /// definitions the user deleted by hand: uninstall answers ServiceRemovedManually for them
    pub removed_manually: std::collections::BTreeSet<String>,
    /// units the service manager has loaded: a running unit can still be stopped after its definition file was deleted
    pub loaded: BTreeMap<String, PathBuf>,
}

#[derive(Clone)]
pub struct SimOs(pub Arc<Mutex<OsState>>);

impl SimOs {
    fn new() -> SimOs {
        SimOs(Arc::new(Mutex::new(OsState { next_pid: 1000, next_port: 40000, ..Default::default() })))
    }
    /// registers the call; Some(err) if it is to fail
    fn call(&self, name: &str) -> Option<SvcError> {
        let mut g = self.0.lock().unwrap();
        let idx = g.calls.len();
        g.calls.push(name.to_string());
        if let Some((_, k)) = g.faults.iter().find(|(i, _)| *i == idx).cloned() {
            g.injected += 1;
            return Some(make_err(k, name));
        }
        None
    }
    fn begin_op(&self, faults: &[(usize, FaultKind)]) {
        let mut g = self.0.lock().unwrap();
        g.calls.clear();
        g.faults = faults.to_vec();
    }
}

impl ServiceControl for SimOs {
    fn create_service_user(&self, _username: &str) -> SvcResult<()> {
        if let Some(e) = self.call("create_service_user") {
            return Err(e);
        }
        Ok(())
    }
    fn get_available_port(&self) -> SvcResult<u16> {
        if let Some(e) = self.call("get_available_port") {
            return Err(e);
        }
        let mut g = self.0.lock().unwrap();
        g.next_port += 1;
        Ok(g.next_port)
    }
    fn install(&self, ctx: ServiceInstallCtx, _user_mode: bool) -> SvcResult<()> {
        if let Some(e) = self.call("install") {
            return Err(e);
        }
        self.0.lock().unwrap().installed.insert(ctx.label.to_string(), ctx.program.clone());
        Ok(())
    }
    fn get_process_pid(&self, path: &Path) -> SvcResult<u32> {
        if let Some(e) = self.call("get_process_pid") {
            return Err(e);
        }
        self.0.lock().unwrap().processes.get(path).copied().ok_or_else(|| SvcError::ServiceProcessNotFound(path.to_string_lossy().to_string()))
    }
    fn start(&self, service_name: &str, _user_mode: bool) -> SvcResult<()> {
        if let Some(e) = self.call("start") {
            return Err(e);
        }
        let mut g = self.0.lock().unwrap();
        let Some(program) = g.installed.get(service_name).cloned() else {
            return Err(SvcError::Io(std::io::Error::other("no such service definition")));
        };
        g.loaded.insert(service_name.to_string(), program.clone());
        if !g.processes.contains_key(&program) {
            g.next_pid += 1;
            let pid = g.next_pid;
            g.processes.insert(program, pid);
        }
        Ok(())
    }
    fn stop(&self, service_name: &str, _user_mode: bool) -> SvcResult<()> {
        if let Some(e) = self.call("stop") {
            return Err(e);
        }
        let mut g = self.0.lock().unwrap();
        if let Some(program) = g.installed.get(service_name).cloned().or_else(|| g.loaded.get(service_name).cloned()) {
            g.processes.remove(&program);
        }
        Ok(())
    }
    fn uninstall(&self, service_name: &str, _user_mode: bool) -> SvcResult<()> {
        if let Some(e) = self.call("uninstall") {
            return Err(e);
        }
        let mut g = self.0.lock().unwrap();
        match g.installed.remove(service_name) {
            Some(_) => Ok(()),
            None if g.removed_manually.contains(service_name) => Err(SvcError::ServiceRemovedManually(service_name.to_string())),
            None => Err(SvcError::ServiceDoesNotExists(service_name.to_string())),
        }
    }
    fn wait(&self, _delay: u64) {}
}

/// The node's RPC endpoint, answered from the simulated OS.
struct SimRpc {
    os: SimOs,
    program: PathBuf,
    port: u16,
}

#[async_trait::async_trait]
impl RpcActions for SimRpc {
    async fn node_info(&self) -> SvcResult<NodeInfo> {
        if let Some(e) = self.os.call("rpc:node_info") {
            return Err(e);
        }
        let pid = self.os.0.lock().unwrap().processes.get(&self.program).copied().ok_or_else(|| SvcError::RpcConnectionError("node not running".into()))?;
        Ok(NodeInfo { pid, peer_id: rigs::fixtures::peer_id(9), log_path: PathBuf::from("/log"), data_path: PathBuf::from("/data"), version: "0.1.0".into(), uptime: Duration::from_secs(1), wallet_balance: 0 })
    }
    async fn network_info(&self) -> SvcResult<NetworkInfo> {
        if let Some(e) = self.os.call("rpc:network_info") {
            return Err(e);
        }
        Ok(NetworkInfo { connected_peers: vec![], listeners: vec![format!("/ip4/127.0.0.1/udp/{}/quic-v1", self.port).parse().unwrap()] })
    }
    async fn record_addresses(&self) -> SvcResult<Vec<RecordAddress>> {
        Ok(vec![])
    }
    async fn node_restart(&self, _d: u64, _r: bool) -> SvcResult<()> {
        Ok(())
    }
    async fn node_stop(&self, _d: u64) -> SvcResult<()> {
        Ok(())
    }
    async fn node_update(&self, _d: u64) -> SvcResult<()> {
        Ok(())
    }
    async fn is_node_connected_to_network(&self, _t: Duration) -> SvcResult<()> {
        if let Some(e) = self.os.call("rpc:is_node_connected_to_network") {
            return Err(e);
        }
        Ok(())
    }
    async fn update_log_level(&self, _l: String) -> SvcResult<()> {
        Ok(())
    }
}

#[derive(Clone, Copy, Debug, PartialEq, Eq)]
pub enum Ports {
    None,
    Single,
    /// a single port equal to the *last* port of `Range`
    SingleLast,
    Range,
    /// the same number as `Single`, requested as the service's RPC port / metrics port: a port recorded for one purpose
    /// is just as taken for another
    SingleRpc,
    SingleMetrics,
}

#[derive(Clone, Debug)]
pub enum Op {
    Add { count: u16, ports: Ports },
    Start { i: usize },
    Stop { i: usize },
    Remove { i: usize, keep_dirs: bool },
    Upgrade { i: usize, start: bool, force: bool },
    ProcessDies { i: usize },
    /// the user deletes the service definition behind the manager's back
    DefinitionRemoved { i: usize, manually_flag: bool },
}

#[derive(Clone, Debug)]
pub struct Act {
    pub op: Op,
    /// failures injected into this operation: (call index, kind)
    pub faults: Vec<(usize, FaultKind)>,
}

pub struct Sys {
    os: SimOs,
    reg: NodeRegistry,
    dir: PathBuf,
    rt: tokio::runtime::Runtime,
    removed_once: Vec<String>,
    /// services whose process was started by the OS but whose start/upgrade operation then failed:
    /// the process is alive while the registry does not record it as running
    left_behind: Vec<String>,
    /// services whose process died on its own since the manager last operated on them
    died_unseen: Vec<String>,
    faults_used: usize,
    max_faults: usize,
    max_services: usize,
    pair_faults: bool,
    /// drive the operations the way `antctl` does: every start / stop / remove / upgrade is preceded by the partial
    /// registry refresh of `cmd/node.rs` (refresh_node_registry(.., full_refresh = false, is_local_network = false))
    cmd_layer: bool,
    /// command layer only: the injected failures may also hit the calls of the refresh (its PID look-ups)
    refresh_faults: bool,
}

static SEQ: AtomicU64 = AtomicU64::new(0);

impl Drop for Sys {
    fn drop(&mut self) {
        let _ = std::fs::remove_dir_all(&self.dir);
    }
}

fn registry_json(r: &NodeRegistry) -> serde_json::Value {
    serde_json::to_value(r).unwrap_or(serde_json::Value::Null)
}

impl Sys {
    fn new(max_faults: usize, pair_faults: bool, cmd_layer: bool) -> Sys {
        let dir = mc_core::scratch_root().join(format!("c19-{}", SEQ.fetch_add(1, Ordering::Relaxed)));
        std::fs::create_dir_all(&dir).unwrap();
        std::fs::write(dir.join("antnode"), b"#!/bin/sh\n").unwrap();
        std::fs::write(dir.join("antnode-new"), b"#!/bin/sh\n# new\n").unwrap();
        let reg = NodeRegistry::load(&dir.join("registry.json")).expect("empty registry");
        Sys { os: SimOs::new(), reg, dir, rt: tokio::runtime::Builder::new_current_thread().enable_time().build().unwrap(), removed_once: vec![], left_behind: vec![], died_unseen: vec![], faults_used: 0, max_faults, max_services: 2, pair_faults, cmd_layer, refresh_faults: false }
    }

    fn add_options(&self, count: u16, ports: Ports) -> AddNodeServiceOptions {
        let port = |p: Ports| match p {
            Ports::None => None,
            Ports::Single => Some(PortRange::Single(12000)),
            Ports::SingleLast => Some(PortRange::Single(12001)),
            Ports::Range => Some(PortRange::Range(12000, 12001)),
            Ports::SingleRpc | Ports::SingleMetrics => None,
        };
        AddNodeServiceOptions {
            antnode_dir_path: self.dir.join("bin"),
            antnode_src_path: self.dir.join("antnode"),
            auto_restart: false,
            auto_set_nat_flags: false,
            count: Some(count),
            delete_antnode_src: false,
            enable_metrics_server: false,
            env_variables: None,
            evm_network: EvmNetwork::ArbitrumOne,
            home_network: false,
            log_format: None,
            max_archived_log_files: None,
            max_log_files: None,
            metrics_port: if ports == Ports::SingleMetrics { Some(PortRange::Single(12000)) } else { None },
            network_id: None,
            node_ip: None,
            node_port: port(ports),
            owner: None,
            peers_args: Default::default(),
            rewards_address: RewardsAddress::from([1u8; 20]),
            rpc_address: None,
            rpc_port: if ports == Ports::SingleRpc { Some(PortRange::Single(12000)) } else { None },
            service_data_dir_path: self.dir.join("data"),
            service_log_dir_path: self.dir.join("logs"),
            upnp: false,
            user: None,
            user_mode: true,
            version: "0.1.0".into(),
        }
    }

    fn process_of(&self, i: usize) -> Option<u32> {
        let prog = &self.reg.nodes[i].antnode_path;
        self.os.0.lock().unwrap().processes.get(prog).copied()
    }

    fn invariants(&self, after: &str, trig: &str, fails: &mut Vec<Fail>) {
        // recorded Running => live process with exactly the recorded pid
        for (i, n) in self.reg.nodes.iter().enumerate() {
            let live = self.process_of(i);
            if n.status == ServiceStatus::Running {
                if live.is_none() || live != n.pid {
                    // a process that died on its own is reality moving, not the manager recording something wrong
                    if !self.died_unseen.contains(&n.service_name) {
                        fails.push(Fail::new("running-means-live-process", trig, format!("after {after}: {} is recorded Running with pid {:?}, the OS has {live:?}", n.service_name, n.pid)));
                    }
                }
            }
            if self.removed_once.contains(&n.service_name) && n.status != ServiceStatus::Removed {
                fails.push(Fail::new("removed-stays-removed", trig, format!("after {after}: {} had been removed and is now {:?}", n.service_name, n.status)));
            }
        }
        // names and data dirs pairwise distinct
        for a in 0..self.reg.nodes.len() {
            for b in (a + 1)..self.reg.nodes.len() {
                let (x, y) = (&self.reg.nodes[a], &self.reg.nodes[b]);
                if x.service_name == y.service_name || x.data_dir_path == y.data_dir_path {
                    fails.push(Fail::new("distinct-names-and-dirs", trig, format!("after {after}: services {a} and {b} share a name or data dir ({} / {})", x.service_name, y.service_name)));
                }
                if x.node_port.is_some() && x.node_port == y.node_port && x.status != ServiceStatus::Removed && y.status != ServiceStatus::Removed && x.status == ServiceStatus::Added && y.status == ServiceStatus::Added {
                    fails.push(Fail::new("port-conflict-refused", trig, format!("after {after}: services {a} and {b} both record node port {:?}", x.node_port)));
                }
                // whatever the purpose: a port number recorded for one service (node, metrics or RPC) is recorded for no other
                if x.status != ServiceStatus::Removed && y.status != ServiceStatus::Removed {
                    let ports_of = |n: &ant_service_management::NodeServiceData| -> Vec<u16> { n.node_port.into_iter().chain(n.metrics_port).chain(std::iter::once(n.rpc_socket_addr.port())).collect() };
                    let (px, py) = (ports_of(x), ports_of(y));
                    if let Some(p) = px.iter().find(|p| py.contains(p)) {
                        if !(x.node_port == Some(*p) && y.node_port == Some(*p)) {
                            fails.push(Fail::new("port-conflict-refused", trig, format!("after {after}: port {p} is recorded for both service {a} and service {b} (node / metrics / RPC ports {px:?} and {py:?})")));
                        }
                    }
                }
            }
        }
        // the registry saved after the step loads back to the same state
        match self.reg.save() {
            Err(e) => fails.push(Fail::new("registry-roundtrip", "save-failed", format!("after {after}: save failed: {e:?}"))),
            Ok(()) => match NodeRegistry::load(&self.reg.save_path) {
                Ok(l) => {
                    if registry_json(&l) != registry_json(&self.reg) {
                        fails.push(Fail::new("registry-roundtrip", trig, format!("after {after}: the saved registry loads back differently")));
                    }
                }
                Err(e) => fails.push(Fail::new("registry-roundtrip", "load-failed", format!("after {after}: the saved registry does not load: {e:?}"))),
            },
        }
    }
}

impl System for Sys {
    type Action = Act;

    fn actions(&self) -> Vec<Act> {
        let mut ops: Vec<Op> = vec![];
        if self.reg.nodes.len() < self.max_services {
            ops.push(Op::Add { count: 1, ports: Ports::None });
            ops.push(Op::Add { count: 1, ports: Ports::Single });
            ops.push(Op::Add { count: 1, ports: Ports::SingleLast });
            ops.push(Op::Add { count: 1, ports: Ports::SingleRpc });
            ops.push(Op::Add { count: 1, ports: Ports::SingleMetrics });
            // a range request against a registry that already records its first or its last port: must be refused
            if self.reg.nodes.len() == 1 && self.reg.nodes.iter().any(|n| matches!(n.node_port, Some(12000) | Some(12001))) {
                ops.push(Op::Add { count: 2, ports: Ports::Range });
            }
            if self.reg.nodes.is_empty() {
                ops.push(Op::Add { count: 2, ports: Ports::None });
                ops.push(Op::Add { count: 2, ports: Ports::Range });
                ops.push(Op::Add { count: 2, ports: Ports::Single });
            }
        }
        for i in 0..self.reg.nodes.len() {
            ops.push(Op::Start { i });
            ops.push(Op::Stop { i });
            ops.push(Op::Remove { i, keep_dirs: false });
            ops.push(Op::Remove { i, keep_dirs: true });
            ops.push(Op::Upgrade { i, start: true, force: false });
            ops.push(Op::Upgrade { i, start: false, force: true });
            if self.process_of(i).is_some() {
                ops.push(Op::ProcessDies { i });
            }
            if self.os.0.lock().unwrap().installed.contains_key(&self.reg.nodes[i].service_name) {
                ops.push(Op::DefinitionRemoved { i, manually_flag: true });
                ops.push(Op::DefinitionRemoved { i, manually_flag: false });
            }
        }
        let mut acts: Vec<Act> = ops.iter().map(|o| Act { op: o.clone(), faults: vec![] }).collect();
        if self.faults_used < self.max_faults {
            // Injected failures are genuine failures of the call (an I/O error). The other variants the code
            // distinguishes (process not found, definition removed manually / does not exist) are *answers* that
            // the simulated OS gives when its state says so (ProcessDies, DefinitionRemoved), never lies.
            for o in &ops {
                if matches!(o, Op::ProcessDies { .. } | Op::DefinitionRemoved { .. }) {
                    continue;
                }
                for k in 0..8usize {
                    acts.push(Act { op: o.clone(), faults: vec![(k, FaultKind::Generic)] });
                }
                // two consecutive calls failing (a failed request followed by a failed look-up of its effect): in every tier,
                // for the operations on an existing service
                if !self.pair_faults && self.faults_used == 0 && matches!(o, Op::Start { .. } | Op::Stop { .. } | Op::Remove { .. }) {
                    for k in 0..6usize {
                        acts.push(Act { op: o.clone(), faults: vec![(k, FaultKind::Generic), (k + 1, FaultKind::Generic)] });
                    }
                }
                if self.pair_faults && self.faults_used + 2 <= self.max_faults {
                    for k in 0..7usize {
                        for l in (k + 1)..8usize {
                            acts.push(Act { op: o.clone(), faults: vec![(k, FaultKind::Generic), (l, FaultKind::Generic)] });
                        }
                    }
                }
            }
        }
        acts
    }

    fn step(&mut self, a: &Act, fails: &mut Vec<Fail>) {
        let fails_before = fails.len();
        self.step_inner(a, fails);
        if self.cmd_layer {
            // a violation seen through the command layer is its own finding: it is never absorbed by a known finding
            // recorded for the ServiceManager API driven directly
            for f in fails[fails_before..].iter_mut() {
                f.trigger = format!("command-layer/{}", f.trigger);
            }
        }
    }

    fn canon(&self) -> Vec<u8> {
        let g = self.os.0.lock().unwrap();
        let nodes: Vec<String> = self
            .reg
            .nodes
            .iter()
            .map(|n| format!("{}|{:?}|pid={:?}|port={:?}|rpc={}|v={}|live={:?}|inst={}|dirs={}{}", n.service_name, n.status, n.pid, n.node_port, n.rpc_socket_addr.port(), n.version, g.processes.get(&n.antnode_path), g.installed.contains_key(&n.service_name), n.data_dir_path.exists() as u8, n.antnode_path.exists() as u8))
            .collect();
        format!("{nodes:?}|faults={}|removed={:?}|left={:?}|died={:?}|nextpid={}", self.faults_used, self.removed_once, self.left_behind, self.died_unseen, g.next_pid).into_bytes()
    }
}

impl Sys {
    fn step_inner(&mut self, a: &Act, fails: &mut Vec<Fail>) {
        if self.cmd_layer && matches!(a.op, Op::Start { .. } | Op::Stop { .. } | Op::Remove { .. } | Op::Upgrade { .. }) {
            // what cmd/node.rs does first in start / stop / remove / upgrade (no failures are injected into the refresh itself)
            self.os.begin_op(if self.refresh_faults { &a.faults } else { &[] });
            let os = self.os.clone();
            let reg = &mut self.reg;
            let r = self.rt.block_on(async { ant_node_manager::refresh_node_registry(reg, &os, false, false, false).await });
            if let Err(e) = r {
                fails.push(Fail::new("registry-refresh", "failed", format!("the registry refresh in front of {:?} failed: {e:?}", a.op)));
            }
            for i in 0..self.reg.nodes.len() {
                let name = self.reg.nodes[i].service_name.clone();
                let live = self.process_of(i);
                if self.reg.nodes[i].status == ServiceStatus::Running && live.is_some() && live == self.reg.nodes[i].pid {
                    self.left_behind.retain(|x| *x != name);
                }
                if live.is_none() && self.reg.nodes[i].status != ServiceStatus::Running {
                    self.died_unseen.retain(|x| *x != name);
                }
            }
        }
        if !(self.cmd_layer && self.refresh_faults && matches!(a.op, Op::Start { .. } | Op::Stop { .. } | Op::Remove { .. } | Op::Upgrade { .. })) {
            self.os.begin_op(&a.faults);
        }
        let before = registry_json(&self.reg);
        let statuses_before: Vec<ServiceStatus> = self.reg.nodes.iter().map(|n| n.status.clone()).collect();
        let after_name = format!("{:?}", a.op);
        let mut result_ok = true;
        match &a.op {
            Op::Add { count, ports } => {
                let opts = self.add_options(*count, *ports);
                let requested: Vec<u16> = match ports {
                    Ports::None => vec![],
                    Ports::Single => vec![12000],
                    Ports::SingleLast => vec![12001],
                    Ports::Range => vec![12000, 12001],
                    Ports::SingleRpc | Ports::SingleMetrics => vec![12000],
                };
                let port_taken = self.reg.nodes.iter().any(|n| requested.iter().any(|p| n.node_port == Some(*p) || n.metrics_port == Some(*p) || n.rpc_socket_addr.port() == *p));
                let os = self.os.clone();
                let reg = &mut self.reg;
                let r = self.rt.block_on(async { add_node(opts, reg, &os, VerbosityLevel::Minimal).await });
                result_ok = r.is_ok();
                // the command line does not save the registry after a failed add (the error propagates and the process
                // exits), so what the next invocation loads is what add_node itself persisted: it must record every
                // service that was installed and recorded in memory before the failure
                if r.is_err() {
                    match NodeRegistry::load(&self.reg.save_path) {
                        Ok(l) => {
                            if registry_json(&l) != registry_json(&self.reg) {
                                let (on_disk, in_mem): (Vec<String>, Vec<String>) = (l.nodes.iter().map(|n| n.service_name.clone()).collect(), self.reg.nodes.iter().map(|n| n.service_name.clone()).collect());
                                fails.push(Fail::new("registry-roundtrip", "after-failed-add", format!("{after_name} failed: the registry on disk records {on_disk:?}, the services installed and recorded before the failure are {in_mem:?}")));
                            }
                        }
                        Err(e) => fails.push(Fail::new("registry-roundtrip", "load-failed", format!("{after_name} failed and the registry on disk does not load: {e:?}"))),
                    }
                }
                if port_taken && (r.is_ok() || registry_json(&self.reg) != before) {
                    fails.push(Fail::new("port-conflict-refused", "plain", format!("{after_name}: a requested port is already recorded for another service, yet the add returned {:?} / changed the registry", r.as_ref().map(|_| ()).map_err(|e| e.to_string()))));
                }
            }
            Op::Start { i } | Op::Stop { i } | Op::Remove { i, .. } | Op::Upgrade { i, .. } => {
                let os = self.os.clone();
                let recorded_before = (self.reg.nodes[*i].status.clone(), self.reg.nodes[*i].pid);
                let node = &mut self.reg.nodes[*i];
                let rpc = SimRpc { os: os.clone(), program: node.antnode_path.clone(), port: node.node_port.unwrap_or(15000 + *i as u16) };
                let name = node.service_name.clone();
                let svc = NodeService::new(node, Box::new(rpc));
                let mut mgr = ServiceManager::new(svc, Box::new(os.clone()), VerbosityLevel::Minimal);
                let target_bin = self.dir.join("antnode-new");
                let r: Result<(), String> = self.rt.block_on(async {
                    match &a.op {
                        Op::Start { .. } => mgr.start().await.map_err(|e| format!("{e:?}")),
                        Op::Stop { .. } => mgr.stop().await.map_err(|e| format!("{e:?}")),
                        Op::Remove { keep_dirs, .. } => mgr.remove(*keep_dirs).await.map_err(|e| format!("{e:?}")),
                        Op::Upgrade { start, force, .. } => mgr
                            .upgrade(UpgradeOptions { auto_restart: false, env_variables: None, force: *force, start_service: *start, target_bin_path: target_bin.clone(), target_version: semver::Version::new(0, 2, 0) })
                            .await
                            .map(|_| ())
                            .map_err(|e| format!("{e:?}")),
                        _ => unreachable!(),
                    }
                });
                drop(mgr);
                result_ok = r.is_ok();
                if (self.reg.nodes[*i].status.clone(), self.reg.nodes[*i].pid) != recorded_before {
                    // the manager re-recorded this service's state: from now on it answers for it again
                    let touched = self.reg.nodes[*i].service_name.clone();
                    self.died_unseen.retain(|x| *x != touched);
                }
                let n = &self.reg.nodes[*i];
                let live = self.process_of(*i);
                match &a.op {
                    Op::Stop { .. } | Op::Remove { .. } if r.is_ok() => {
                        // a successful stop or removal leaves no process and no recorded PID
                        let trig = if a.faults.is_empty() { "plain".to_string() } else { format!("fault:{:?}", a.faults.iter().map(|f| f.1).collect::<Vec<_>>()) };
                        if self.cmd_layer || statuses_before[*i] != ServiceStatus::Added || matches!(a.op, Op::Remove { .. }) {
                            if live.is_some() || n.pid.is_some() {
                                let trig = if self.left_behind.contains(&name) { "process-left-behind-by-a-failed-start".to_string() } else { trig };
                                fails.push(Fail::new("ok-stop-means-no-process", &trig, format!("{after_name} returned Ok but {name} has process {live:?} and recorded pid {:?}", n.pid)));
                            }
                        }
                        if matches!(a.op, Op::Remove { .. }) {
                            self.removed_once.push(name.clone());
                        }
                    }
                    _ => {}
                }
                // (an upgrade whose final start fails reports Ok(UpgradedButNotStarted): judged by the state, not by the result)
                if matches!(a.op, Op::Start { .. } | Op::Upgrade { .. }) && live.is_some() && n.status != ServiceStatus::Running && !self.left_behind.contains(&name) {
                    self.left_behind.push(name.clone());
                }
                if live.is_none() {
                    self.left_behind.retain(|x| *x != name);
                }
                if r.is_err() && statuses_before[*i] != ServiceStatus::Running && n.status == ServiceStatus::Running && (live.is_none() || live != n.pid) {
                    fails.push(Fail::new("failed-op-never-records-running", "plain", format!("{after_name} failed ({r:?}) yet {name} is now recorded Running without a matching process")));
                }
            }
            Op::ProcessDies { i } => {
                let prog = self.reg.nodes[*i].antnode_path.clone();
                self.os.0.lock().unwrap().processes.remove(&prog);
                let name = self.reg.nodes[*i].service_name.clone();
                if !self.died_unseen.contains(&name) {
                    self.died_unseen.push(name);
                }
            }
            Op::DefinitionRemoved { i, manually_flag } => {
                let name = self.reg.nodes[*i].service_name.clone();
                let mut g = self.os.0.lock().unwrap();
                g.installed.remove(&name);
                if *manually_flag {
                    g.removed_manually.insert(name);
                }
            }
        }
        let injected = { self.os.0.lock().unwrap().injected };
        if injected > 0 {
            self.faults_used += injected;
            self.os.0.lock().unwrap().injected = 0;
        }
        let _ = result_ok;
        let trig = if a.faults.is_empty() { "plain".to_string() } else { format!("fault:{:?}", a.faults.iter().map(|f| f.1).collect::<Vec<_>>()) };
        self.invariants(&after_name, &trig, fails);
    }
}

pub fn main(tier: Option<&str>) {
    let run = Run::new("C19", "model_checking", tier);
    run.rule(
        "BFS, replay mode: operations {add(count 1|2, ports none|single|range, the single port also requested as RPC port / metrics port), start, stop, remove(keep dirs y|n), upgrade(start y|n, force y|n), \
         process dies} on <=2 services through the real add_node / ServiceManager / NodeRegistry against a simulated OS; depth 5(6); fault \
         placements: none, and at most 1(2) injected failure(s) per history at call index 0..7 of an operation with an I/O error (thorough also pairs within one \
         operation); process-not-found and definition-removed-manually / does-not-exist answers arise from environment steps (process dies, \
         definition deleted by the user), never as injected lies. State key = registry (volatile fields dropped) + OS processes and definitions. The search is run twice: on the ServiceManager API directly, and \
         through the command layer (every start / stop / remove / upgrade preceded by the partial registry refresh of cmd/node.rs; quick: depth 4), and a third time with the failure allowed to hit the refresh's own look-ups (depth 4(5), one failure or one consecutive pair per history).",
    );
    run.assume("SimOs implements the public ServiceControl / RpcActions traits: definitions, processes keyed by binary path, fresh pids, free ports");
    run.assume("a process dying on its own is reality moving: the Running-means-live clause is not judged for a service whose process died on its own until the manager next changes that service's recorded status or PID");
    let depth = run.pick(5, 6);
    let max_faults = run.pick(1, 2);
    let pairs = !run.quick();
    bfs_replay(
        &run,
        BfsOpts { max_depth: depth, wall_cap: Some(Duration::from_secs(run.pick(45, 1500))), state_cap: None, label: format!("lifecycle/faults<={max_faults}") },
        || Sys::new(max_faults, pairs, false),
    );
    // the same search with every start / stop / remove / upgrade preceded by the partial registry refresh the antctl commands
    // perform (cmd/node.rs): what the refresh records is what the operation then trusts
    bfs_replay(
        &run,
        BfsOpts { max_depth: run.pick(4, 6), wall_cap: Some(Duration::from_secs(run.pick(45, 1500))), state_cap: None, label: format!("command-layer/faults<={max_faults}") },
        || Sys::new(max_faults, pairs, true),
    );
    // and a third time with the injected failure allowed to hit the refresh's own PID look-ups as well (one failure, or two
    // consecutive calls of one operation, per history in both tiers: a second, independent failure on top of a process
    // left behind by a failed start would only restate the recorded finding of the directly driven API)
    {
        bfs_replay(
            &run,
            BfsOpts { max_depth: run.pick(4, 5), wall_cap: Some(Duration::from_secs(run.pick(45, 1500))), state_cap: None, label: "command-layer+refresh-faults/faults<=1".to_string() },
            || {
                let mut s = Sys::new(1, false, true);
                s.refresh_faults = true;
                s
            },
        );
    }
    run.finish();
}
