//! Independent reference arithmetic: unbounded non-negative decimal numbers (digit vectors).
//! Deliberately boring and written from the property text, not from the code under test.

#[derive(Clone, Debug, PartialEq, Eq)]
pub struct Dec {
    /// little-endian base-10 digits, no trailing (most-significant) zeros; empty = 0
    d: Vec<u8>,
}

impl Dec {
    pub fn zero() -> Dec {
        Dec { d: vec![] }
    }
    pub fn from_u64(mut v: u64) -> Dec {
        let mut d = vec![];
        while v > 0 {
            d.push((v % 10) as u8);
            v /= 10;
        }
        Dec { d }
    }
    /// digits only, non-empty
    pub fn parse(s: &str) -> Option<Dec> {
        if s.is_empty() || !s.bytes().all(|b| b.is_ascii_digit()) {
            return None;
        }
        let mut d: Vec<u8> = s.bytes().rev().map(|b| b - b'0').collect();
        while d.last() == Some(&0) {
            d.pop();
        }
        Some(Dec { d })
    }
    pub fn to_string(&self) -> String {
        if self.d.is_empty() {
            return "0".into();
        }
        self.d.iter().rev().map(|x| (b'0' + x) as char).collect()
    }
    pub fn add(&self, o: &Dec) -> Dec {
        let mut d = vec![];
        let mut carry = 0u8;
        for i in 0..self.d.len().max(o.d.len()) {
            let s = self.d.get(i).copied().unwrap_or(0) + o.d.get(i).copied().unwrap_or(0) + carry;
            d.push(s % 10);
            carry = s / 10;
        }
        if carry > 0 {
            d.push(carry);
        }
        Dec { d }
    }
    /// self - o, None if negative
    pub fn sub(&self, o: &Dec) -> Option<Dec> {
        if self.cmp(o) == std::cmp::Ordering::Less {
            return None;
        }
        let mut d = vec![];
        let mut borrow = 0i8;
        for i in 0..self.d.len() {
            let mut s = self.d[i] as i8 - o.d.get(i).copied().unwrap_or(0) as i8 - borrow;
            if s < 0 {
                s += 10;
                borrow = 1;
            } else {
                borrow = 0;
            }
            d.push(s as u8);
        }
        while d.last() == Some(&0) {
            d.pop();
        }
        Some(Dec { d })
    }
    pub fn mul_pow10(&self, k: usize) -> Dec {
        if self.d.is_empty() {
            return Dec::zero();
        }
        let mut d = vec![0u8; k];
        d.extend_from_slice(&self.d);
        Dec { d }
    }
    pub fn mul_small(&self, m: u32) -> Dec {
        let mut d = vec![];
        let mut carry = 0u64;
        for x in &self.d {
            let s = *x as u64 * m as u64 + carry;
            d.push((s % 10) as u8);
            carry = s / 10;
        }
        while carry > 0 {
            d.push((carry % 10) as u8);
            carry /= 10;
        }
        while d.last() == Some(&0) {
            d.pop();
        }
        Dec { d }
    }
    pub fn cmp(&self, o: &Dec) -> std::cmp::Ordering {
        if self.d.len() != o.d.len() {
            return self.d.len().cmp(&o.d.len());
        }
        for i in (0..self.d.len()).rev() {
            if self.d[i] != o.d[i] {
                return self.d[i].cmp(&o.d[i]);
            }
        }
        std::cmp::Ordering::Equal
    }
    pub fn le(&self, o: &Dec) -> bool {
        self.cmp(o) != std::cmp::Ordering::Greater
    }
    /// 2^k
    pub fn pow2(k: u32) -> Dec {
        let mut v = Dec::from_u64(1);
        for _ in 0..k {
            v = v.mul_small(2);
        }
        v
    }
    /// 2^256 - 1
    pub fn u256_max() -> Dec {
        Dec::pow2(256).sub(&Dec::from_u64(1)).unwrap()
    }
    /// Split into (self / 10^k, self % 10^k as exactly k digits, most significant first)
    pub fn split_pow10(&self, k: usize) -> (Dec, String) {
        let mut lo: Vec<u8> = self.d.iter().take(k).copied().collect();
        while lo.len() < k {
            lo.push(0);
        }
        let hi: Vec<u8> = self.d.iter().skip(k).copied().collect();
        let frac: String = lo.iter().rev().map(|x| (b'0' + x) as char).collect();
        (Dec { d: hi }, frac)
    }
    /// Convert to four little-endian u64 limbs if < 2^256 (by repeated division by 2^32).
    pub fn to_limbs(&self) -> Option<[u64; 4]> {
        if !self.le(&Dec::u256_max()) {
            return None;
        }
        // big-endian digits, long division by 2^32
        let mut digits: Vec<u8> = self.d.iter().rev().copied().collect();
        let mut words: Vec<u32> = vec![];
        while !digits.is_empty() {
            let mut rem: u64 = 0;
            let mut q: Vec<u8> = Vec::with_capacity(digits.len());
            for dgt in &digits {
                let cur = rem * 10 + *dgt as u64;
                let qd = cur >> 32;
                rem = cur & 0xffff_ffff;
                if !(q.is_empty() && qd == 0) {
                    q.push(qd as u8);
                }
            }
            words.push(rem as u32);
            digits = q;
        }
        while words.len() < 8 {
            words.push(0);
        }
        let mut l = [0u64; 4];
        for i in 0..4 {
            l[i] = words[2 * i] as u64 | ((words[2 * i + 1] as u64) << 32);
        }
        Some(l)
    }
    pub fn from_limbs(l: [u64; 4]) -> Dec {
        // Horner over 32-bit words, most significant first
        let mut v = Dec::zero();
        for i in (0..4).rev() {
            for half in [(l[i] >> 32) as u32, l[i] as u32] {
                // v = v * 2^32 + half
                v = v.mul_small(65536).mul_small(65536).add(&Dec::from_u64(half as u64));
            }
        }
        v
    }
}

#[cfg(test)]
mod tests {
    use super::*;
    #[test]
    fn roundtrip() {
        let m = Dec::u256_max();
        assert_eq!(
            m.to_string(),
            "115792089237316195423570985008687907853269984665640564039457584007913129639935"
        );
        assert_eq!(m.to_limbs(), Some([u64::MAX; 4]));
        assert_eq!(Dec::from_limbs([u64::MAX; 4]), m);
        assert_eq!(Dec::pow2(256).to_limbs(), None);
        let x = Dec::parse("1000000000000000000").unwrap();
        assert_eq!(x.to_limbs(), Some([1_000_000_000_000_000_000, 0, 0, 0]));
        let (hi, lo) = Dec::parse("1234").unwrap().split_pow10(18);
        assert_eq!(hi, Dec::zero());
        assert_eq!(lo, "000000000000001234");
    }
}
