//! C17 — parsers of untrusted text and bytes never crash.
//! One table of (parser, enumerated input family); every call is wrapped in `catch` and the
//! harness is compiled with overflow checks, so a panic *or* an arithmetic overflow inside the
//! real parser is a violation. Where a formatter exists, parse(format(x)) == x is checked.
use crate::wallet::encryption::{decrypt_private_key, encrypt_private_key};
use ant_bootstrap::{BootstrapCacheConfig, BootstrapCacheStore};
use ant_node_manager::add_services::config::PortRange;
use ant_node_manager::helpers::increment_port_option;
use ant_protocol::storage::{
    try_deserialize_record, try_serialize_record, Chunk, RecordHeader, RecordKind, Scratchpad, ScratchpadAddress, Transaction,
};
use ant_registers::{RegisterAddress, SignedRegister};
use ant_service_management::NodeRegistry;
use autonomi::client::address::{addr_to_str, str_to_addr};
use autonomi::client::data::DataMapChunk;
use bytes::Bytes;
use libp2p::kad::{Record, RecordKey};
use mc_core::{catch, enumerate, Run};
use serde_json::json;
use std::str::FromStr;
use xor_name::XorName;

struct Ctx<'a> {
    run: &'a Run,
}

impl Ctx<'_> {
    /// Run one parser call; a panic is a violation of clause no-panic with the parser as trigger.
    fn call<T>(&self, parser: &str, input_desc: serde_json::Value, key: &[u8], nontrivial: bool, f: impl FnOnce() -> T) -> Option<T> {
        let mut k = parser.as_bytes().to_vec();
        k.push(0);
        k.extend_from_slice(key);
        self.run.case(&k, nontrivial);
        self.run.count(&format!("calls:{parser}"), 1);
        match catch(f) {
            Ok(v) => Some(v),
            Err(p) => {
                self.run.violation(
                    "no-panic",
                    parser,
                    format!("{parser} panicked on {input_desc}: {p}"),
                    json!({"parser": parser, "input": input_desc, "panic": p}),
                );
                None
            }
        }
    }
    fn roundtrip_fail(&self, parser: &str, what: String, input_desc: serde_json::Value) {
        self.run.violation("format-parse-roundtrip", parser, what, json!({"parser": parser, "input": input_desc}));
    }
}

/// Hex-shaped strings for a fixed-size decoder: every length 0..=max_len of a repeated
/// character from {0,f,g}; every truncation of a valid hex string; every single-character
/// substitution of it by 'g' and by 'F'; the valid string with one or two extra characters.
fn hex_family(valid: &str, max_len: usize, mut f: impl FnMut(&str)) {
    // multi-byte characters at every byte offset of a string of the valid byte length (and one byte longer / shorter):
    // byte length and character boundaries disagree exactly there
    for (ch, w) in [("\u{e9}", 2usize), ("\u{20ac}", 3), ("\u{1f600}", 4)] {
        for total in [valid.len().saturating_sub(1), valid.len(), valid.len() + 1] {
            if total < w {
                continue;
            }
            for at in 0..=(total - w) {
                let mut s = String::with_capacity(total);
                s.push_str(&valid.get(..at.min(valid.len())).unwrap_or(valid));
                while s.len() < at {
                    s.push('0');
                }
                s.push_str(ch);
                while s.len() < total {
                    s.push('a');
                }
                f(&s);
            }
        }
    }
    for c in ['0', 'f', 'g'] {
        for l in 0..=max_len {
            let s: String = std::iter::repeat(c).take(l).collect();
            f(&s);
        }
    }
    for l in 0..=valid.len() {
        f(&valid[..l]);
    }
    let bytes: Vec<char> = valid.chars().collect();
    for i in 0..bytes.len() {
        for sub in ['g', 'F', '0'] {
            if bytes[i] != sub {
                let mut b = bytes.clone();
                b[i] = sub;
                let s: String = b.into_iter().collect();
                f(&s);
            }
        }
    }
    f(&format!("{valid}0"));
    f(&format!("{valid}00"));
    f(&format!("0x{valid}"));
    f(&format!(" {valid}"));
    f("é");
    f("ééé");
    let mut multi = valid.to_string();
    if multi.len() > 4 {
        multi.replace_range(2..4, "é");
        f(&multi);
    }
}

/// Strings whose only non-ASCII character (2, 3 and 4 bytes wide) sits at every byte offset 0..=max_offset, preceded by a
/// filler and followed by 0, 1 or 40 more fillers: code that cuts text by *byte* position — to shorten it for an error
/// message, to split off a prefix — meets the inside of a character for one of them, wherever its cut-off is below `max_offset`.
fn multibyte_everywhere(fillers: &[char], max_offset: usize, mut f: impl FnMut(&str)) {
    for ch in ["\u{e9}", "\u{20ac}", "\u{1f600}"] {
        for &fill in fillers {
            for at in 0..=max_offset {
                for tail in [0usize, 1, 40] {
                    let mut s = String::with_capacity(at + 4 + tail);
                    s.extend(std::iter::repeat(fill).take(at));
                    s.push_str(ch);
                    s.extend(std::iter::repeat(fill).take(tail));
                    f(&s);
                }
            }
        }
    }
}

fn hex_parsers(cx: &Ctx) {
    let sk = rigs::fixtures::bls_sk(1);
    let pk = sk.public_key();
    // RegisterAddress
    let metas = [XorName([0u8; 32]), XorName([0xff; 32]), XorName::from_content(b"meta")];
    for m in metas {
        let addr = RegisterAddress::new(m, pk);
        let hx = addr.to_hex();
        let back = cx.call("RegisterAddress::from_hex", json!(hx), hx.as_bytes(), true, || RegisterAddress::from_hex(&hx));
        if let Some(b) = back {
            if b.as_ref().ok() != Some(&addr) {
                cx.roundtrip_fail("RegisterAddress::from_hex", format!("from_hex(to_hex(a)) = {b:?}"), json!(hx));
            }
        }
        let disp = format!("{addr}");
        if let Some(b) = cx.call("RegisterAddress::from_hex", json!(disp), disp.as_bytes(), true, || RegisterAddress::from_hex(&disp)) {
            if b.as_ref().ok() != Some(&addr) {
                cx.roundtrip_fail("RegisterAddress::from_hex", format!("from_hex(Display(a)) = {b:?}"), json!(disp));
            }
        }
    }
    let valid = RegisterAddress::new(metas[2], pk).to_hex();
    hex_family(&valid, valid.len() + 2, |s| {
        cx.call("RegisterAddress::from_hex", json!(s), s.as_bytes(), s.len() % 2 == 0, || RegisterAddress::from_hex(s).map(|_| ()));
    });
    // ScratchpadAddress
    let sa = ScratchpadAddress::new(pk);
    let hx = sa.to_hex();
    if let Some(b) = cx.call("ScratchpadAddress::from_hex", json!(hx), hx.as_bytes(), true, || ScratchpadAddress::from_hex(&hx)) {
        if b.as_ref().ok() != Some(&sa) {
            cx.roundtrip_fail("ScratchpadAddress::from_hex", format!("from_hex(to_hex(a)) = {b:?}"), json!(hx));
        }
    }
    hex_family(&hx, hx.len() + 2, |s| {
        cx.call("ScratchpadAddress::from_hex", json!(s), s.as_bytes(), s.len() % 2 == 0, || ScratchpadAddress::from_hex(s).map(|_| ()));
    });
    // formatting of addresses built from the hex must not crash either (Debug/Display slice the hex)
    cx.call("ScratchpadAddress::fmt", json!(hx), b"fmt", true, || format!("{sa} {sa:?}"));
    let ra = RegisterAddress::new(metas[0], pk);
    cx.call("RegisterAddress::fmt", json!(ra.to_hex()), b"fmt", true, || format!("{ra} {ra:?}"));
    // DataMapChunk
    for payload in [&b""[..], &b"\x00"[..], &b"some data map bytes"[..]] {
        let d = DataMapChunk::from(Chunk::new(Bytes::copy_from_slice(payload)));
        let hx = d.to_hex();
        if let Some(b) = cx.call("DataMapChunk::from_hex", json!(hx), hx.as_bytes(), true, || DataMapChunk::from_hex(&hx)) {
            match b {
                Ok(d2) if d2 == d => {}
                other => cx.roundtrip_fail("DataMapChunk::from_hex", format!("from_hex(to_hex(d)) = {:?}", other.map(|x| x.to_hex())), json!(hx)),
            }
        }
        cx.call("DataMapChunk::address", json!(hx), hx.as_bytes(), true, || d.address());
    }
    let valid = DataMapChunk::from(Chunk::new(Bytes::from_static(b"0123456789abcdef"))).to_hex();
    hex_family(&valid, 40, |s| {
        cx.call("DataMapChunk::from_hex", json!(s), s.as_bytes(), s.len() % 2 == 0, || DataMapChunk::from_hex(s).map(|_| ()));
    });
    // str_to_addr
    for x in [XorName([0u8; 32]), XorName([0xff; 32]), XorName::from_content(b"x")] {
        let s = addr_to_str(x);
        if let Some(b) = cx.call("str_to_addr", json!(s), s.as_bytes(), true, || str_to_addr(&s)) {
            if b.as_ref().ok() != Some(&x) {
                cx.roundtrip_fail("str_to_addr", format!("str_to_addr(addr_to_str(x)) = {b:?}"), json!(s));
            }
        }
    }
    let valid = addr_to_str(XorName::from_content(b"x"));
    hex_family(&valid, 70, |s| {
        cx.call("str_to_addr", json!(s), s.as_bytes(), s.len() % 2 == 0, || str_to_addr(s).map(|_| ()));
    });
    multibyte_everywhere(&['0', 'g'], 200, |s| {
        cx.call("RegisterAddress::from_hex", json!(s), s.as_bytes(), true, || RegisterAddress::from_hex(s).map(|_| ()));
        cx.call("ScratchpadAddress::from_hex", json!(s), s.as_bytes(), true, || ScratchpadAddress::from_hex(s).map(|_| ()));
        cx.call("DataMapChunk::from_hex", json!(s), s.as_bytes(), true, || DataMapChunk::from_hex(s).map(|_| ()));
        cx.call("str_to_addr", json!(s), s.as_bytes(), true, || str_to_addr(s).map(|_| ()));
    });
}

fn wallet_keys(cx: &Ctx) {
    // every hex length 0..=44 (0..=22 bytes): shorter than salt+nonce, never reaches PBKDF2 when rejected early
    for l in 0..=44usize {
        for c in ['0', 'a'] {
            let s: String = std::iter::repeat(c).take(l).collect();
            cx.call("decrypt_private_key", json!(s), s.as_bytes(), l % 2 == 0, || decrypt_private_key(&s, "pw").map(|_| ()));
        }
    }
    for s in ["zz", "0g", "é", " "] {
        cx.call("decrypt_private_key", json!(s), s.as_bytes(), false, || decrypt_private_key(s, "pw").map(|_| ()));
    }
    multibyte_everywhere(&['0', 'a'], 120, |s| {
        cx.call("decrypt_private_key", json!(s), s.as_bytes(), true, || decrypt_private_key(s, "pw").map(|_| ()));
    });
    // round trip and every truncation class of a real ciphertext (lengths around the salt/nonce/tag edges)
    let key = "0x4c0883a69102937d6231471b5dbb6204fe5129617082792ae468d01a3f362318";
    let enc = cx.call("encrypt_private_key", json!(key), key.as_bytes(), true, || encrypt_private_key(key, "password123"));
    if let Some(Ok(enc)) = enc {
        match cx.call("decrypt_private_key", json!("<encrypt(key)>"), b"rt", true, || decrypt_private_key(&enc, "password123")) {
            Some(Ok(k)) if k == key => {}
            Some(other) => cx.roundtrip_fail("decrypt_private_key", format!("decrypt(encrypt(k)) = {other:?}"), json!(key)),
            None => {}
        }
        for cut in [0usize, 2, 14, 16, 18, 38, 40, 42, 44, 70, 72, 74, enc.len() - 2, enc.len() - 1] {
            if cut <= enc.len() {
                let s = &enc[..cut];
                cx.call("decrypt_private_key", json!({"truncated_ciphertext_hex_len": cut}), format!("cut{cut}").as_bytes(), true, || {
                    decrypt_private_key(s, "password123").map(|_| ())
                });
            }
        }
    }
    // an authentic ciphertext (same scheme: PBKDF2-HMAC-SHA512, 100k, ChaCha20-Poly1305, empty AAD)
    // whose plaintext is not UTF-8
    for plain in [&b"\xff\xfe\xfd"[..], &b"ok"[..], &b""[..]] {
        let crafted = crate::wallet::craft(plain, "pw");
        cx.call(
            "decrypt_private_key",
            json!({"authentic_ciphertext_of_bytes": hex::encode(plain), "password": "pw"}),
            format!("crafted{}", hex::encode(plain)).as_bytes(),
            true,
            || decrypt_private_key(&crafted, "pw").map(|_| ()),
        );
    }
}

fn ports(cx: &Ctx, thorough: bool) {
    let toks = ["0", "1", "2", "65534", "65535", "65536", "-1", "", " ", "a", "+1", "00001", "99999999999999999999"];
    let mut inputs: Vec<String> = toks.iter().map(|s| s.to_string()).collect();
    for a in toks {
        for b in toks {
            inputs.push(format!("{a}-{b}"));
            if thorough {
                for c in ["0", "65535", ""] {
                    inputs.push(format!("{a}-{b}-{c}"));
                }
            }
        }
    }
    // long and non-ASCII text (the parser is clap's value parser for three options: it sees whatever the user typed)
    for l in [31usize, 32, 33, 63, 64, 65, 255, 256, 257, 1000] {
        for c in ['1', '-', 'a', ' '] {
            inputs.push(std::iter::repeat(c).take(l).collect());
        }
    }
    multibyte_everywhere(&['1', '-', 'a'], if thorough { 600 } else { 200 }, |s| inputs.push(s.to_string()));
    for at in 0..=80usize {
        // exactly one '-' as well: the range branch
        inputs.push(format!("{}-{}\u{e9}", "1".repeat(at), "1".repeat(at)));
        inputs.push(format!("{}\u{e9}-1", "1".repeat(at)));
    }
    let counts: Vec<u16> = vec![0, 1, 2, 3, 65534, 65535];
    for s in &inputs {
        let r = cx.call("PortRange::parse", json!(s), s.as_bytes(), true, || PortRange::parse(s));
        if let Some(Ok(pr)) = r {
            for c in &counts {
                cx.call("PortRange::validate", json!({"range": s, "count": c}), format!("{s}#{c}").as_bytes(), true, || pr.validate(*c).is_ok());
            }
        }
    }
    // explicit ranges, all boundary pairs
    let edge: [u16; 6] = [0, 1, 2, 65533, 65534, 65535];
    for a in edge {
        for b in edge {
            if a < b {
                let pr = PortRange::Range(a, b);
                for c in &counts {
                    let r = cx.call("PortRange::validate", json!({"range": [a, b], "count": c}), format!("r{a}-{b}#{c}").as_bytes(), true, || pr.validate(*c).is_ok());
                    // reference: count must equal the true number of ports, computed in u32
                    if let Some(ok) = r {
                        let truth = (b as u32 - a as u32 + 1) == *c as u32;
                        if ok != truth {
                            cx.run.violation(
                                "port-count",
                                "PortRange::validate",
                                format!("Range({a},{b}).validate({c}) = {ok}, the range holds {} ports", b as u32 - a as u32 + 1),
                                json!({"parser":"PortRange::validate","input":{"range":[a,b],"count":c}}),
                            );
                        }
                    }
                }
            }
        }
    }
    cx.call("increment_port_option", json!(null), b"none", true, || increment_port_option(None));
    for p in 0..=u16::MAX {
        let r = cx.call("increment_port_option", json!(p), &p.to_be_bytes(), true, || increment_port_option(Some(p)));
        if let Some(r) = r {
            let want = if p == u16::MAX { None } else { Some(p + 1) };
            // for 65535 there is no next port: any non-wrapping answer is fine
            if p != u16::MAX && r != want {
                cx.run.violation("port-count", "increment_port_option", format!("increment({p}) = {r:?}"), json!({"parser":"increment_port_option","input":p}));
            }
            if p == u16::MAX && r == Some(0) {
                cx.run.violation("port-count", "increment_port_option", "increment(65535) wrapped to 0".into(), json!({"parser":"increment_port_option","input":p}));
            }
        }
    }
}

fn amounts(cx: &Ctx) {
    enumerate::strings("09._x-+ e", 4, |s| {
        cx.call("AttoTokens::from_str", json!(s), s.as_bytes(), s.bytes().all(|b| b.is_ascii_digit() || b == b'.'), || {
            ant_evm::AttoTokens::from_str(s).map(|_| ())
        });
    });
    enumerate::strings("019.", 5, |s| {
        if s.bytes().filter(|b| *b == b'.').count() <= 1 && s.bytes().next().map(|b| b.is_ascii_digit()).unwrap_or(false) {
            amount_prints_what_was_parsed(cx, s);
        }
    });
    amount_range_edge(cx);
    // fractions of every length 1..=600 (a digit count that wraps at 256 must not turn "too many digits" into a value)
    for fl in 1..=600usize {
        for units in ["0", "1"] {
            amount_prints_what_was_parsed(cx, &format!("{units}.{}5", "0".repeat(fl - 1)));
            amount_prints_what_was_parsed(cx, &format!("{units}.{}", "9".repeat(fl)));
        }
    }
    multibyte_everywhere(&['1', '.', 'a'], 200, |s| {
        cx.call("AttoTokens::from_str", json!(s), s.as_bytes(), true, || ant_evm::AttoTokens::from_str(s).map(|_| ()));
        let t = format!("1.{s}");
        cx.call("AttoTokens::from_str", json!(t), t.as_bytes(), true, || ant_evm::AttoTokens::from_str(&t).map(|_| ()));
    });
    for l in [77usize, 78, 79, 100, 1000] {
        let s: String = std::iter::repeat('9').take(l).collect();
        cx.call("AttoTokens::from_str", json!({"nines": l}), s.as_bytes(), true, || ant_evm::AttoTokens::from_str(&s).map(|_| ()));
        let t = format!("1.{s}");
        cx.call("AttoTokens::from_str", json!({"one_point_nines": l}), t.as_bytes(), true, || ant_evm::AttoTokens::from_str(&t).map(|_| ()));
    }
}

/// An accepted amount must print back as the number that was written (no formatter-independent reference needed:
/// compare normalised digit strings). This is how a *silent* overflow — wrapping instead of panicking — shows.
fn amount_prints_what_was_parsed(cx: &Ctx, s: &str) {
    let r = cx.call("AttoTokens::from_str", json!(s), s.as_bytes(), true, || ant_evm::AttoTokens::from_str(s).map(|v| v.to_string()));
    if let Some(Ok(printed)) = r {
        let norm = |t: &str| -> String {
            let (i, f) = t.split_once('.').unwrap_or((t, ""));
            let i = i.trim_start_matches('0');
            let mut f = f.trim_end_matches('0').to_string();
            while f.len() < 18 {
                f.push('0');
            }
            format!("{}.{f}", if i.is_empty() { "0" } else { i })
        };
        if norm(s) != norm(&printed) {
            cx.run.violation("no-silent-overflow", "AttoTokens::from_str", format!("from_str({s:?}) was accepted but prints as {printed}: the value wrapped or was mangled"), json!({"parser": "AttoTokens::from_str", "input": s, "printed": printed}));
        }
    }
}

fn amount_range_edge(cx: &Ctx) {
    // around the largest representable amount: whole part floor(MAX/10^18) -1/0/+1 x fractions around MAX's own
    let (units, frac) = crate::refnum::Dec::u256_max().split_pow10(18);
    let one = crate::refnum::Dec::from_u64(1);
    let us = [units.sub(&one).unwrap().to_string(), units.to_string(), units.add(&one).to_string()];
    let f: u64 = frac.parse().unwrap();
    let mut fracs: Vec<String> = vec![String::new(), "0".into(), "9".into(), "999999999999999999".into(), "000000000000000001".into()];
    for d in [-2i64, -1, 0, 1, 2, 1000] {
        fracs.push(format!("{:018}", (f as i64 + d) as u64));
    }
    for u in &us {
        amount_prints_what_was_parsed(cx, u);
        for fr in &fracs {
            amount_prints_what_was_parsed(cx, &format!("{u}.{fr}"));
        }
    }
    for k in [76usize, 77, 78] {
        // 10^k and 10^k - 1 as whole-token strings, with and without a fraction
        let p = format!("1{}", "0".repeat(k));
        let n = "9".repeat(k);
        for t in [p.clone(), n.clone(), format!("{p}.5"), format!("{n}.999999999999999999")] {
            amount_prints_what_was_parsed(cx, &t);
        }
    }
}

fn multiaddrs(cx: &Ctx, thorough: bool) {
    let pid = rigs::fixtures::peer_id(1).to_string();
    let toks: Vec<String> = vec![
        "/ip4/1.2.3.4".into(),
        "/ip6/::1".into(),
        "/udp/1200".into(),
        "/tcp/1300".into(),
        "/quic-v1".into(),
        "/ws".into(),
        format!("/p2p/{pid}"),
        "/p2p-circuit".into(),
        "/garbage".into(),
        "/ip4/999.1.1.1".into(),
        "/udp/65536".into(),
        "/p2p/notapeer".into(),
    ];
    let n = if thorough { 5 } else { 4 };
    enumerate::sequences(&toks, n, |seq| {
        let s: String = seq.concat();
        for ignore in [false, true] {
            let r = cx.call("craft_valid_multiaddr_from_str", json!({"addr": s, "ignore_peer_id": ignore}), format!("{s}#{ignore}").as_bytes(), true, || {
                ant_bootstrap::craft_valid_multiaddr_from_str(&s, ignore)
            });
            if let Some(Some(out)) = r {
                // formatter exists: the crafted address printed and crafted again is a fixpoint
                let printed = out.to_string();
                let again = ant_bootstrap::craft_valid_multiaddr_from_str(&printed, ignore);
                if again.as_ref() != Some(&out) {
                    cx.roundtrip_fail("craft_valid_multiaddr_from_str", format!("craft(print(craft({s}))) = {again:?}, first = {out}"), json!(s));
                }
            }
        }
    });
    multibyte_everywhere(&['/', 'a', '1'], 200, |s| {
        cx.call("craft_valid_multiaddr_from_str", json!(s), s.as_bytes(), true, || ant_bootstrap::craft_valid_multiaddr_from_str(s, false));
        let t = format!("/ip4/1.2.3.4/udp/1200/quic-v1/p2p/{s}");
        cx.call("craft_valid_multiaddr_from_str", json!(t), t.as_bytes(), true, || ant_bootstrap::craft_valid_multiaddr_from_str(&t, false));
    });
    for s in ["", "/", "//", "ip4/1.2.3.4", "/ip4", "/ip4/", "\u{0}", "/ip4/1.2.3.4/udp/", "/dns/example.com/udp/1/quic-v1"] {
        cx.call("craft_valid_multiaddr_from_str", json!(s), s.as_bytes(), true, || ant_bootstrap::craft_valid_multiaddr_from_str(s, false));
    }
}

// ---- JSON files -------------------------------------------------------------------------------

#[derive(Clone, Debug, PartialEq)]
enum Tok {
    Str(String),
    Num(String),
    Lit(String),
    Punct(char),
    Ws(String),
}

fn tokenize(s: &str) -> Vec<Tok> {
    let cs: Vec<char> = s.chars().collect();
    let mut i = 0;
    let mut out = vec![];
    while i < cs.len() {
        let c = cs[i];
        if c == '"' {
            let mut j = i + 1;
            while j < cs.len() && cs[j] != '"' {
                if cs[j] == '\\' {
                    j += 1;
                }
                j += 1;
            }
            out.push(Tok::Str(cs[i..=j.min(cs.len() - 1)].iter().collect()));
            i = j + 1;
        } else if c.is_ascii_digit() || c == '-' {
            let mut j = i;
            while j < cs.len() && (cs[j].is_ascii_digit() || "-+.eE".contains(cs[j])) {
                j += 1;
            }
            out.push(Tok::Num(cs[i..j].iter().collect()));
            i = j;
        } else if c.is_ascii_alphabetic() {
            let mut j = i;
            while j < cs.len() && cs[j].is_ascii_alphabetic() {
                j += 1;
            }
            out.push(Tok::Lit(cs[i..j].iter().collect()));
            i = j;
        } else if c.is_whitespace() {
            let mut j = i;
            while j < cs.len() && cs[j].is_whitespace() {
                j += 1;
            }
            out.push(Tok::Ws(cs[i..j].iter().collect()));
            i = j;
        } else {
            out.push(Tok::Punct(c));
            i += 1;
        }
    }
    out
}

fn render(t: &[Tok]) -> String {
    let mut s = String::new();
    for x in t {
        match x {
            Tok::Str(a) | Tok::Num(a) | Tok::Lit(a) | Tok::Ws(a) => s.push_str(a),
            Tok::Punct(c) => s.push(*c),
        }
    }
    s
}

/// Every truncation (at token granularity when `coarse`, else every byte) and every structural
/// single-token mutation of a JSON text.
fn json_mutations(text: &str, byte_truncations: bool, mut f: impl FnMut(&str, String)) {
    let toks = tokenize(text);
    if byte_truncations {
        for l in 0..text.len() {
            if text.is_char_boundary(l) {
                f(&text[..l], format!("truncate@{l}"));
            }
        }
    } else {
        for l in 0..toks.len() {
            f(&render(&toks[..l]), format!("truncate-token@{l}"));
        }
    }
    let num_alts = [
        "0", "1", "-1", "255", "256", "65535", "65536", "4294967295", "4294967296", "999999999", "1000000000",
        "18446744073709551615", "18446744073709551616", "9223372036854775807", "1e400", "1.5", "-0",
    ];
    let str_alts = ["\"\"", "\"x\"", "null", "0", "[]", "{}", "\"/ip4/1.2.3.4\"", "\"\\u0000\""];
    for i in 0..toks.len() {
        let alts: Vec<String> = match &toks[i] {
            Tok::Num(_) => num_alts.iter().map(|s| s.to_string()).collect(),
            Tok::Str(_) => str_alts.iter().map(|s| s.to_string()).collect(),
            Tok::Lit(l) => ["true", "false", "null", "0", "\"x\""].iter().filter(|a| *a != l).map(|s| s.to_string()).collect(),
            Tok::Punct(_) => vec!["".to_string(), ",".to_string(), "[".to_string(), "}".to_string()],
            Tok::Ws(_) => vec![],
        };
        for a in alts {
            let mut t = toks.clone();
            t[i] = Tok::Lit(a.clone());
            if t != toks {
                f(&render(&t), format!("token{i}:={a}"));
            }
        }
    }
}

fn cache_seed(dir: &std::path::Path) -> (BootstrapCacheConfig, String) {
    let path = dir.join("seed_cache.json");
    let cfg = BootstrapCacheConfig::empty().with_cache_path(&path).with_max_peers(2).with_addrs_per_peer(1);
    let big = BootstrapCacheConfig::empty().with_cache_path(&path);
    let mut store = BootstrapCacheStore::new(big).expect("store");
    let p1 = rigs::fixtures::peer_id(1);
    let p2 = rigs::fixtures::peer_id(2);
    for a in [
        format!("/ip4/10.0.0.1/udp/1200/quic-v1/p2p/{p1}"),
        format!("/ip4/10.0.0.2/tcp/1300/ws/p2p/{p1}"),
        format!("/ip4/10.0.0.3/udp/1400/quic-v1/p2p/{p2}"),
    ] {
        let a: libp2p::Multiaddr = a.parse().expect("addr");
        store.add_addr(a.clone());
        // success 2, failure 1 on every address, so that single-token mutations of one counter
        // to an extreme meet a non-zero other counter
        store.update_addr_status(&a, true);
        store.update_addr_status(&a, false);
    }
    store.write().expect("write seed cache");
    let text = std::fs::read_to_string(&path).expect("read seed");
    (cfg, text)
}

fn cache_files(cx: &Ctx, thorough: bool) {
    let dir = mc_core::scratch_root().join("c17-cache");
    std::fs::create_dir_all(&dir).unwrap();
    let (cfg_small, text) = cache_seed(&dir);
    let file = dir.join("mut_cache.json");
    let cfgs = [
        cfg_small.clone().with_cache_path(&file),
        BootstrapCacheConfig::empty().with_cache_path(&file),
        BootstrapCacheConfig::empty().with_cache_path(&file).with_max_peers(0).with_addrs_per_peer(0),
    ];
    // the unmutated file must load (otherwise the sweep is vacuous)
    std::fs::write(&file, &text).unwrap();
    match catch(|| BootstrapCacheStore::load_cache_data(&cfgs[1])) {
        Ok(Ok(d)) if d.peers.len() == 2 => {}
        other => cx.run.machinery_error(&format!("seed cache does not load: {:?}", other.map(|r| r.map(|d| d.peers.len())))),
    }
    let mut loaded_ok = 0u64;
    json_mutations(&text, thorough, |m, how| {
        std::fs::write(&file, m).unwrap();
        for (ci, cfg) in cfgs.iter().enumerate() {
            let r = cx.call("load_cache_data", json!({"mutation": how, "cfg": ci}), format!("{how}#{ci}").as_bytes(), true, || {
                BootstrapCacheStore::load_cache_data(cfg).map(|d| {
                    // the loaded data is then used: exercise the read paths a node takes
                    let mut st = BootstrapCacheStore::new(cfg.clone()).expect("store");
                    for (_, addrs) in d.peers.iter() {
                        for a in addrs.0.iter() {
                            st.add_addr(a.addr.clone());
                        }
                    }
                    d.peers.len()
                })
            });
            if let Some(Ok(_)) = r {
                loaded_ok += 1;
            }
        }
        // a store created over the corrupt file must be able to flush over it
        let cfg = &cfgs[1];
        cx.call("sync_and_flush_to_disk(over corrupt file)", json!({"mutation": how}), format!("flush:{how}").as_bytes(), true, || {
            let mut st = BootstrapCacheStore::new(cfg.clone()).expect("store");
            st.add_addr(format!("/ip4/10.9.9.9/udp/1/quic-v1/p2p/{}", rigs::fixtures::peer_id(3)).parse().unwrap());
            let _ = st.sync_and_flush_to_disk(true);
            let n = st.get_sorted_addrs().count();
            n
        });
    });
    cx.run.extra("cache_mutants_loaded_ok", json!(loaded_ok));
    // non-UTF-8 and foreign shapes
    let foreign: Vec<Vec<u8>> = vec![
        vec![],
        vec![0xff, 0xfe],
        b"[]".to_vec(),
        b"{}".to_vec(),
        b"null".to_vec(),
        b"{\"peers\":{},\"last_updated\":{\"secs_since_epoch\":0,\"nanos_since_epoch\":0},\"network_version\":\"\"}".to_vec(),
        b"{\"peers\":[],\"last_updated\":0,\"network_version\":1}".to_vec(),
        b"{\"nodes\":[]}".to_vec(),
    ];
    let mut foreign = foreign;
    // text that is no cache file, one multi-byte character starting at every byte offset 0..=600
    for k in 0..=600usize {
        let mut t = "x".repeat(k);
        t.push_str(if k % 2 == 0 { "\u{e9}" } else { "\u{20ac}" });
        t.push_str(&"y".repeat(700 - k));
        foreign.push(t.into_bytes());
    }
    for (i, bytes) in foreign.iter().enumerate() {
        std::fs::write(&file, bytes).unwrap();
        cx.call("load_cache_data", json!({"foreign_file": i}), format!("foreign{i}").as_bytes(), true, || {
            BootstrapCacheStore::load_cache_data(&cfgs[1]).map(|d| d.peers.len())
        });
    }
    let _ = std::fs::remove_dir_all(&dir);
}

fn registry_seed() -> String {
    use ant_service_management::{NodeServiceData, ServiceStatus};
    let node = NodeServiceData {
        antnode_path: "/var/antctl/services/antnode1/antnode".into(),
        auto_restart: false,
        connected_peers: Some(vec![rigs::fixtures::peer_id(2)]),
        data_dir_path: "/var/antctl/services/antnode1".into(),
        evm_network: ant_evm::EvmNetwork::ArbitrumOne,
        home_network: false,
        listen_addr: Some(vec!["/ip4/127.0.0.1/udp/1234/quic-v1".parse().unwrap()]),
        log_dir_path: "/var/log/antnode/antnode1".into(),
        log_format: None,
        max_archived_log_files: Some(3),
        max_log_files: None,
        metrics_port: Some(9000),
        owner: Some("owner".into()),
        network_id: Some(7),
        node_ip: Some("10.0.0.1".parse().unwrap()),
        node_port: Some(12000),
        number: 1,
        peer_id: Some(rigs::fixtures::peer_id(1)),
        peers_args: ant_bootstrap::PeersArgs {
            first: false,
            addrs: vec![format!("/ip4/10.0.0.9/udp/1/quic-v1/p2p/{}", rigs::fixtures::peer_id(3)).parse().unwrap()],
            network_contacts_url: vec!["http://localhost/contacts".into()],
            local: false,
            disable_mainnet_contacts: true,
            ignore_cache: false,
            bootstrap_cache_dir: Some("/tmp/cache".into()),
        },
        pid: Some(1000),
        rewards_address: Default::default(),
        reward_balance: Some(ant_evm::AttoTokens::from_u64(5)),
        rpc_socket_addr: "127.0.0.1:8081".parse().unwrap(),
        service_name: "antnode1".into(),
        status: ServiceStatus::Running,
        upnp: false,
        user: Some("ant".into()),
        user_mode: false,
        version: "0.1.0".into(),
    };
    let reg = NodeRegistry {
        auditor: None,
        daemon: None,
        environment_variables: Some(vec![("K".into(), "V".into())]),
        faucet: None,
        nat_status: Some(ant_service_management::NatDetectionStatus::Public),
        nodes: vec![node],
        save_path: "/tmp/registry.json".into(),
    };
    serde_json::to_string(&reg).expect("registry serialises")
}

fn registry_files(cx: &Ctx, thorough: bool) {
    let text = registry_seed();
    match catch(|| NodeRegistry::from_json(&text)) {
        Ok(Ok(r)) if r.nodes.len() == 1 => {
            // formatter exists: save(load(x)) == x at the JSON level
            let again = serde_json::to_string(&r).unwrap();
            if again != text {
                cx.roundtrip_fail("NodeRegistry::from_json", "to_json(from_json(j)) != j".into(), json!("registry seed"));
            }
        }
        other => cx.run.machinery_error(&format!("seed registry does not load: {:?}", other.map(|r| r.map(|d| d.nodes.len())))),
    }
    let dir = mc_core::scratch_root().join("c17-reg");
    std::fs::create_dir_all(&dir).unwrap();
    let file = dir.join("reg.json");
    json_mutations(&text, thorough, |m, how| {
        cx.call("NodeRegistry::from_json", json!({"mutation": how}), how.as_bytes(), true, || NodeRegistry::from_json(m).map(|r| r.nodes.len()));
        std::fs::write(&file, m).unwrap();
        cx.call("NodeRegistry::load", json!({"mutation": how}), format!("load:{how}").as_bytes(), true, || {
            NodeRegistry::load(&file).map(|r| {
                let _ = r.to_status_summary();
                r.nodes.len()
            })
        });
    });
    for (i, bytes) in [vec![], vec![0xffu8, 0xfe], b"[]".to_vec(), b"{}".to_vec(), b"null".to_vec(), b" ".to_vec()].iter().enumerate() {
        std::fs::write(&file, bytes).unwrap();
        cx.call("NodeRegistry::load", json!({"foreign_file": i}), format!("foreign{i}").as_bytes(), true, || NodeRegistry::load(&file).map(|r| r.nodes.len()));
    }
    cx.call("NodeRegistry::load", json!("missing file"), b"missing", true, || NodeRegistry::load(&dir.join("absent.json")).map(|r| r.nodes.len()));
    let _ = std::fs::remove_dir_all(&dir);
}

fn record_bytes(cx: &Ctx, thorough: bool) {
    let key = std::cell::RefCell::new(RecordKey::new(&[1u8; 32]));
    let rec = |v: &[u8]| Record { key: key.borrow().clone(), value: v.to_vec(), publisher: None, expires: None };
    let decode_all = |cx: &Ctx, v: &[u8], how: String| {
        let r = rec(v);
        // (the key is part of the case identity: the same bytes under keys of other lengths are other cases)
        let v = &[&(r.key.as_ref().len() as u32).to_be_bytes()[..], v].concat()[..];
        cx.call("RecordHeader::from_record", json!(how), &[b"h", v].concat(), true, || RecordHeader::from_record(&r).map(|h| h.kind));
        cx.call("RecordHeader::is_record_of_type_chunk", json!(how), &[b"i", v].concat(), true, || RecordHeader::is_record_of_type_chunk(&r));
        cx.call("try_deserialize_record<Chunk>", json!(how), &[b"c", v].concat(), true, || try_deserialize_record::<Chunk>(&r).map(|_| ()));
        cx.call("try_deserialize_record<Scratchpad>", json!(how), &[b"s", v].concat(), true, || try_deserialize_record::<Scratchpad>(&r).map(|_| ()));
        cx.call("try_deserialize_record<Vec<Transaction>>", json!(how), &[b"t", v].concat(), true, || try_deserialize_record::<Vec<Transaction>>(&r).map(|_| ()));
        cx.call("try_deserialize_record<SignedRegister>", json!(how), &[b"r", v].concat(), true, || try_deserialize_record::<SignedRegister>(&r).map(|_| ()));
        cx.call("try_deserialize_record<(ProofOfPayment,Chunk)>", json!(how), &[b"p", v].concat(), true, || {
            try_deserialize_record::<(ant_evm::ProofOfPayment, Chunk)>(&r).map(|_| ())
        });
    };
    // all byte strings of length <= 2 (quick) / <= 3 over all 256 values is 16M x 7 decoders: use the
    // full byte range for length <= 2 and a 24-value boundary alphabet for length 3 (and 4 in thorough)
    let mut buf = vec![];
    decode_all(cx, &buf, "bytes:[]".into());
    for a in 0..=255u8 {
        buf = vec![a];
        decode_all(cx, &buf, format!("bytes:{buf:?}"));
    }
    if thorough {
        for a in 0..=255u8 {
            for b in 0..=255u8 {
                buf = vec![a, b];
                decode_all(cx, &buf, format!("bytes:{buf:?}"));
            }
        }
    }
    let alpha: Vec<u8> = vec![0x00, 0x01, 0x07, 0x08, 0x7f, 0x80, 0x90, 0x91, 0x92, 0x93, 0x9f, 0xa0, 0xc0, 0xc4, 0xc6, 0xcc, 0xce, 0xcf, 0xd9, 0xdc, 0xdd, 0xde, 0xdf, 0xff];
    let n = if thorough { 4 } else { 3 };
    enumerate::sequences(&alpha, n, |s| {
        if s.len() >= 2 {
            decode_all(cx, s, format!("bytes:{s:?}"));
        }
    });
    // truncations and single-byte substitutions of real encodings
    let sk = rigs::fixtures::bls_sk(1);
    let chunk = Chunk::new(Bytes::from_static(b"hello chunk"));
    let pad = rigs::fixtures::ScratchpadMirror::build(sk.public_key(), 3, b"pad-bytes", Some(&sk));
    let tx = Transaction::new(sk.public_key(), vec![rigs::fixtures::bls_sk(2).public_key()], [7u8; 32], vec![(rigs::fixtures::bls_sk(3).public_key(), [9u8; 32])], &sk);
    let encs: Vec<(&str, Vec<u8>)> = vec![
        ("chunk", try_serialize_record(&chunk, RecordKind::Chunk).unwrap().to_vec()),
        ("scratchpad", try_serialize_record(&pad, RecordKind::Scratchpad).unwrap().to_vec()),
        ("transactions", try_serialize_record(&vec![tx], RecordKind::Transaction).unwrap().to_vec()),
    ];
    let subs: Vec<u8> = if thorough { vec![0x00, 0x7f, 0x80, 0x90, 0x91, 0xc0, 0xc4, 0xc6, 0xdc, 0xdd, 0xdf, 0xff] } else { vec![0x00, 0x91, 0xc6, 0xdd, 0xff] };
    for (name, e) in &encs {
        enumerate::byte_mutations(e, &subs, |m| {
            decode_all(cx, m, format!("mutation of {name} encoding, len {}", m.len()));
        });
    }
    // a record arriving from the network carries whatever key its sender chose: keys of every length 0..=40 (and 64, 255,
    // 1000 bytes) x bodies that decode, that fail in the header, and that fail behind a valid header
    let chunk_enc = encs[0].1.clone();
    let bodies: Vec<(&str, Vec<u8>)> = vec![
        ("empty", vec![]),
        ("one byte", vec![0x91]),
        ("header only", vec![0x91, 0x01]),
        ("valid header, truncated body", vec![0x91, 0x01, 0xc6, 0xff]),
        ("unknown kind", vec![0x91, 0x7f, 0x00]),
        ("garbage", vec![0xff; 8]),
        ("a valid chunk encoding", chunk_enc),
    ];
    for klen in (0..=40usize).chain([64, 255, 1000]) {
        for fill in [0x00u8, 0xab] {
            *key.borrow_mut() = RecordKey::new(&vec![fill; klen]);
            for (bname, body) in &bodies {
                decode_all(cx, body, format!("{bname} under a {klen}-byte key of {fill:#04x}"));
            }
        }
    }
    *key.borrow_mut() = RecordKey::new(&[1u8; 32]);
    // huge declared lengths with nothing behind them (allocation bombs must be errors, not aborts)
    for hdr in [[0x91u8, 0x01], [0x91, 0x05], [0x91, 0x02]] {
        for tail in [&[0xc6u8, 0xff, 0xff, 0xff, 0xff][..], &[0xdd, 0xff, 0xff, 0xff, 0xff][..], &[0xdf, 0xff, 0xff, 0xff, 0xff][..], &[0xdb, 0xff, 0xff, 0xff, 0xff][..]] {
            let v = [&hdr[..], tail].concat();
            decode_all(cx, &v, format!("declared-length bomb {v:?}"));
        }
    }
}

/// Stored text and bytes a node parses at every start: the names and contents of the files in its record directory.
/// Needs the store rig, so it runs in the vcheck-node binary (chk-node/src/c17s.rs) as a subprocess; its cases and
/// violations are re-reported here.
fn store_layer(run: &Run) {
    let exe = run.root.join("harness/target/verif/vcheck-node");
    if !exe.exists() {
        run.machinery_error("harness/target/verif/vcheck-node is missing: bin/check C17 builds it");
    }
    let out = match std::process::Command::new(&exe).arg("C17-store").arg(if run.quick() { "quick" } else { "thorough" }).env("VERIF_ROOT", &run.root).output() {
        Ok(o) => o,
        Err(e) => run.machinery_error(&format!("cannot run the record-store layer: {e}")),
    };
    let text = String::from_utf8_lossy(&out.stdout).to_string();
    let summary = text.lines().find_map(|l| l.strip_prefix("C17S-SUMMARY ")).and_then(|j| serde_json::from_str::<serde_json::Value>(j).ok());
    let Some(summary) = summary else {
        run.machinery_error(&format!("the record-store layer produced no summary (exit {:?}): {}", out.status.code(), String::from_utf8_lossy(&out.stderr).chars().take(400).collect::<String>()));
    };
    let n = summary["cases"].as_u64().unwrap_or(0);
    if n == 0 {
        run.machinery_error("the record-store layer explored nothing");
    }
    for i in 0..n {
        run.case(format!("record-store layer case {i}").as_bytes(), true);
    }
    let mut brief = summary.clone();
    brief.as_object_mut().map(|m| m.remove("violations"));
    run.extra("record_store_layer", brief);
    let n_child = summary["violations"].as_array().map(|a| a.len()).unwrap_or(0);
    if !matches!(out.status.code(), Some(0) | Some(1)) || (out.status.code() == Some(1)) != (n_child > 0) {
        run.machinery_error(&format!("the record-store layer's exit status {:?} does not agree with the {n_child} violation(s) it reported", out.status.code()));
    }
    for v in summary["violations"].as_array().cloned().unwrap_or_default() {
        run.violation(
            v["clause"].as_str().unwrap_or("no-panic"),
            v["trigger"].as_str().unwrap_or("?"),
            format!("record-store layer: {}", v["what"].as_str().unwrap_or("")),
            serde_json::json!({"engine": "record-store layer (vcheck-node C17-store)", "witness": v["witness"]}),
        );
    }
}


// ---- the contacts endpoint: untrusted text over HTTP ------------------------------------------

/// `ContactsFetcher` downloads a contacts list — a cache file in JSON or one multiaddress per line — from an URL the
/// operator names (or the built-in ones) and parses whatever comes back. The harness is the web server: a loopback
/// listener answering every request with status 200 and the body under test.
fn contacts_endpoint(cx: &Ctx, thorough: bool) {
    use std::io::{Read, Write};
    let listener = std::net::TcpListener::bind("127.0.0.1:0").expect("loopback listener");
    let port = listener.local_addr().unwrap().port();
    let body: std::sync::Arc<std::sync::Mutex<Vec<u8>>> = Default::default();
    let b2 = body.clone();
    std::thread::spawn(move || {
        for conn in listener.incoming() {
            let Ok(mut c) = conn else { continue };
            let mut req = Vec::new();
            let mut buf = [0u8; 1024];
            while !req.windows(4).any(|w| w == b"\r\n\r\n") {
                match c.read(&mut buf) {
                    Ok(0) | Err(_) => break,
                    Ok(n) => req.extend_from_slice(&buf[..n]),
                }
            }
            let b = b2.lock().unwrap().clone();
            let _ = c.write_all(format!("HTTP/1.1 200 OK\r\nContent-Type: text/plain\r\nContent-Length: {}\r\nConnection: close\r\n\r\n", b.len()).as_bytes());
            let _ = c.write_all(&b);
        }
    });
    let rt = tokio::runtime::Builder::new_current_thread().enable_all().build().unwrap();
    let url: url::Url = format!("http://127.0.0.1:{port}/contacts").parse().unwrap();
    let fetch = |cx: &Ctx, what: serde_json::Value, key: &[u8], bytes: &[u8], ignore_peer_id: bool| -> Option<Vec<String>> {
        *body.lock().unwrap() = bytes.to_vec();
        let r = cx.call("ContactsFetcher::fetch_addrs", what, key, true, || {
            rt.block_on(async {
                let mut f = ant_bootstrap::ContactsFetcher::with_endpoints(vec![url.clone()]).expect("fetcher");
                f.ignore_peer_id(ignore_peer_id);
                // an answer the fetcher cannot use makes it ask again after a pause; the harness does not wait for that
                tokio::time::timeout(std::time::Duration::from_millis(2500), f.fetch_addrs()).await
            })
        });
        match r {
            Some(Ok(Ok(v))) => Some(v.iter().map(|a| a.to_string()).collect()),
            Some(Err(_)) => {
                cx.run.count("contacts_answers_the_fetcher_kept_retrying_on", 1);
                None
            }
            _ => None,
        }
    };
    // the fetcher must get through to the harness at all (otherwise everything below is vacuous)
    let p1 = rigs::fixtures::peer_id(1);
    let p2 = rigs::fixtures::peer_id(2);
    let good1 = format!("/ip4/10.0.0.1/udp/1200/quic-v1/p2p/{p1}");
    let good2 = format!("/ip4/10.0.0.2/tcp/1300/ws/p2p/{p2}");
    match fetch(cx, json!("two valid lines"), b"sanity", format!("{good1}\n{good2}").as_bytes(), false) {
        Some(v) if v.len() == 2 => {}
        other => cx.run.machinery_error(&format!("the contacts fetcher does not reach the harness's web server: {other:?}")),
    }
    // (a) line lists: every sequence of <= 3(4) lines over a line alphabet, both settings of ignore_peer_id;
    // what comes back must be exactly the lines that are usable addresses (as a set: the order is not promised)
    let lines: Vec<String> = vec![
        good1.clone(),
        good2.clone(),
        "/ip4/10.0.0.3/udp/1203/quic-v1".into(),
        format!("/ip6/::1/udp/1205/quic-v1/p2p/{p1}"),
        "".into(),
        "   ".into(),
        "<html><body>502 Bad Gateway</body></html>".into(),
        format!("{good1}\r"),
        "/ip4/999.1.1.1/udp/1/quic-v1".into(),
    ];
    enumerate::sequences(&lines, if thorough { 4 } else { 3 }, |seq| {
        let text = seq.join("\n");
        for ignore in [false, true] {
            let got = fetch(cx, json!({"lines": seq, "ignore_peer_id": ignore}), format!("lines:{text}#{ignore}").as_bytes(), text.as_bytes(), ignore);
            if let Some(got) = got {
                let want: Vec<String> = seq.iter().filter_map(|l| ant_bootstrap::craft_valid_multiaddr_from_str(l, ignore)).map(|a| a.to_string()).collect();
                let (mut g, mut w) = (got.clone(), want.clone());
                g.sort();
                w.sort();
                if g != w {
                    cx.run.violation("format-parse-roundtrip", "ContactsFetcher::fetch_addrs", format!("a contacts list of the lines {seq:?} (ignore_peer_id = {ignore}) yields {got:?}, its usable lines are {want:?}"), json!({"lines": seq, "ignore_peer_id": ignore}));
                }
            }
        }
    });
    // (b) a cache file in JSON, and every structural single-token mutation (thorough: every truncation too) of it
    let dir = mc_core::scratch_root().join("c17-contacts");
    std::fs::create_dir_all(&dir).unwrap();
    let (_, text) = cache_seed(&dir);
    match fetch(cx, json!("seed cache as JSON"), b"json-seed", text.as_bytes(), false) {
        Some(v) if v.len() == 2 => {}
        other => cx.run.machinery_error(&format!("the seed cache served as a contacts file yields {other:?}, expected one address for each of its 2 peers")),
    }
    json_mutations(&text, thorough, |m, how| {
        fetch(cx, json!({"json_mutation": how}), format!("json:{how}").as_bytes(), m.as_bytes(), false);
    });
    // (c) foreign bodies
    let mut foreign: Vec<Vec<u8>> = vec![
        vec![],
        b"\n".to_vec(),
        b"\n\n\n".to_vec(),
        vec![0xff, 0xfe],
        b"[]".to_vec(),
        b"{}".to_vec(),
        b"null".to_vec(),
        b"{\"peers\":{},\"last_updated\":{\"secs_since_epoch\":0,\"nanos_since_epoch\":0},\"network_version\":\"\"}".to_vec(),
        b"{\"nodes\":[]}".to_vec(),
        b"<!DOCTYPE html>\n<html><head><title>Not found</title></head>\n<body>404</body></html>\n".to_vec(),
    ];
    for k in (0..=if thorough { 600usize } else { 200 }).step_by(1) {
        let mut t = "/".repeat(k);
        t.push_str(if k % 2 == 0 { "\u{e9}" } else { "\u{20ac}" });
        t.push_str(&"y".repeat(300usize.saturating_sub(k)));
        foreign.push(t.into_bytes());
    }
    for (i, b) in foreign.iter().enumerate() {
        for ignore in [false, true] {
            if let Some(got) = fetch(cx, json!({"foreign_body": i, "ignore_peer_id": ignore}), format!("foreign{i}#{ignore}").as_bytes(), b, ignore) {
                if !got.is_empty() {
                    cx.run.violation("format-parse-roundtrip", "ContactsFetcher::fetch_addrs", format!("foreign body {i} yields contacts {got:?}"), json!({"foreign_body": i}));
                }
            }
        }
    }
    let _ = std::fs::remove_dir_all(&dir);
}

pub fn main(tier: Option<&str>) {
    let run = Run::new("C17", "exploration", tier);
    let thorough = !run.quick();
    run.rule(
        "per parser an exhaustively enumerated boundary family: hex strings of every length 0..=size+2 (repeated 0/f/g, \
         every truncation and single-character substitution of a valid string, non-ASCII), every port token pair, all 65536 ports, \
         all strings <=4 over a 9-character alphabet for amounts, every sequence of <=4(5) multiaddr protocol tokens, every \
         truncation and structural single-token mutation of a valid cache file / registry file, every byte string <=1(2) plus all \
         sequences <=3(4) over 24 msgpack marker bytes and every truncation / substitution of real record encodings, 7 bodies under record keys of every length 0..=40, 64, 255, 1000; \
         a contacts endpoint (the harness as loopback web server, real ContactsFetcher::fetch_addrs): every sequence of <=3(4) lines over 9 line shapes x ignore_peer_id, the seed cache as JSON with every structural mutation, 10 foreign bodies and a multi-byte character at every offset 0..=200(600) — no panic, and exactly the usable lines come back; \
         a node's record directory holding one planted file (35 file names: hex of every length 1..=18, 32, 63..66, 130, upper case, non-hex, non-ASCII, nested x 8 contents) opened by the real store, twice; for every text \
         parser additionally strings with one 2-, 3- or 4-byte character at every byte offset 0..=120/200(600), followed by 0, 1 or 40 fillers. \
         A case is non-trivial when it reaches past the first syntactic check (even-length hex, decimal-shaped, well-formed tokens).",
    );
    run.assume("the harness is built with overflow-checks=on: an arithmetic overflow in a parser surfaces as a panic");
    run.assume("decrypt_private_key inputs that reach PBKDF2 (>= 20 bytes) are covered by a dozen representatives, not every length");
    let cx = Ctx { run: &run };
    hex_parsers(&cx);
    run.sample(json!({"RegisterAddress::from_hex": "00"}));
    wallet_keys(&cx);
    run.sample(json!({"decrypt_private_key": ["", "pw"]}));
    ports(&cx, thorough);
    run.sample(json!({"PortRange::parse": "0-65535", "validate_count": 1}));
    amounts(&cx);
    multiaddrs(&cx, thorough);
    run.sample(json!({"craft_valid_multiaddr_from_str": "/ip4/1.2.3.4/udp/1200/quic-v1/p2p/<peer>/p2p-circuit"}));
    cache_files(&cx, thorough);
    contacts_endpoint(&cx, thorough);
    run.sample(json!({"ContactsFetcher::fetch_addrs": "HTTP 200 with an empty body"}));
    registry_files(&cx, thorough);
    run.sample(json!({"NodeRegistry::from_json": "seed with token 17 := 4294967296"}));
    record_bytes(&cx, thorough);
    run.sample(json!({"try_deserialize_record": [145, 1, 198, 255, 255, 255, 255]}));
    store_layer(&run);
    run.sample(json!({"record store directory": {"file_name": "cafe", "content": "16 zero bytes"}}));
    run.finish();
}

pub fn replay(w: &serde_json::Value) {
    // Re-runs the whole family of the recorded parser (families are small) and reports.
    println!("C17 replay: recorded witness {w}");
    let run = Run::new("C17", "exploration", Some("quick"));
    let cx = Ctx { run: &run };
    match w["parser"].as_str().unwrap_or("") {
        p if p.contains("from_hex") || p.contains("str_to_addr") || p.contains("fmt") => hex_parsers(&cx),
        p if p.contains("private_key") => wallet_keys(&cx),
        p if p.contains("Port") || p.contains("port") => ports(&cx, false),
        p if p.contains("AttoTokens") => amounts(&cx),
        p if p.contains("multiaddr") => multiaddrs(&cx, false),
        p if p.contains("cache") || p.contains("flush") => cache_files(&cx, false),
        p if p.contains("NodeRegistry") => registry_files(&cx, false),
        _ => record_bytes(&cx, false),
    }
    run.finish();
}
