//! C12 — record and message encodings round-trip and stay wire-stable.
//! Exhaustive enumeration over value pools per record kind and message variant; pinned tag table;
//! golden bytes; all short byte strings + every truncation / substitution of every encoding fed to
//! every decoder.
use ant_evm::{EncodedPeerId, PaymentQuote, ProofOfPayment, QuotingMetrics, RewardsAddress};
use ant_protocol::messages::{ChunkProof, Cmd, CmdResponse, Query, QueryResponse, Request, Response};
use ant_protocol::storage::{
    try_deserialize_record, try_serialize_record, Chunk, ChunkAddress, RecordHeader, RecordKind, RecordType, Scratchpad, ScratchpadAddress,
    Transaction, TransactionAddress,
};
use ant_protocol::NetworkAddress;
use ant_registers::{Permissions, Register, RegisterAddress, RegisterCrdt, RegisterOp, SignedRegister};
use bytes::Bytes;
use libp2p::kad::{Record, RecordKey};
use mc_core::{catch, enumerate, Run};
use serde::{de::DeserializeOwned, Serialize};
use serde_json::json;
use std::collections::{BTreeMap, BTreeSet};
use std::time::{Duration, UNIX_EPOCH};
use xor_name::XorName;

/// The wire tag of every record kind, pinned here independently of the code.
const TAGS: [(RecordKind, u8); 8] = [
    (RecordKind::ChunkWithPayment, 0),
    (RecordKind::Chunk, 1),
    (RecordKind::Transaction, 2),
    (RecordKind::Register, 3),
    (RecordKind::RegisterWithPayment, 4),
    (RecordKind::Scratchpad, 5),
    (RecordKind::ScratchpadWithPayment, 6),
    (RecordKind::TransactionWithPayment, 7),
];
const HEADER_SIZE: usize = 2;

fn rec(v: &[u8]) -> Record {
    Record { key: RecordKey::new(&[1u8; 32]), value: v.to_vec(), publisher: None, expires: None }
}

// ---------- value pools (all deterministic) ----------------------------------------------------

fn chunks(thorough: bool) -> Vec<Chunk> {
    let mut sizes = vec![0usize, 1, 2, 31, 32, 255, 256, 65535, 65536];
    if thorough {
        sizes.extend([3, 127, 128, 65537, 1 << 20]);
    }
    sizes.into_iter().map(|n| Chunk::new(Bytes::from((0..n).map(|i| (i % 251) as u8).collect::<Vec<u8>>()))).collect()
}

fn scratchpads() -> Vec<Scratchpad> {
    use rigs::fixtures::{bls_sk, ScratchpadMirror};
    let sk = bls_sk(1);
    let sk2 = bls_sk(2);
    let mut v = vec![];
    for counter in [0u64, 1, 255, 256, u32::MAX as u64 + 1, u64::MAX] {
        for data in [&b""[..], &b"x"[..], &[0xc4u8; 300][..]] {
            v.push(ScratchpadMirror::build(sk.public_key(), counter, data, Some(&sk)));
        }
    }
    v.push(ScratchpadMirror::build(sk.public_key(), 7, b"unsigned", None));
    v.push(ScratchpadMirror::build(sk.public_key(), 7, b"foreign", Some(&sk2)));
    let mut m = ScratchpadMirror::from_real(&v[0]);
    m.data_encoding = u64::MAX;
    v.push(m.into_real());
    v
}

fn transactions() -> Vec<Transaction> {
    use rigs::fixtures::bls_sk;
    let sk = bls_sk(1);
    let p2 = bls_sk(2).public_key();
    let p3 = bls_sk(3).public_key();
    let mut v = vec![];
    for parents in [vec![], vec![p2], vec![p2, p3]] {
        for outputs in [vec![], vec![(p3, [9u8; 32])], vec![(p3, [9u8; 32]), (p2, [0u8; 32])]] {
            v.push(Transaction::new(sk.public_key(), parents.clone(), [7u8; 32], outputs, &sk));
        }
    }
    // badly signed
    v.push(Transaction::new(sk.public_key(), vec![], [1u8; 32], vec![], &bls_sk(2)));
    v
}

pub fn registers() -> Vec<SignedRegister> {
    use rigs::fixtures::bls_sk;
    let owner = bls_sk(1);
    let writer = bls_sk(2);
    let meta = XorName::from_content(b"c12-register");
    let mut out = vec![];
    for perms in [Permissions::new_with(vec![]), Permissions::new_with(vec![writer.public_key()]), Permissions::new_anyone_can_write()] {
        let reg = Register::new(owner.public_key(), meta, perms);
        let sig = owner.sign(reg.bytes().unwrap());
        let mut crdt = RegisterCrdt::new(*reg.address());
        let mut ops: Vec<RegisterOp> = vec![];
        let mut parents = BTreeSet::new();
        for i in 0..3u8 {
            let (hash, addr, op) = crdt.write(vec![i; (i as usize) * 5 + 1], &parents).unwrap();
            ops.push(RegisterOp::new(addr, op, &owner));
            parents = BTreeSet::from([hash]);
        }
        for n in 0..=3 {
            let set: BTreeSet<RegisterOp> = ops.iter().take(n).cloned().collect();
            out.push(SignedRegister::new(reg.clone(), sig.clone(), set));
        }
    }
    out
}

fn quote(n: u8, secs: u64) -> PaymentQuote {
    let kp = rigs::fixtures::ed_keypair(n);
    let mut q = PaymentQuote {
        content: XorName([n; 32]),
        timestamp: UNIX_EPOCH + Duration::new(secs, 123_456_789),
        quoting_metrics: QuotingMetrics {
            close_records_stored: n as usize,
            max_records: 16384,
            received_payment_count: 2,
            live_time: 77,
            network_density: if n % 2 == 0 { Some([n; 32]) } else { None },
            network_size: if n % 3 == 0 { None } else { Some(1 << 40) },
        },
        rewards_address: RewardsAddress::from([n; 20]),
        pub_key: kp.public().encode_protobuf(),
        signature: vec![],
    };
    q.signature = kp.sign(&q.bytes_for_sig()).unwrap();
    q
}

fn proofs() -> Vec<ProofOfPayment> {
    (0..=3usize)
        .map(|k| ProofOfPayment {
            peer_quotes: (0..k).map(|i| (EncodedPeerId::from(rigs::fixtures::peer_id(i as u8 + 1)), quote(i as u8 + 1, 1_700_000_000 + i as u64))).collect(),
        })
        .collect()
}

fn addresses() -> Vec<NetworkAddress> {
    let sk = rigs::fixtures::bls_sk(1);
    vec![
        NetworkAddress::from_peer(rigs::fixtures::peer_id(1)),
        NetworkAddress::from_chunk_address(ChunkAddress::new(XorName([3; 32]))),
        NetworkAddress::from_transaction_address(TransactionAddress::from_owner(sk.public_key())),
        NetworkAddress::from_register_address(RegisterAddress::new(XorName([4; 32]), sk.public_key())),
        NetworkAddress::from_scratchpad_address(ScratchpadAddress::new(sk.public_key())),
        NetworkAddress::from_record_key(&RecordKey::new(&[5u8; 32])),
        NetworkAddress::RecordKey(Bytes::new()),
        NetworkAddress::RecordKey(Bytes::from_static(b"ab")),
        NetworkAddress::PeerId(Bytes::from_static(b"not a peer id")),
    ]
}

fn requests() -> Vec<Request> {
    let a = addresses();
    let mut v = vec![];
    let types = [RecordType::Chunk, RecordType::Scratchpad, RecordType::NonChunk(XorName([8; 32]))];
    for (i, h) in a.iter().enumerate() {
        let keys: Vec<(NetworkAddress, RecordType)> = a.iter().take(i % 4).zip(types.iter().cycle()).map(|(x, t)| (x.clone(), t.clone())).collect();
        v.push(Request::Cmd(Cmd::Replicate { holder: h.clone(), keys }));
        v.push(Request::Cmd(Cmd::PeerConsideredAsBad { detected_by: h.clone(), bad_peer: a[(i + 1) % a.len()].clone(), bad_behaviour: ["", "x", "ünï"][i % 3].to_string() }));
        for nonce in [None, Some(0u64), Some(u64::MAX)] {
            for difficulty in [0usize, 1, usize::MAX] {
                v.push(Request::Query(Query::GetStoreQuote { key: h.clone(), nonce, difficulty }));
            }
        }
        v.push(Request::Query(Query::GetReplicatedRecord { requester: h.clone(), key: a[(i + 2) % a.len()].clone() }));
        v.push(Request::Query(Query::GetRegisterRecord { requester: a[(i + 2) % a.len()].clone(), key: h.clone() }));
        v.push(Request::Query(Query::GetChunkExistenceProof { key: h.clone(), nonce: i as u64, difficulty: i }));
        v.push(Request::Query(Query::CheckNodeInProblem(h.clone())));
        for num in [None, Some(0usize), Some(20)] {
            for range in [None, Some([0u8; 32]), Some([0xff; 32])] {
                for sign in [false, true] {
                    v.push(Request::Query(Query::GetClosestPeers { key: h.clone(), num_of_peers: num, range, sign_result: sign }));
                }
            }
        }
    }
    v
}

fn responses() -> Vec<Response> {
    use ant_protocol::Error as PErr;
    let a = addresses();
    let errs = [
        PErr::GetStoreQuoteFailed,
        PErr::QuoteGenerationFailed,
        PErr::ChunkDoesNotExist(a[1].clone()),
        PErr::ReplicatedRecordNotFound { holder: Box::new(a[0].clone()), key: Box::new(a[1].clone()) },
        PErr::RecordHeaderParsingFailed,
    ];
    let mut v = vec![];
    for e in &errs {
        v.push(Response::Cmd(CmdResponse::Replicate(Err(e.clone()))));
        v.push(Response::Query(QueryResponse::GetReplicatedRecord(Err(e.clone()))));
        v.push(Response::Query(QueryResponse::GetRegisterRecord(Err(e.clone()))));
        v.push(Response::Query(QueryResponse::GetStoreQuote { quote: Err(e.clone()), peer_address: a[0].clone(), storage_proofs: vec![(a[1].clone(), Err(e.clone()))] }));
    }
    v.push(Response::Cmd(CmdResponse::Replicate(Ok(()))));
    v.push(Response::Cmd(CmdResponse::PeerConsideredAsBad(Ok(()))));
    for (i, h) in a.iter().enumerate() {
        v.push(Response::Query(QueryResponse::GetStoreQuote {
            quote: Ok(quote(i as u8 + 1, 1_700_000_000)),
            peer_address: h.clone(),
            storage_proofs: (0..i % 3).map(|k| (a[k].clone(), Ok(ChunkProof::new(&[k as u8; 10], k as u64)))).collect(),
        }));
        v.push(Response::Query(QueryResponse::CheckNodeInProblem { reporter_address: h.clone(), target_address: a[(i + 1) % a.len()].clone(), is_in_trouble: i % 2 == 0 }));
        for data in [Bytes::new(), Bytes::from_static(b"\x91\x01\xc4\x03abc")] {
            v.push(Response::Query(QueryResponse::GetReplicatedRecord(Ok((h.clone(), data.clone())))));
            v.push(Response::Query(QueryResponse::GetRegisterRecord(Ok((h.clone(), data)))));
        }
        v.push(Response::Query(QueryResponse::GetChunkExistenceProof((0..i % 3).map(|k| (a[k].clone(), Ok(ChunkProof::new(b"v", 1)))).collect())));
        for sig in [None, Some(vec![]), Some(vec![1u8; 64])] {
            v.push(Response::Query(QueryResponse::GetClosestPeers {
                target: h.clone(),
                peers: (0..i % 3).map(|k| (a[k].clone(), vec!["/ip4/1.2.3.4/udp/5/quic-v1".parse().unwrap(); k])).collect(),
                signature: sig,
            }));
        }
    }
    // (appended last so that the indices of the entries above, which name the golden bytes, stay what they were)
    let more_errs = [
        // every other variant of the protocol's error type (each can travel inside a response)
        PErr::UserDataDirectoryNotObtainable,
        PErr::CouldNotObtainPortFromMultiAddr,
        PErr::ParseRetryStrategyError,
        PErr::CouldNotObtainDataDir,
        PErr::RegisterNotFound(Box::new(ant_registers::RegisterAddress::new(xor_name::XorName([7; 32]), rigs::fixtures::bls_sk(1).public_key()))),
        PErr::RegisterAlreadyClaimed(rigs::fixtures::bls_sk(2).public_key()),
        PErr::RegisterRecordNotFound { holder: Box::new(a[1].clone()), key: Box::new(a[0].clone()) },
        PErr::ScratchpadHexDeserializeFailed,
        PErr::ScratchpadCipherTextFailed,
        PErr::ScratchpadCipherTextInvalid,
        PErr::RecordParsingFailed,
        PErr::RecordExists(ant_protocol::PrettyPrintRecordKey::from(&libp2p::kad::RecordKey::new(&[1u8, 2, 3])).into_owned()),
        PErr::RecordExists(ant_protocol::PrettyPrintRecordKey::from(&libp2p::kad::RecordKey::new(&[0xabu8; 32])).into_owned()),
        PErr::RecordExists(ant_protocol::PrettyPrintRecordKey::from(&libp2p::kad::RecordKey::new(&[0u8; 0])).into_owned()),
    ];
    for e in &more_errs {
        v.push(Response::Cmd(CmdResponse::Replicate(Err(e.clone()))));
        v.push(Response::Query(QueryResponse::GetReplicatedRecord(Err(e.clone()))));
        v.push(Response::Query(QueryResponse::GetStoreQuote { quote: Err(e.clone()), peer_address: a[0].clone(), storage_proofs: vec![(a[1].clone(), Err(e.clone()))] }));
    }
    v
}

// ---------- codecs -----------------------------------------------------------------------------

fn cbor_enc<T: Serialize>(v: &T) -> Vec<u8> {
    cbor4ii::serde::to_vec(Vec::new(), v).expect("cbor encode")
}
fn cbor_dec<T: DeserializeOwned>(b: &[u8]) -> Result<T, String> {
    cbor4ii::serde::from_slice(b).map_err(|e| format!("{e:?}"))
}

struct Cx<'a> {
    run: &'a Run,
    golden: BTreeMap<String, String>,
}

impl Cx<'_> {
    fn gold(&mut self, name: String, bytes: &[u8]) {
        self.golden.insert(name, hex::encode(bytes));
    }
}

/// encode -> decode -> equal, same kind, prefix = [0x91, tag]
fn record_roundtrip<T: Serialize + DeserializeOwned + PartialEq + std::fmt::Debug>(cx: &mut Cx, name: &str, idx: usize, v: &T, kind: RecordKind) -> Option<Vec<u8>> {
    let run = cx.run;
    let tag = TAGS.iter().find(|t| t.0 == kind).unwrap().1;
    let desc = json!({"op":"record-roundtrip","type":name,"index":idx,"kind":format!("{kind:?}")});
    run.case(desc.to_string().as_bytes(), true);
    let enc = match catch(|| try_serialize_record(v, kind)) {
        Ok(Ok(b)) => b.to_vec(),
        Ok(Err(e)) => {
            run.violation("roundtrip", "encode-failed", format!("try_serialize_record failed: {e:?} for {desc}"), desc);
            return None;
        }
        Err(p) => {
            run.violation("no-panic", "try_serialize_record", format!("panicked: {p}"), desc);
            return None;
        }
    };
    if enc.len() < HEADER_SIZE || enc[0] != 0x91 || enc[1] != tag {
        run.violation("tag-table", &format!("{kind:?}"), format!("{kind:?} encodes with prefix {:02x?}, pinned prefix is [91, {tag:02x}]", &enc[..enc.len().min(2)]), desc.clone());
    }
    if RecordHeader::SIZE != HEADER_SIZE {
        run.violation("tag-table", "header-size", format!("RecordHeader::SIZE = {}, pinned 2", RecordHeader::SIZE), desc.clone());
    }
    let r = rec(&enc);
    match catch(|| RecordHeader::from_record(&r)) {
        Ok(Ok(h)) if h.kind == kind => {}
        other => run.violation("roundtrip", "kind", format!("header decodes as {:?}, encoded {kind:?}", other.map(|r| r.map(|h| h.kind))), desc.clone()),
    }
    match catch(|| try_deserialize_record::<T>(&r)) {
        Ok(Ok(back)) if &back == v => {}
        Ok(other) => run.violation("roundtrip", "value", format!("decode(encode(v)) = {:?}", other.map(|_| "a different value")), desc.clone()),
        Err(p) => run.violation("no-panic", "try_deserialize_record", format!("panicked: {p}"), desc.clone()),
    }
    cx.gold(format!("record/{name}/{idx}/{kind:?}"), &enc);
    Some(enc)
}

fn msg_roundtrip<T: Serialize + DeserializeOwned + PartialEq + std::fmt::Debug>(cx: &mut Cx, name: &str, idx: usize, v: &T) -> Vec<u8> {
    let run = cx.run;
    let desc = json!({"op":"message-roundtrip","type":name,"index":idx});
    run.case(desc.to_string().as_bytes(), true);
    let enc = cbor_enc(v);
    match catch(|| cbor_dec::<T>(&enc)) {
        Ok(Ok(back)) if &back == v => {}
        Ok(other) => run.violation("roundtrip", "message", format!("cbor decode(encode(m)) = {:?} for {v:?}", other.map(|_| "a different value")), desc.clone()),
        Err(p) => run.violation("no-panic", "cbor-decode", format!("panicked: {p}"), desc.clone()),
    }
    // the same value also survives rmp (used when messages are embedded in records / signed)
    let enc2 = rmp_serde::to_vec(v).expect("rmp encode");
    match catch(|| rmp_serde::from_slice::<T>(&enc2)) {
        Ok(Ok(back)) if &back == v => {}
        Ok(other) => run.violation("roundtrip", "message-rmp", format!("rmp decode(encode(m)) = {:?} for {v:?}", other.map(|_| "a different value")), desc.clone()),
        Err(p) => run.violation("no-panic", "rmp-decode", format!("panicked: {p}"), desc.clone()),
    }
    // formatting a message (the node logs them) must not crash either
    if let Err(p) = catch(|| format!("{v:?}")) {
        run.violation("no-panic", "format-message", format!("Debug of a {name} panicked: {p}"), desc);
    }
    cx.gold(format!("message/{name}/{idx}"), &enc);
    enc
}

fn decode_everything(run: &Run, bytes: &[u8], how: &str) {
    let r = rec(bytes);
    let key = [how.as_bytes(), b":", bytes].concat();
    run.case(&key, bytes.len() > 2);
    macro_rules! dec {
        ($name:expr, $e:expr) => {
            match catch(|| $e) {
                Ok(_) => {}
                Err(p) => run.violation("no-panic", $name, format!("{} panicked on {} ({} bytes): {p}", $name, how, bytes.len()), json!({"op":"decode","decoder":$name,"how":how,"bytes":hex::encode(&bytes[..bytes.len().min(4096)])})),
            }
        };
    }
    dec!("RecordHeader::from_record", RecordHeader::from_record(&r).map(|h| h.kind));
    // a decoded chunk's address is always recomputed from its bytes (plain and with-payment form)
    let chunk_ok = |c: &Chunk, which: &str| {
        if *c.address() != ChunkAddress::new(XorName::from_content(c.value())) {
            run.violation(
                "decoded-chunk-address-is-content-hash",
                which,
                format!("{which} decoded ({how}, {} bytes) to a chunk whose address is not the hash of its bytes: the address can be forged", bytes.len()),
                json!({"op":"decode","decoder":which,"how":how,"bytes":hex::encode(&bytes[..bytes.len().min(4096)])}),
            );
        }
    };
    // the tag occupies a fixed-size prefix: whatever decodes, decodes from the bytes behind the first RecordHeader::SIZE (2)
    // bytes — never from where some longer or shorter spelling of a header happens to end
    macro_rules! record {
        ($name:expr, $t:ty, $post:expr) => {
            match catch(|| try_deserialize_record::<$t>(&r)) {
                Err(p) => run.violation("no-panic", $name, format!("{} panicked on {} ({} bytes): {p}", $name, how, bytes.len()), json!({"op":"decode","decoder":$name,"how":how,"bytes":hex::encode(&bytes[..bytes.len().min(4096)])})),
                Ok(Err(_)) => {}
                Ok(Ok(got)) => {
                    let reference = if bytes.len() > 2 { rmp_serde::from_slice::<$t>(&bytes[2..]).ok() } else { None };
                    if reference.as_ref() != Some(&got) {
                        run.violation(
                            "fixed-size-prefix",
                            $name,
                            format!("{} decoded {} ({} bytes) to a value that is not the decoding of the bytes behind the 2-byte prefix", $name, how, bytes.len()),
                            json!({"op":"decode","decoder":$name,"how":how,"bytes":hex::encode(&bytes[..bytes.len().min(4096)])}),
                        );
                    }
                    #[allow(clippy::redundant_closure_call)]
                    match catch(|| ($post)(&got)) {
                        Ok(()) => {}
                        Err(p) => run.violation("no-panic", $name, format!("using the value {} decoded from {} panicked: {p}", $name, how), json!({"op":"decode","decoder":$name,"how":how,"bytes":hex::encode(&bytes[..bytes.len().min(4096)])})),
                    }
                }
            }
        };
    }
    record!("record<Chunk>", Chunk, |c: &Chunk| chunk_ok(c, "record<Chunk>"));
    record!("record<Scratchpad>", Scratchpad, |s: &Scratchpad| drop(format!("{s:?}")));
    record!("record<Vec<Transaction>>", Vec<Transaction>, |s: &Vec<Transaction>| drop(s.len()));
    record!("record<SignedRegister>", SignedRegister, |s: &SignedRegister| drop(s.ops().len()));
    record!("record<(Proof,Chunk)>", (ProofOfPayment, Chunk), |v: &(ProofOfPayment, Chunk)| chunk_ok(&v.1, "record<(Proof,Chunk)>"));
    record!("record<(Proof,Scratchpad)>", (ProofOfPayment, Scratchpad), |_: &(ProofOfPayment, Scratchpad)| ());
    record!("record<(Proof,Transaction)>", (ProofOfPayment, Transaction), |_: &(ProofOfPayment, Transaction)| ());
    record!("record<(Proof,SignedRegister)>", (ProofOfPayment, SignedRegister), |_: &(ProofOfPayment, SignedRegister)| ());
    dec!("cbor<Request>", cbor_dec::<Request>(bytes).map(|m| format!("{m:?} {}", m.dst())));
    dec!("cbor<Response>", cbor_dec::<Response>(bytes).map(|m| format!("{m:?} {m}")));
}

fn golden_path(run: &Run) -> std::path::PathBuf {
    run.root.join("golden").join("C12.json")
}

pub fn main(tier: Option<&str>) {
    let regen = std::env::var("VERIF_REGEN_GOLDEN").is_ok();
    let run = Run::new("C12", "exploration", tier);
    let thorough = !run.quick();
    run.rule(
        "value pools per record kind (chunks of 9(14) boundary sizes, 21 scratchpads, 10 transactions and their vectors, 12 registers, \
         4 proofs and every (proof, value) pairing), every Request/Response variant over a 9-address pool with boundary field values; \
         each is encoded, decoded, compared, its prefix checked against the pinned tag table and its bytes against the committed \
         golden file; every sequence of <=3(4) encode calls on one thread over 5 encodable and 4 unencodable values (each call must return what the value returns alone); then every byte string of length <=2 (all 65,792), every sequence <=3(4) over 24 marker bytes, every well-formed MessagePack body of 9 other shapes (explicit address next to the content, map, nesting) behind every kind's header, every kept record encoding behind 10 other MessagePack spellings of its header, and every truncation \
         and single-byte substitution of every encoding above is fed to all 11 decoders; whatever a record decoder returns must be the decoding of the bytes behind the 2-byte prefix. Non-trivial: any decode input longer than the header.",
    );
    run.assume("wire codecs are the ones the code uses: rmp-serde for records, cbor4ii (libp2p request-response cbor codec) for messages");
    run.assume("golden bytes were generated once from the pinned tree (VERIF_REGEN_GOLDEN=1) and are compared on every run");
    let mut cx = Cx { run: &run, golden: BTreeMap::new() };
    let mut encodings: Vec<(String, Vec<u8>)> = vec![];

    // tag table is total and injective
    for k in [RecordKind::Chunk, RecordKind::ChunkWithPayment, RecordKind::Transaction, RecordKind::TransactionWithPayment, RecordKind::Register, RecordKind::RegisterWithPayment, RecordKind::Scratchpad, RecordKind::ScratchpadWithPayment] {
        let tag = TAGS.iter().find(|t| t.0 == k).unwrap().1;
        let h = RecordHeader { kind: k }.try_serialize().map(|b| b.to_vec());
        run.case(format!("tag:{k:?}").as_bytes(), true);
        if h.as_ref().ok() != Some(&vec![0x91, tag]) {
            run.violation("tag-table", &format!("{k:?}"), format!("header of {k:?} = {h:?}, pinned [0x91, {tag}]"), json!({"op":"tag","kind":format!("{k:?}")}));
        }
    }
    for t in 0..=255u8 {
        // decoding a header: exactly the 8 pinned tags decode, to the pinned kinds
        let want = TAGS.iter().find(|x| x.1 == t).map(|x| x.0);
        run.case(format!("untag:{t}").as_bytes(), true);
        let r = match catch(|| RecordHeader::try_deserialize(&[0x91, t])) {
            Ok(r) => r,
            Err(p) => {
                run.violation("no-panic", "RecordHeader::try_deserialize", format!("decoding the header [0x91, {t}] panicked: {p}"), json!({"op":"untag","tag":t}));
                continue;
            }
        };
        if r.as_ref().ok().map(|h| h.kind) != want {
            run.violation("tag-table", "decode", format!("tag {t} decodes to {:?}, pinned {want:?}", r.map(|h| h.kind)), json!({"op":"untag","tag":t}));
        }
    }

    let proofs_v = proofs();
    for (i, c) in chunks(thorough).iter().enumerate() {
        if let Some(e) = record_roundtrip(&mut cx, "Chunk", i, c, RecordKind::Chunk) {
            // address recomputed from bytes on decode
            let back: Chunk = try_deserialize_record(&rec(&e)).unwrap();
            if *back.address() != ChunkAddress::new(XorName::from_content(c.value())) {
                run.violation("chunk-address", "not-recomputed", "decoded chunk address differs from the hash of its bytes".into(), json!({"op":"chunk-address","index":i}));
            }
            if e.len() <= 600 {
                encodings.push((format!("Chunk/{i}"), e));
            } else {
                // large chunks: truncations around the length-prefix edges and the tail only
                for l in [0usize, 1, 2, 3, 4, 5, 6, 7, 8, e.len() / 2, e.len() - 2, e.len() - 1] {
                    decode_everything(&run, &e[..l], "large-chunk-truncation");
                }
            }
        }
        for (pi, p) in proofs_v.iter().enumerate() {
            if c.value().len() <= 256 || pi == 1 {
                if let Some(e) = record_roundtrip(&mut cx, "ProofChunk", i * 10 + pi, &(p.clone(), c.clone()), RecordKind::ChunkWithPayment) {
                    if e.len() < 2000 {
                        encodings.push((format!("ProofChunk/{i}/{pi}"), e));
                    }
                }
            }
        }
    }
    for (i, s) in scratchpads().iter().enumerate() {
        if let Some(e) = record_roundtrip(&mut cx, "Scratchpad", i, s, RecordKind::Scratchpad) {
            encodings.push((format!("Scratchpad/{i}"), e));
        }
        for (pi, p) in proofs_v.iter().enumerate() {
            record_roundtrip(&mut cx, "ProofScratchpad", i * 10 + pi, &(p.clone(), s.clone()), RecordKind::ScratchpadWithPayment);
        }
    }
    let txs = transactions();
    for (i, t) in txs.iter().enumerate() {
        for (pi, p) in proofs_v.iter().enumerate() {
            if let Some(e) = record_roundtrip(&mut cx, "ProofTransaction", i * 10 + pi, &(p.clone(), t.clone()), RecordKind::TransactionWithPayment) {
                if i < 2 && pi < 2 {
                    encodings.push((format!("ProofTransaction/{i}/{pi}"), e));
                }
            }
        }
    }
    for n in 0..=3usize {
        let v: Vec<Transaction> = txs.iter().take(n).cloned().collect();
        if let Some(e) = record_roundtrip(&mut cx, "VecTransaction", n, &v, RecordKind::Transaction) {
            encodings.push((format!("VecTransaction/{n}"), e));
        }
    }
    for (i, r) in registers().iter().enumerate() {
        if let Some(e) = record_roundtrip(&mut cx, "SignedRegister", i, r, RecordKind::Register) {
            if i % 4 == 1 {
                encodings.push((format!("SignedRegister/{i}"), e));
            }
        }
        for (pi, p) in proofs_v.iter().enumerate() {
            record_roundtrip(&mut cx, "ProofSignedRegister", i * 10 + pi, &(p.clone(), r.clone()), RecordKind::RegisterWithPayment);
        }
    }
    run.sample(json!({"record-roundtrip": {"type": "ProofChunk", "kind": "ChunkWithPayment", "proof_quotes": 1, "chunk_len": 255}}));
    let reqs = requests();
    for (i, m) in reqs.iter().enumerate() {
        let e = msg_roundtrip(&mut cx, "Request", i, m);
        if i % 7 == 0 {
            encodings.push((format!("Request/{i}"), e));
        }
    }
    let resps = responses();
    for (i, m) in resps.iter().enumerate() {
        let e = msg_roundtrip(&mut cx, "Response", i, m);
        if i % 5 == 0 {
            encodings.push((format!("Response/{i}"), e));
        }
    }
    run.extra("pool_sizes", json!({"requests": reqs.len(), "responses": resps.len(), "encodings_mutated": encodings.len()}));
    run.sample(json!({"message-roundtrip": format!("{:?}", reqs[3])}));

    // the encoder is a function of its argument: every sequence of <=3(4) encode calls on one thread over a pool of encodable
    // values of every kind and of values whose serialisation fails midway (a quote dated before the epoch, which serde refuses,
    // behind a valid header and a partly written body) — every call must return what that value returns when encoded alone
    {
        let mut old_proof = proofs_v[2].clone();
        old_proof.peer_quotes[1].1.timestamp = UNIX_EPOCH - Duration::from_secs(1);
        let c0 = chunks(false)[1].clone();
        let s0 = scratchpads()[0].clone();
        let t0 = txs[0].clone();
        let r0 = registers()[1].clone();
        let p1 = proofs_v[1].clone();
        type Enc = Box<dyn Fn() -> Result<Vec<u8>, String> + Send + Sync>;
        fn enc<T: Serialize + Send + Sync + 'static>(v: T, k: RecordKind) -> Enc {
            Box::new(move || try_serialize_record(&v, k).map(|b| b.to_vec()).map_err(|e| format!("{e:?}")))
        }
        let pool: Vec<(&str, Enc)> = vec![
            ("chunk", enc(c0.clone(), RecordKind::Chunk)),
            ("scratchpad", enc(s0.clone(), RecordKind::Scratchpad)),
            ("transactions", enc(vec![t0.clone()], RecordKind::Transaction)),
            ("register", enc(r0.clone(), RecordKind::Register)),
            ("proof+chunk", enc((p1.clone(), c0.clone()), RecordKind::ChunkWithPayment)),
            ("UNENCODABLE proof+chunk", enc((old_proof.clone(), c0.clone()), RecordKind::ChunkWithPayment)),
            ("UNENCODABLE proof+scratchpad", enc((old_proof.clone(), s0.clone()), RecordKind::ScratchpadWithPayment)),
            ("UNENCODABLE proof+transaction", enc((old_proof.clone(), t0.clone()), RecordKind::TransactionWithPayment)),
            ("UNENCODABLE proof+register", enc((old_proof.clone(), r0.clone()), RecordKind::RegisterWithPayment)),
        ];
        // each value alone, on a thread of its own (no earlier call on that thread)
        let alone: Vec<Result<Vec<u8>, String>> = pool
            .iter()
            .map(|(_, f)| std::thread::scope(|sc| sc.spawn(|| catch(|| f()).unwrap_or_else(|p| Err(format!("panic: {p}")))).join().unwrap()))
            .collect();
        for (i, (name, _)) in pool.iter().enumerate() {
            if name.starts_with("UNENCODABLE") != alone[i].is_err() {
                run.violation("roundtrip", "encode-alone", format!("encoding {name} alone gave {:?}", alone[i].as_ref().map(|b| b.len())), json!({"op":"encode-sequence","sequence":[name]}));
            }
        }
        let idx: Vec<u8> = (0..pool.len() as u8).collect();
        enumerate::sequences(&idx, if thorough { 4 } else { 3 }, |seq| {
            if seq.len() < 2 {
                return;
            }
            run.case(format!("encode-sequence:{seq:?}").as_bytes(), true);
            // a thread of its own per sequence: whatever an encoder keeps per thread starts empty
            std::thread::scope(|sc| {
                sc.spawn(|| {
            for (pos, i) in seq.iter().enumerate() {
                let got = catch(|| (pool[*i as usize].1)()).unwrap_or_else(|p| Err(format!("panic: {p}")));
                let same = match (&got, &alone[*i as usize]) {
                    (Ok(a), Ok(b)) => a == b,
                    (Err(_), Err(_)) => true,
                    _ => false,
                };
                if !same {
                    let names: Vec<&str> = seq.iter().map(|j| pool[*j as usize].0).collect();
                    run.violation(
                        "encoder-is-a-function",
                        if pool[*i as usize].0.starts_with("UNENCODABLE") { "unencodable-value" } else { "after-a-failed-encode" },
                        format!("call {pos} of the sequence {names:?} returned {:?}; the same value encoded alone gives {:?}", got.as_ref().map(|b| hex::encode(&b[..b.len().min(6)])), alone[*i as usize].as_ref().map(|b| hex::encode(&b[..b.len().min(6)]))),
                        json!({"op":"encode-sequence","sequence":names,"position":pos}),
                    );
                    break;
                }
            }
                });
            });
        });
    }

    // golden bytes
    let gp = golden_path(&run);
    if regen {
        std::fs::create_dir_all(gp.parent().unwrap()).unwrap();
        std::fs::write(&gp, serde_json::to_string_pretty(&cx.golden).unwrap()).unwrap();
        println!("[C12] golden file regenerated with {} entries", cx.golden.len());
    }
    match std::fs::read_to_string(&gp).ok().and_then(|s| serde_json::from_str::<BTreeMap<String, String>>(&s).ok()) {
        None => run.machinery_error("golden/C12.json missing or unreadable (regenerate with VERIF_REGEN_GOLDEN=1 on the pinned tree)"),
        Some(gold) => {
            let mut compared = 0u64;
            for (name, hexs) in &gold {
                run.case(format!("golden:{name}").as_bytes(), true);
                compared += 1;
                match cx.golden.get(name) {
                    Some(now) if now == hexs => {}
                    Some(_) => run.violation("wire-stable", name.split('/').nth(1).unwrap_or("?"), format!("encoding of {name} differs from the committed golden bytes"), json!({"op":"golden","name":name})),
                    // pools only grow with the tier: an entry the quick tier does not build is skipped
                    None if thorough => run.violation("wire-stable", "missing", format!("golden entry {name} is no longer produced"), json!({"op":"golden","name":name})),
                    None => {}
                }
            }
            run.extra("golden_entries_compared", json!(compared));
        }
    }

    // hostile bytes to every decoder
    decode_everything(&run, &[], "bytes");
    for a in 0..=255u8 {
        decode_everything(&run, &[a], "bytes");
        for b in 0..=255u8 {
            decode_everything(&run, &[a, b], "bytes");
        }
    }
    let alpha: Vec<u8> = vec![0x00, 0x01, 0x07, 0x08, 0x18, 0x1b, 0x40, 0x5b, 0x7f, 0x80, 0x90, 0x91, 0x92, 0x9b, 0x9f, 0xa1, 0xbb, 0xc4, 0xc6, 0xd9, 0xdc, 0xdd, 0xdf, 0xff];
    enumerate::sequences(&alpha, if thorough { 4 } else { 3 }, |s| {
        if s.len() >= 3 {
            decode_everything(&run, s, "marker-bytes");
        }
    });
    let subs: Vec<u8> = if thorough { vec![0x00, 0x01, 0x1b, 0x5b, 0x7f, 0x80, 0x90, 0x9b, 0xbb, 0xc0, 0xc4, 0xc6, 0xdc, 0xdd, 0xdf, 0xff] } else { vec![0x00, 0x5b, 0x9b, 0xc6, 0xdd, 0xff] };
    for (name, e) in &encodings {
        if e.len() > 1500 {
            // long encodings: truncations only at every position, substitutions in the first 300 bytes
            for l in 0..e.len() {
                decode_everything(&run, &e[..l], name);
            }
            enumerate::byte_mutations(&e[..300], &subs, |m| {
                let full = [m, &e[m.len().min(300)..]].concat();
                decode_everything(&run, &full, name);
            });
        } else {
            enumerate::byte_mutations(e, &subs, |m| decode_everything(&run, m, name));
        }
    }
    // well-formed MessagePack of *other shapes* behind every kind's header: what a peer could send to a decoder that
    // is more liberal than the encoder (an explicit address next to the content, a map instead of a sequence, nesting)
    {
        #[derive(Serialize)]
        struct AddrAndValue {
            address: ChunkAddress,
            value: Bytes,
        }
        let content = Bytes::from_static(b"content of the crafted chunk");
        let victim = ChunkAddress::new(XorName::from_content(b"the address of some other chunk"));
        let mut shapes: Vec<(&str, Vec<u8>)> = vec![
            ("(address, value) as a sequence", rmp_serde::to_vec(&(victim, content.clone())).unwrap()),
            ("(value, address) as a sequence", rmp_serde::to_vec(&(content.clone(), victim)).unwrap()),
            ("{address, value} as a map", rmp_serde::to_vec_named(&AddrAndValue { address: victim, value: content.clone() }).unwrap()),
            ("[value] as a one-element sequence", rmp_serde::to_vec(&(content.clone(),)).unwrap()),
            ("[[value]] nested", rmp_serde::to_vec(&((content.clone(),),)).unwrap()),
            ("value as a sequence of integers", rmp_serde::to_vec(&content.to_vec()).unwrap()),
        ];
        shapes.push(("(proof-less pair) (value, value)", rmp_serde::to_vec(&(content.clone(), content.clone())).unwrap()));
        let empty_proof = ProofOfPayment { peer_quotes: vec![] };
        shapes.push(("(proof, (address, value))", rmp_serde::to_vec(&(empty_proof.clone(), (victim, content.clone()))).unwrap()));
        shapes.push(("(proof, {address, value})", rmp_serde::to_vec_named(&(empty_proof, AddrAndValue { address: victim, value: content.clone() })).unwrap()));
        for (tag_kind, tag) in TAGS.iter() {
            for (sname, body) in &shapes {
                let mut bytes = vec![0x91u8, *tag];
                bytes.extend_from_slice(body);
                decode_everything(&run, &bytes, &format!("other-shape:{tag_kind:?}:{sname}"));
            }
        }
    }
    // other spellings of a header (MessagePack encodes one integer / one array length in several ways) in front of the
    // body of every real encoding kept above: none of them is the 2-byte prefix, so none may decode to the body's value
    {
        let spell = |k: u8| -> Vec<(&'static str, Vec<u8>)> {
            vec![
                ("uint8 kind", vec![0x91, 0xcc, k]),
                ("int8 kind", vec![0x91, 0xd0, k]),
                ("uint16 kind", vec![0x91, 0xcd, 0, k]),
                ("int16 kind", vec![0x91, 0xd1, 0, k]),
                ("uint32 kind", vec![0x91, 0xce, 0, 0, 0, k]),
                ("uint64 kind", vec![0x91, 0xcf, 0, 0, 0, 0, 0, 0, 0, k]),
                ("array16 header", vec![0xdc, 0, 1, k]),
                ("array32 header", vec![0xdd, 0, 0, 0, 1, k]),
                ("bare kind", vec![k]),
                ("two-element header", vec![0x92, k, 0xc0]),
            ]
        };
        for (name, e) in &encodings {
            if e.len() < 3 || e[0] != 0x91 || e.len() > 4096 {
                continue;
            }
            for (sname, h) in spell(e[1]) {
                let bytes = [&h[..], &e[2..]].concat();
                decode_everything(&run, &bytes, &format!("respelled-header:{sname}:{name}"));
            }
        }
    }
    run.sample(json!({"decode": {"how": "marker-bytes", "bytes": "91 01 c6"}}));
    run.finish();
}

pub fn replay(w: &serde_json::Value) {
    let run = Run::new("C12", "exploration", Some("quick"));
    if w["op"] == "decode" {
        let b = hex::decode(w["bytes"].as_str().unwrap_or("")).unwrap_or_default();
        println!("C12 replay: feeding {} recorded bytes to every decoder", b.len());
        decode_everything(&run, &b, "replay");
        run.finish();
    }
    println!("C12 replay: witness {w} is re-run by the full check");
    drop(run);
    main(Some("quick"));
}
