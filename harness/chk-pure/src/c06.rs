//! C06 — register replicas converge and accept only authorised writes.
//! (a) algebra of merge over all pairs/triples of sub-registers and all permutations/duplications of
//!     op subsets through RegisterCrdt; (b) explicit-state BFS (clone mode) over 2/3 real
//!     `SignedRegister` replicas with Deliver/Merge actions; (c) histories across the entry limit.
use ant_registers::{Entry, EntryHash, Permissions, Register, RegisterAddress, RegisterCrdt, RegisterOp, SignedRegister};
use bls::SecretKey;
use mc_core::bfs::{bfs_clone, BfsOpts, Fail, System};
use mc_core::{catch, enumerate, Run};
use serde_json::json;
use std::collections::BTreeSet;
use std::sync::Arc;
use xor_name::XorName;

const MAX_ENTRIES: usize = 1024;
const MAX_ENTRY_SIZE: usize = 1024;

#[derive(Clone, Copy, Debug, PartialEq, Eq)]
enum Perm {
    OwnerOnly,
    OwnerAndWriter,
    Anyone,
}

#[derive(Clone, Debug)]
struct PoolOp {
    name: &'static str,
    op: RegisterOp,
    by_owner: bool,
    by_writer: bool,
    sig_valid: bool,
    size_ok: bool,
    right_address: bool,
}

struct Fixture {
    owner: SecretKey,
    perm: Perm,
    base: SignedRegister,
    pool: Vec<PoolOp>,
    /// (name, register) — every one has a base register different from `base`
    foreign_bases: Vec<(&'static str, SignedRegister)>,
    /// exact memo: a replica of this fixture is determined by the set of pool ops it holds
    verify_memo: std::sync::Mutex<std::collections::HashMap<Vec<u8>, (Option<String>, Result<usize, String>)>>,
}

fn signed_base(owner: &SecretKey, meta: XorName, perms: Permissions) -> SignedRegister {
    let reg = Register::new(owner.public_key(), meta, perms);
    let sig = owner.sign(reg.bytes().expect("register bytes"));
    SignedRegister::new(reg, sig, BTreeSet::new())
}

fn perms_of(p: Perm, writer: &SecretKey) -> Permissions {
    match p {
        Perm::OwnerOnly => Permissions::new_with(vec![]),
        Perm::OwnerAndWriter => Permissions::new_with(vec![writer.public_key()]),
        Perm::Anyone => Permissions::new_anyone_can_write(),
    }
}

/// Forge: the crdt part of `a` with the source and signature of `b` (serde round trip; both are
/// 4-field structs encoded as arrays).
fn splice_signature(a: &RegisterOp, b: &RegisterOp) -> RegisterOp {
    let ja = serde_json::to_value(a).expect("op to json");
    let jb = serde_json::to_value(b).expect("op to json");
    let mut j = ja.clone();
    j["signature"] = jb["signature"].clone();
    serde_json::from_value(j).expect("spliced op")
}

fn fixture(perm: Perm) -> Fixture {
    use rigs::fixtures::bls_sk;
    let owner = bls_sk(1);
    let writer = bls_sk(2);
    let stranger = bls_sk(3);
    let meta = XorName::from_content(b"c06");
    let base = signed_base(&owner, meta, perms_of(perm, &writer));
    let other_meta = XorName::from_content(b"c06-other");
    let other_base = signed_base(&owner, other_meta, perms_of(perm, &writer));
    let addr = *base.address();
    let mut crdt = RegisterCrdt::new(addr);
    let none: BTreeSet<EntryHash> = BTreeSet::new();
    let (h1, _, d1) = crdt.write(b"root-1".to_vec(), &none).unwrap();
    let (h2, _, d2) = crdt.write(b"root-2".to_vec(), &none).unwrap();
    let (_h3, _, d3) = crdt.write(b"child-of-1".to_vec(), &BTreeSet::from([h1])).unwrap();
    let (_h4, _, d4) = crdt.write(b"child-of-1-and-2".to_vec(), &BTreeSet::from([h1, h2])).unwrap();
    let (_h5, _, d5) = crdt.write(b"by-stranger".to_vec(), &none).unwrap();
    let (_h6, _, d6) = crdt.write(vec![0xaa; MAX_ENTRY_SIZE + 1], &none).unwrap();
    let (_h7, _, d7) = crdt.write(vec![0xbb; MAX_ENTRY_SIZE], &none).unwrap();
    let mut other_crdt = RegisterCrdt::new(*other_base.address());
    let (_h8, other_addr, d8) = other_crdt.write(b"for-the-other-register".to_vec(), &none).unwrap();
    let (_h9, _, d9) = crdt.write(b"forged".to_vec(), &none).unwrap();
    // the entry of root1 once more, this time as a child of root2: another node of the DAG with the same value
    let (_h10, _, d10) = crdt.write(b"root-1".to_vec(), &BTreeSet::from([h2])).unwrap();
    let r1 = RegisterOp::new(addr, d1, &owner);
    let r2 = RegisterOp::new(addr, d2, &writer);
    let c1 = RegisterOp::new(addr, d3, &owner);
    let c2 = RegisterOp::new(addr, d4, &writer);
    let forged_src = RegisterOp::new(addr, d9, &owner);
    let forged = splice_signature(&forged_src, &r1);
    // the same entry from the same source as root1, carrying another signature (a re-signed / tampered copy): an op
    // *different* from root1, which an open register may hold next to it
    let resigned = splice_signature(&r1, &r2);
    // root1's value, source and signature on a node with other children (a genuine op moved elsewhere in the history)
    let reparented = splice_signature(&RegisterOp::new(addr, d10, &owner), &r1);
    let pool = vec![
        PoolOp { name: "root1/owner", op: r1, by_owner: true, by_writer: false, sig_valid: true, size_ok: true, right_address: true },
        PoolOp { name: "root2/writer", op: r2, by_owner: false, by_writer: true, sig_valid: true, size_ok: true, right_address: true },
        PoolOp { name: "child(1)/owner", op: c1, by_owner: true, by_writer: false, sig_valid: true, size_ok: true, right_address: true },
        PoolOp { name: "child(1,2)/writer", op: c2, by_owner: false, by_writer: true, sig_valid: true, size_ok: true, right_address: true },
        PoolOp { name: "stranger", op: RegisterOp::new(addr, d5, &stranger), by_owner: false, by_writer: false, sig_valid: true, size_ok: true, right_address: true },
        PoolOp { name: "forged-signature/owner", op: forged, by_owner: true, by_writer: false, sig_valid: false, size_ok: true, right_address: true },
        PoolOp { name: "root1-with-another-signature", op: resigned, by_owner: true, by_writer: false, sig_valid: false, size_ok: true, right_address: true },
        PoolOp { name: "root1-reparented-under-root2-with-root1's-signature", op: reparented, by_owner: true, by_writer: false, sig_valid: false, size_ok: true, right_address: true },
        PoolOp { name: "oversized(1025)/owner", op: RegisterOp::new(addr, d6, &owner), by_owner: true, by_writer: false, sig_valid: true, size_ok: false, right_address: true },
        PoolOp { name: "max-size(1024)/owner", op: RegisterOp::new(addr, d7, &owner), by_owner: true, by_writer: false, sig_valid: true, size_ok: true, right_address: true },
        PoolOp { name: "other-register/owner", op: RegisterOp::new(other_addr, d8, &owner), by_owner: true, by_writer: false, sig_valid: true, size_ok: true, right_address: false },
    ];
    // base registers a replica must refuse: another meta; the same address (owner + meta) with other owner-signed
    // permissions, empty and carrying an op that is valid under *those* permissions only
    let relaxed = match perm {
        Perm::OwnerOnly => Perm::OwnerAndWriter,
        Perm::OwnerAndWriter => Perm::Anyone,
        Perm::Anyone => Perm::OwnerOnly,
    };
    let relaxed_base = signed_base(&owner, meta, perms_of(relaxed, &writer));
    let carried = match perm {
        Perm::OwnerOnly => &pool[1],      // the writer's op: fine for owner+writer, not for owner-only
        Perm::OwnerAndWriter => &pool[4], // the stranger's op: fine for an open register only
        Perm::Anyone => &pool[0],
    };
    let relaxed_with_op = crafted_register(&relaxed_base, &carried.op);
    let foreign_bases = vec![
        ("other-meta", other_base.clone()),
        ("same-address-other-permissions", relaxed_base),
        ("same-address-other-permissions-with-op", relaxed_with_op),
    ];
    Fixture { owner, perm, base, foreign_bases, pool, verify_memo: Default::default() }
}

impl Fixture {
    /// From the statement: signer permitted (or open register), valid signature (when restricted),
    /// entry within the size limit, addressed to this register.
    fn should_enter(&self, p: &PoolOp) -> Option<bool> {
        let permitted = match self.perm {
            Perm::OwnerOnly => p.by_owner,
            Perm::OwnerAndWriter => p.by_owner || p.by_writer,
            Perm::Anyone => true,
        };
        if self.perm == Perm::Anyone && !p.sig_valid {
            return None; // open registers: signature checking is not demanded by the statement
        }
        Some(permitted && p.sig_valid && p.size_ok && p.right_address)
    }
}

/// The value a reader sees: all ops applied to a fresh CRDT, as the client does.
fn current_value(r: &SignedRegister) -> Result<BTreeSet<(EntryHash, Entry)>, String> {
    let mut crdt = RegisterCrdt::new(*r.address());
    for op in r.ops() {
        crdt.apply_op(op.clone()).map_err(|e| format!("{e:?}"))?;
    }
    Ok(crdt.read())
}

// ---------- (a) algebra ------------------------------------------------------------------------

fn algebra(run: &Run) {
    for perm in [Perm::OwnerAndWriter, Perm::Anyone] {
        let fx = fixture(perm);
        let auth: Vec<&PoolOp> = fx.pool.iter().filter(|p| fx.should_enter(p) == Some(true)).collect();
        let n = auth.len(); // 5 with the max-size op
        let sub = |mask: u32| -> SignedRegister {
            let mut r = fx.base.clone();
            for (i, p) in auth.iter().enumerate() {
                if mask & (1 << i) != 0 {
                    if let Err(e) = r.add_op(p.op.clone()) {
                        run.violation("op-admission", "authorised-op-refused", format!("{} was refused by a fresh {perm:?} register: {e:?}", p.name), json!({"op": p.name, "perm": format!("{perm:?}")}));
                    }
                }
            }
            r
        };
        let subs: Vec<SignedRegister> = (0..(1u32 << n)).map(sub).collect();
        for (a, ra) in subs.iter().enumerate() {
            // idempotent
            let mut x = ra.clone();
            x.merge(ra).unwrap();
            run.case(format!("idem:{perm:?}:{a}").as_bytes(), true);
            if x != *ra {
                run.violation("merge-algebra", "idempotent", format!("merge(a,a) != a for subset {a:b}"), json!({"op":"idempotent","perm":format!("{perm:?}"),"a":a}));
            }
            for (b, rb) in subs.iter().enumerate() {
                let mut ab = ra.clone();
                let mut ba = rb.clone();
                let (r1, r2) = (ab.verified_merge(rb), ba.verified_merge(ra));
                run.case(format!("comm:{perm:?}:{a}:{b}").as_bytes(), a != b);
                if r1.is_err() || r2.is_err() || ab.ops() != ba.ops() || ab != ba {
                    run.violation("merge-algebra", "commutative", format!("merge({a:b},{b:b}) != merge({b:b},{a:b}): {r1:?} {r2:?}"), json!({"op":"commutative","perm":format!("{perm:?}"),"a":a,"b":b}));
                }
                let want: BTreeSet<&RegisterOp> = ra.ops().union(rb.ops()).collect();
                if ab.ops().iter().collect::<BTreeSet<_>>() != want {
                    run.violation("merge-algebra", "union", format!("merge({a:b},{b:b}) is not the union of the op sets"), json!({"op":"union","perm":format!("{perm:?}"),"a":a,"b":b}));
                }
                run.outcome(format!("{:?}", current_value(&ab).map(|v| v.len())).as_bytes());
                if current_value(&ab) != current_value(&ba) {
                    run.violation("convergence", "read-differs", format!("equal op sets, different current values ({a:b},{b:b})"), json!({"op":"commutative-read","perm":format!("{perm:?}"),"a":a,"b":b}));
                }
                if a <= b {
                    for (c, rc) in subs.iter().enumerate() {
                        let mut l = ab.clone();
                        l.merge(rc).unwrap();
                        let mut bc = rb.clone();
                        bc.merge(rc).unwrap();
                        let mut r = ra.clone();
                        r.merge(&bc).unwrap();
                        run.case(format!("assoc:{perm:?}:{a}:{b}:{c}").as_bytes(), true);
                        if l != r {
                            run.violation("merge-algebra", "associative", format!("(a+b)+c != a+(b+c) for {a:b},{b:b},{c:b}"), json!({"op":"associative","perm":format!("{perm:?}"),"a":a,"b":b,"c":c}));
                        }
                    }
                }
            }
        }
        // RegisterCrdt: every permutation, and every sequence with one duplicated element, of every
        // subset gives the same read(); children before parents end where parents-first ends.
        for mask in 1u32..(1u32 << n) {
            let ops: Vec<&RegisterOp> = (0..n).filter(|i| mask & (1 << i) != 0).map(|i| &auth[i].op).collect();
            let mut reference: Option<BTreeSet<(EntryHash, Entry)>> = None;
            enumerate::permutations(ops.len(), |perm_idx| {
                for dup in 0..=ops.len() {
                    let mut seq: Vec<&RegisterOp> = perm_idx.iter().map(|i| ops[*i]).collect();
                    if dup < ops.len() {
                        seq.push(ops[dup]);
                    }
                    let mut crdt = RegisterCrdt::new(*fx.base.address());
                    for op in &seq {
                        if let Err(e) = crdt.apply_op((*op).clone()) {
                            run.violation("convergence", "apply-op-failed", format!("an accepted op could not be applied to the CRDT: {e:?}"), json!({"perm": format!("{perm:?}"), "mask": mask}));
                        }
                    }
                    let got = crdt.read();
                    run.case(format!("crdt:{perm:?}:{mask}:{perm_idx:?}:{dup}").as_bytes(), ops.len() > 1);
                    match &reference {
                        None => reference = Some(got),
                        Some(r) if *r == got => {}
                        Some(_) => run.violation(
                            "convergence",
                            "delivery-order",
                            format!("subset {mask:b} applied in order {perm_idx:?} (+dup {dup}) reads differently"),
                            json!({"op":"crdt-permutation","perm":format!("{perm:?}"),"mask":mask,"order":perm_idx,"dup":dup}),
                        ),
                    }
                }
            });
        }
    }
    run.sample(json!({"algebra": "merge(sub{root1,child(1)}, sub{root2}) == merge(sub{root2}, sub{root1,child(1)})"}));
}

// ---------- (b) BFS over replicas ---------------------------------------------------------------

#[derive(Clone)]
struct Replicas {
    fx: Arc<Fixture>,
    regs: Vec<SignedRegister>,
    /// per replica: pool indices delivered directly or through merges (reference = set union)
    delivered: Vec<BTreeSet<usize>>,
    with_foreign_replica: bool,
}

#[derive(Clone, Debug)]
enum Act {
    Deliver { op: usize, name: &'static str, to: usize },
    Merge { from: usize, into: usize, verified: bool },
    MergeForeignBase { which: usize, name: &'static str, into: usize, verified: bool },
    /// a register that carries pool op `op` without it ever having passed add_op (built by hand, as a peer could
    /// send it) is checked with verify() and offered to replica `into` through verified_merge
    MergeCrafted { op: usize, name: &'static str, into: usize },
}

/// `base` plus `op`, inserted straight into the op set.
fn crafted_register(base: &SignedRegister, op: &RegisterOp) -> SignedRegister {
    let mut j = serde_json::to_value(base).expect("register to json");
    j["ops"].as_array_mut().expect("ops array").push(serde_json::to_value(op).expect("op to json"));
    serde_json::from_value(j).expect("crafted register")
}

impl System for Replicas {
    type Action = Act;
    fn actions(&self) -> Vec<Act> {
        let mut v = vec![];
        for r in 0..self.regs.len() {
            for (i, p) in self.fx.pool.iter().enumerate() {
                v.push(Act::Deliver { op: i, name: p.name, to: r });
            }
        }
        for a in 0..self.regs.len() {
            for b in 0..self.regs.len() {
                if a != b {
                    v.push(Act::Merge { from: a, into: b, verified: false });
                    v.push(Act::Merge { from: a, into: b, verified: true });
                }
            }
        }
        if self.with_foreign_replica {
            for b in 0..self.regs.len() {
                for (which, (name, _)) in self.fx.foreign_bases.iter().enumerate() {
                    v.push(Act::MergeForeignBase { which, name, into: b, verified: false });
                    v.push(Act::MergeForeignBase { which, name, into: b, verified: true });
                }
            }
        }
        // whole registers carrying an op that must not enter (by the statement, under this permission setting)
        for (i, p) in self.fx.pool.iter().enumerate() {
            if self.fx.should_enter(p) == Some(false) {
                v.push(Act::MergeCrafted { op: i, name: p.name, into: 0 });
            }
        }
        v
    }
    fn step(&mut self, a: &Act, fails: &mut Vec<Fail>) {
        match a {
            Act::Deliver { op, to, .. } => {
                let p = &self.fx.pool[*op];
                let before = self.regs[*to].clone();
                let reg = &mut self.regs[*to];
                let res = catch(|| reg.add_op(p.op.clone()));
                let entered = self.regs[*to].ops().contains(&p.op);
                match res {
                    Err(pn) => fails.push(Fail::new("no-panic", "add_op", format!("add_op panicked: {pn}"))),
                    Ok(r) => {
                        if r.is_ok() != entered && !before.ops().contains(&p.op) {
                            fails.push(Fail::new("op-admission", "result-disagrees", format!("add_op({}) returned {r:?} but op present = {entered}", p.name)));
                        }
                        if r.is_err() && self.regs[*to] != before {
                            fails.push(Fail::new("op-admission", "rejected-but-changed", format!("add_op({}) failed with {r:?} yet changed the replica", p.name)));
                        }
                        match self.fx.should_enter(p) {
                            Some(true) if !entered => fails.push(Fail::new("op-admission", "valid-op-refused", format!("{} refused: {r:?}", p.name))),
                            Some(false) if entered => {
                                let trig = if !p.right_address {
                                    "other-register-op-admitted"
                                } else if !p.size_ok {
                                    "oversized-op-admitted"
                                } else if !p.sig_valid {
                                    "forged-signature-admitted"
                                } else {
                                    "unauthorised-signer-admitted"
                                };
                                fails.push(Fail::new("op-admission", trig, format!("{} entered a {:?} register", p.name, self.fx.perm)));
                            }
                            _ => {}
                        }
                        if entered {
                            self.delivered[*to].insert(*op);
                        }
                    }
                }
            }
            Act::Merge { from, into, verified } => {
                let src = self.regs[*from].clone();
                let before = self.regs[*into].clone();
                let dst = &mut self.regs[*into];
                let res = catch(|| if *verified { dst.verified_merge(&src) } else { dst.merge(&src) });
                match res {
                    Err(pn) => fails.push(Fail::new("no-panic", "merge", format!("merge panicked: {pn}"))),
                    Ok(Ok(())) => {
                        let want: BTreeSet<RegisterOp> = before.ops().union(src.ops()).cloned().collect();
                        if *self.regs[*into].ops() != want {
                            fails.push(Fail::new("merge-algebra", "union", "merge result is not the union of both op sets".to_string()));
                        }
                        let d = self.delivered[*from].clone();
                        self.delivered[*into].extend(d);
                    }
                    Ok(Err(e)) => {
                        if self.regs[*into] != before {
                            fails.push(Fail::new("merge-algebra", "failed-merge-changed-target", format!("merge failed with {e:?} yet changed the target")));
                        }
                        // same base, both reachable: every reachable state must be mergeable into every other replica
                        fails.push(Fail::new("reachable-state-valid", if *verified { "verified_merge-refused" } else { "merge-refused" }, format!("replica {from} (reachable) refused by replica {into}: {e:?}")));
                    }
                }
            }
            Act::MergeCrafted { op, into, .. } => {
                let p = &self.fx.pool[*op];
                let crafted = crafted_register(&self.fx.base, &p.op);
                match catch(|| crafted.verify()) {
                    Err(pn) => fails.push(Fail::new("no-panic", "verify", format!("verify panicked: {pn}"))),
                    Ok(Ok(())) => fails.push(Fail::new("op-admission", "invalid-op-passes-verify", format!("a register carrying {} (which must not enter a {:?} register) passes verify()", p.name, self.fx.perm))),
                    Ok(Err(_)) => {}
                }
                let before = self.regs[*into].clone();
                let dst = &mut self.regs[*into];
                match catch(|| dst.verified_merge(&crafted)) {
                    Err(pn) => fails.push(Fail::new("no-panic", "merge", format!("verified_merge panicked: {pn}"))),
                    Ok(Ok(())) => fails.push(Fail::new("op-admission", "invalid-op-enters-through-verified-merge", format!("verified_merge accepted a register carrying {} into a {:?} register", p.name, self.fx.perm))),
                    Ok(Err(_)) => {
                        if self.regs[*into] != before {
                            fails.push(Fail::new("merge-algebra", "failed-merge-changed-target", "a refused verified_merge changed the target".to_string()));
                        }
                    }
                }
                // the target is left as it was for the rest of the search (a violation has been reported if it was not)
                self.regs[*into] = before;
            }
            Act::MergeForeignBase { which, name, into, verified } => {
                let before = self.regs[*into].clone();
                let foreign = self.fx.foreign_bases[*which].1.clone();
                let dst = &mut self.regs[*into];
                let res = catch(|| if *verified { dst.verified_merge(&foreign) } else { dst.merge(&foreign) });
                match res {
                    Err(pn) => fails.push(Fail::new("no-panic", "merge", format!("merge panicked: {pn}"))),
                    Ok(Ok(())) => {
                        fails.push(Fail::new("different-base", "merge-accepted", format!("{} with a different base register ({name}) was accepted", if *verified { "verified_merge" } else { "merge" })));
                        // the rest of the search goes on from the state before
                        self.regs[*into] = before;
                    }
                    Ok(Err(_)) => {
                        if self.regs[*into] != before {
                            fails.push(Fail::new("different-base", "target-changed", format!("rejected merge with a different base ({name}) changed the target")));
                            self.regs[*into] = before;
                        }
                    }
                }
            }
        }
        // invariants on every reachable state
        let keys: Vec<Vec<u8>> = self.regs.iter().map(|r| self.fx.pool.iter().enumerate().filter(|(_, p)| r.ops().contains(&p.op)).map(|(i, _)| i as u8).collect()).collect();
        let memo: Vec<(Option<String>, Result<usize, String>)> = self
            .regs
            .iter()
            .zip(keys.iter())
            .map(|(r, k)| {
                if let Some(v) = self.fx.verify_memo.lock().unwrap().get(k) {
                    return v.clone();
                }
                let v = (
                    match catch(|| r.verify()) {
                        Ok(Ok(())) => None,
                        Ok(Err(e)) => Some(format!("{e:?}")),
                        Err(p) => Some(format!("panic: {p}")),
                    },
                    current_value(r).map(|v| v.len()),
                );
                self.fx.verify_memo.lock().unwrap().insert(k.clone(), v.clone());
                v
            })
            .collect();
        for (i, r) in self.regs.iter().enumerate() {
            if let Some(e) = &memo[i].0 {
                let trig = match e.clone() {
                    s if s.contains("TooManyEntries") => "too-many-entries",
                    s if s.contains("EntryTooBig") => "entry-too-big",
                    s if s.contains("AccessDenied") => "access-denied",
                    s if s.contains("InvalidSignature") => "invalid-signature",
                    _ => "other",
                };
                fails.push(Fail::new("reachable-state-valid", trig, format!("replica {i} reached a state that verify() rejects: {e}")));
            }
            // no unauthorised op is present, however it got there
            for (pi, p) in self.fx.pool.iter().enumerate() {
                if r.ops().contains(&p.op) && self.fx.should_enter(p) == Some(false) && !self.delivered[i].contains(&pi) {
                    fails.push(Fail::new("op-admission", "unauthorised-op-present", format!("replica {i} holds {} without having accepted it", p.name)));
                }
            }
        }
        for i in 0..self.regs.len() {
            for j in (i + 1)..self.regs.len() {
                if self.delivered[i] == self.delivered[j] {
                    if self.regs[i].ops() != self.regs[j].ops() {
                        fails.push(Fail::new("convergence", "ops-differ", format!("replicas {i},{j} received the same ops but hold different sets")));
                    }
                    if keys[i] == keys[j] {
                        continue; // literally the same op set: nothing to compare
                    }
                    let (vi, vj) = (current_value(&self.regs[i]), current_value(&self.regs[j]));
                    if vi != vj {
                        fails.push(Fail::new("convergence", "read-differs", format!("replicas {i},{j} hold the same ops but read differently")));
                    }
                }
            }
            // a reader can always compute the current value of a state that verify() accepts
            if memo[i].0.is_none() {
                if let Err(e) = &memo[i].1 {
                    fails.push(Fail::new("reachable-state-valid", "unreadable", format!("replica {i} passes verify() but its current value cannot be computed: {e}")));
                }
            }
        }
    }
    fn canon(&self) -> Vec<u8> {
        let mut b = vec![];
        for r in &self.regs {
            b.push(0xfe);
            for (i, p) in self.fx.pool.iter().enumerate() {
                if r.ops().contains(&p.op) {
                    b.push(i as u8);
                }
            }
        }
        b
    }
}

// ---------- (c) the entry limit -----------------------------------------------------------------

#[derive(Clone)]
struct LimitSys {
    base_addr: RegisterAddress,
    regs: Vec<SignedRegister>,
    /// fresh ops not yet in any replica at start: (op, index)
    fresh: Arc<Vec<RegisterOp>>,
}

#[derive(Clone, Debug)]
enum LAct {
    Add { op: usize, to: usize },
    Merge { from: usize, into: usize, verified: bool },
}

impl System for LimitSys {
    type Action = LAct;
    fn actions(&self) -> Vec<LAct> {
        let mut v = vec![];
        for to in 0..self.regs.len() {
            for op in 0..self.fresh.len() {
                if !self.regs[to].ops().contains(&self.fresh[op]) {
                    v.push(LAct::Add { op, to });
                    break; // fresh ops are interchangeable: offer the first absent one (symmetry)
                }
            }
        }
        for a in 0..self.regs.len() {
            for b in 0..self.regs.len() {
                if a != b {
                    v.push(LAct::Merge { from: a, into: b, verified: false });
                    v.push(LAct::Merge { from: a, into: b, verified: true });
                }
            }
        }
        v
    }
    fn step(&mut self, a: &LAct, fails: &mut Vec<Fail>) {
        match a {
            LAct::Add { op, to } => {
                let n = self.regs[*to].ops().len();
                let r = self.regs[*to].add_op(self.fresh[*op].clone());
                // within the limit an authorised op must enter; the statement fixes no number, the
                // code's constant is used only to label the trigger
                if r.is_err() && n < MAX_ENTRIES - 1 {
                    fails.push(Fail::new("op-admission", "valid-op-refused", format!("add_op refused at {n} entries: {r:?}")));
                }
            }
            LAct::Merge { from, into, verified } => {
                let src = self.regs[*from].clone();
                let before = self.regs[*into].clone();
                let r = if *verified { self.regs[*into].verified_merge(&src) } else { self.regs[*into].merge(&src) };
                if let Err(e) = r {
                    if self.regs[*into] != before {
                        fails.push(Fail::new("merge-algebra", "failed-merge-changed-target", format!("{e:?}")));
                    }
                    let (ns, nd) = (src.ops().len(), before.ops().len());
                    let union = before.ops().union(src.ops()).count();
                    let trig = if union > MAX_ENTRIES { "merge-refused-union-over-limit" } else if *verified { "verified_merge-refused-at-limit" } else { "merge-refused" };
                    // a refusal because the union would exceed the limit keeps every state valid: allowed
                    if union <= MAX_ENTRIES {
                        fails.push(Fail::new("reachable-state-valid", trig, format!("replica with {ns} entries (reachable) refused by replica with {nd}: {e:?}")));
                    }
                }
            }
        }
        for (i, r) in self.regs.iter().enumerate() {
            if let Err(e) = r.verify() {
                let n = r.ops().len();
                let trig = if n == MAX_ENTRIES { "verify-rejects-exactly-limit" } else if n > MAX_ENTRIES { "state-over-limit" } else { "other" };
                fails.push(Fail::new("reachable-state-valid", trig, format!("replica {i} with {n} entries fails verify(): {e:?}")));
            }
        }
        let _ = self.base_addr;
    }
    fn canon(&self) -> Vec<u8> {
        let mut b = vec![];
        for r in &self.regs {
            b.extend((r.ops().len() as u32).to_be_bytes());
            for (i, op) in self.fresh.iter().enumerate() {
                if r.ops().contains(op) {
                    b.push(i as u8);
                }
            }
            b.push(0xfe);
        }
        b
    }
}

fn limit(run: &Run) {
    use rigs::fixtures::bls_sk;
    let owner = bls_sk(1);
    let base = signed_base(&owner, XorName::from_content(b"c06-limit"), Permissions::new_anyone_can_write());
    let addr = *base.address();
    let mut crdt = RegisterCrdt::new(addr);
    let none: BTreeSet<EntryHash> = BTreeSet::new();
    // anyone-can-write: signatures are not checked, so one signature is reused (BLS signing is slow)
    let proto = {
        let (_, _, d) = crdt.write(b"proto".to_vec(), &none).unwrap();
        RegisterOp::new(addr, d, &owner)
    };
    let mk = |crdt: &mut RegisterCrdt, tag: u32| -> RegisterOp {
        let (_, _, d) = crdt.write(tag.to_be_bytes().to_vec(), &none).unwrap();
        let j = serde_json::to_value(&proto).unwrap();
        let mut jj = j.clone();
        jj["crdt_op"] = serde_json::to_value(&d).unwrap();
        serde_json::from_value(jj).expect("op")
    };
    let common: Vec<RegisterOp> = (0..1024u32).map(|i| mk(&mut crdt, i)).collect();
    let fresh: Arc<Vec<RegisterOp>> = Arc::new((5000..5004u32).map(|i| mk(&mut crdt, i)).collect());
    let depth = run.pick(3, 4);
    for prefill in [[1022usize, 1022], [1023, 1022], [1023, 1023], [1024, 1023]] {
        let mut regs = vec![];
        for (ri, n) in prefill.iter().enumerate() {
            let mut r = base.clone();
            // replica 1 shares all but its last op with replica 0, so merges can cross the limit
            let mut refused = None;
            for op in common.iter().take(*n - ri) {
                if let Err(e) = r.add_op(op.clone()) {
                    refused.get_or_insert(format!("{e:?}"));
                }
            }
            if ri == 1 {
                if let Err(e) = r.add_op(common[1023].clone()) {
                    refused.get_or_insert(format!("{e:?}"));
                }
            }
            if refused.is_some() || r.ops().len() != *n {
                run.violation("op-admission", "refused-below-the-cap", format!("filling an open register to {n} entries (cap 1024) through add_op ended with {} entries ({refused:?})", r.ops().len()), json!({"prefill": n}));
                return;
            }
            regs.push(r);
        }
        let sys = LimitSys { base_addr: addr, regs, fresh: fresh.clone() };
        bfs_clone(run, BfsOpts { max_depth: depth, wall_cap: None, state_cap: None, label: format!("limit/prefill={prefill:?}") }, vec![sys]);
    }
}

/// (d) the size limit is one rule on every path. For every entry size 960..=1026 x 0, 1 or 2 parents, and for a 4-byte entry
/// with 0..=40 parents (an entry that joins many concurrent branches): the op enters through `add_op` iff the entry is
/// within the limit — the statement's limit is on the entry, whatever its place in the history — and a state reached
/// that way is valid for every other replica: `verify()` accepts it, `verified_merge` into a replica holding the parents
/// accepts it and both then hold the same ops.
fn size_boundary(run: &Run) {
    use rigs::fixtures::bls_sk;
    let owner = bls_sk(1);
    for (pname, perms) in [("owner-only", Permissions::default()), ("anyone", Permissions::new_anyone_can_write())] {
        let base = signed_base(&owner, XorName::from_content(b"c06-size"), perms);
        let addr = *base.address();
        let mut crdt = RegisterCrdt::new(addr);
        let none: BTreeSet<EntryHash> = BTreeSet::new();
        // 40 concurrent roots, held by both replicas
        let mut roots = vec![];
        let mut with_roots = base.clone();
        for i in 0..40u32 {
            let (h, _, d) = crdt.write(format!("root-{i}").into_bytes(), &none).unwrap();
            let op = RegisterOp::new(addr, d, &owner);
            if with_roots.add_op(op).is_err() {
                run.violation("op-admission", "authorised-op-refused", format!("a small root entry by the owner was refused ({pname})"), json!({"engine": "size-boundary"}));
                return;
            }
            roots.push(h);
        }
        let mut cases: Vec<(usize, usize)> = vec![];
        for size in 960..=MAX_ENTRY_SIZE + 2 {
            for parents in 0..=2usize {
                cases.push((size, parents));
            }
        }
        for parents in 0..=40usize {
            cases.push((4, parents));
        }
        for (size, parents) in cases {
            let desc = json!({"engine": "size-boundary", "permissions": pname, "entry_bytes": size, "parents": parents});
            run.case(desc.to_string().as_bytes(), true);
            let ps: BTreeSet<EntryHash> = roots.iter().take(parents).cloned().collect();
            let mut c2 = crdt.clone();
            let (_, _, d) = c2.write(vec![0xcd; size], &ps).unwrap();
            let op = RegisterOp::new(addr, d, &owner);
            let mut a = with_roots.clone();
            let res = a.add_op(op.clone());
            let want = size <= MAX_ENTRY_SIZE;
            if res.is_ok() != want {
                run.violation("op-admission", if want { "entry-within-the-limit-refused" } else { "oversized-op-admitted" }, format!("add_op of a {size}-byte entry with {parents} parents ({pname}): {res:?}"), desc.clone());
                continue;
            }
            if !want {
                continue;
            }
            if let Err(e) = a.verify() {
                run.violation("reachable-state-valid", "add_op-state-fails-verify", format!("a replica that accepted a {size}-byte entry with {parents} parents through add_op fails verify(): {e:?} ({pname})"), desc.clone());
            }
            let mut b = with_roots.clone();
            match b.verified_merge(&a) {
                Err(e) => run.violation("reachable-state-valid", "add_op-state-refused-by-verified_merge", format!("another replica refuses the state reached by accepting a {size}-byte entry with {parents} parents: {e:?} ({pname})"), desc.clone()),
                Ok(()) => {
                    if b.ops() != a.ops() {
                        run.violation("convergence", "size-boundary", format!("after verified_merge the replicas differ ({size}-byte entry, {parents} parents, {pname})"), desc.clone());
                    }
                }
            }
        }
    }
}

pub fn main(tier: Option<&str>) {
    let run = Run::new("C06", "model_checking", tier);
    run.rule(
        "(a) all 2^5 sub-registers of the authorised pool: every pair (verified_merge both ways) and every triple (merge) for two permission \
         settings; every permutation (+ one duplication) of every subset through RegisterCrdt::apply_op. (b) BFS, clone mode: 2(3) real \
         SignedRegister replicas x 3 permission settings, actions Deliver(op in 11-op pool, r), Merge/verified_merge(r->s), verify/verified_merge of a hand-built register carrying an op that must not enter, merge/verified_merge with three \
         different base registers (another meta; the same address with other owner-signed permissions, empty and carrying an op valid only under those); state key = per replica the set of pool ops held. (c) BFS across the entry limit from replicas pre-filled to \
         1022..1024 entries. (d) every entry size 960..=1026 x 0..2 parents and a 4-byte entry with 0..=40 parents, two permission settings: add_op admission, then verify() and verified_merge by another replica. Non-trivial = involves at least two distinct operands.",
    );
    run.assume("fixed BLS keys (owner, writer, stranger); 11-op pool (authorised, stranger, forged signature, a re-signed copy, a genuine op's value+source+signature on a node with other children, oversized, max-size, foreign address); entry contents fixed");
    run.assume("in an anyone-can-write register the statement does not demand signature checking; forged signatures are not judged there");
    run.assume("clause (c) reuses one signature for its 1028 ops: anyone-can-write registers never verify op signatures");
    algebra(&run);
    let replicas = run.pick(2, 3);
    let depth = run.pick(3, 4);
    for perm in [Perm::OwnerOnly, Perm::OwnerAndWriter, Perm::Anyone] {
        let fx = Arc::new(fixture(perm));
        let init = Replicas { regs: vec![fx.base.clone(); replicas], delivered: vec![BTreeSet::new(); replicas], fx: fx.clone(), with_foreign_replica: true };
        bfs_clone(&run, BfsOpts { max_depth: depth, wall_cap: Some(std::time::Duration::from_secs(run.pick(120, 1500))), state_cap: None, label: format!("replicas={replicas}/{perm:?}") }, vec![init]);
        let _ = &fx.owner;
    }
    limit(&run);
    size_boundary(&run);
    run.finish();
}

pub fn replay(w: &serde_json::Value) {
    println!("C06 replay: witness {w}\nre-running the thorough check (histories are explored simplest-first, the recorded one is among them)");
    main(Some("quick"));
}
