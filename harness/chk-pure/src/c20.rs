//! C20 — upgraded services keep every setting, and antnode accepts what antctl writes.
//! Deviation-bounded exhaustive enumeration of the installable options: every configuration with at
//! most d options away from their defaults (d = 3 quick / 4 thorough) under each EVM network.
//! For each: the real `add_node` against a capturing `ServiceControl`, then the real
//! `ServiceManager::upgrade` on the resulting registry entry (UpgradeOptions built the way
//! `cmd/node.rs` builds them), capturing both `ServiceInstallCtx`; both argument lists are then
//! handed to the `antnode` binary built from the same tree (hook: ANTNODE_VERIF_DUMP_OPT).
use ant_bootstrap::PeersArgs;
use ant_evm::{EvmNetwork, RewardsAddress};
use ant_logging::LogFormat;
use ant_node_manager::add_services::add_node;
use ant_node_manager::add_services::config::{AddNodeServiceOptions, PortRange};
use ant_node_manager::{ServiceManager, VerbosityLevel};
use ant_service_management::control::ServiceControl;
use ant_service_management::error::{Error as SvcError, Result as SvcResult};
use ant_service_management::rpc::{NetworkInfo, NodeInfo, RecordAddress, RpcActions};
use ant_service_management::{NodeRegistry, NodeService, UpgradeOptions};
use clap::Parser;
use mc_core::Run;
use serde_json::json;
use service_manager::ServiceInstallCtx;
use std::path::{Path, PathBuf};
use std::sync::atomic::{AtomicU64, AtomicUsize, Ordering};
use std::sync::{Arc, Mutex};
use std::time::Duration;

#[derive(Clone, Default)]
struct Capture(Arc<Mutex<Vec<ServiceInstallCtx>>>, Option<usize>, Arc<AtomicUsize>);

impl ServiceControl for Capture {
    fn create_service_user(&self, _u: &str) -> SvcResult<()> {
        Ok(())
    }
    fn get_available_port(&self) -> SvcResult<u16> {
        Ok(45001)
    }
    fn install(&self, ctx: ServiceInstallCtx, _user_mode: bool) -> SvcResult<()> {
        // the k-th install of this capture can be made to fail (a generic failure of the service manager)
        let k = self.2.fetch_add(1, Ordering::Relaxed);
        if self.1 == Some(k) {
            return Err(SvcError::Io(std::io::Error::new(std::io::ErrorKind::Other, format!("injected: install #{k} failed"))));
        }
        self.0.lock().unwrap().push(ctx);
        Ok(())
    }
    fn get_process_pid(&self, p: &Path) -> SvcResult<u32> {
        Err(SvcError::ServiceProcessNotFound(p.to_string_lossy().to_string()))
    }
    fn start(&self, _n: &str, _u: bool) -> SvcResult<()> {
        Ok(())
    }
    fn stop(&self, _n: &str, _u: bool) -> SvcResult<()> {
        Ok(())
    }
    fn uninstall(&self, _n: &str, _u: bool) -> SvcResult<()> {
        Ok(())
    }
    fn wait(&self, _d: u64) {}
}

struct NoRpc;
#[async_trait::async_trait]
impl RpcActions for NoRpc {
    async fn node_info(&self) -> SvcResult<NodeInfo> {
        Err(SvcError::RpcConnectionError("not running".into()))
    }
    async fn network_info(&self) -> SvcResult<NetworkInfo> {
        Err(SvcError::RpcConnectionError("not running".into()))
    }
    async fn record_addresses(&self) -> SvcResult<Vec<RecordAddress>> {
        Ok(vec![])
    }
    async fn node_restart(&self, _d: u64, _r: bool) -> SvcResult<()> {
        Ok(())
    }
    async fn node_stop(&self, _d: u64) -> SvcResult<()> {
        Ok(())
    }
    async fn node_update(&self, _d: u64) -> SvcResult<()> {
        Ok(())
    }
    async fn is_node_connected_to_network(&self, _t: Duration) -> SvcResult<()> {
        Ok(())
    }
    async fn update_log_level(&self, _l: String) -> SvcResult<()> {
        Ok(())
    }
}

/// The options an operator can set at installation, each with its default (index 0) and alternatives.
const OPTS: [(&str, usize); 22] = [
    ("node_port", 2),
    ("metrics_port", 2),
    ("rpc_port", 2),
    ("node_ip", 2),
    ("first", 2),
    ("local", 2),
    ("peers", 3),
    ("contacts", 3),
    ("testnet", 2),
    ("ignore_cache", 2),
    ("cache_dir", 2),
    ("log_format", 3),
    ("max_archived_log_files", 2),
    ("max_log_files", 2),
    ("owner", 3),
    ("home_network", 2),
    ("upnp", 2),
    ("user_mode", 2),
    ("user", 2),
    ("env", 3),
    ("network_id", 2),
    ("auto_restart", 2),
];

fn peer_addr(n: u8) -> libp2p::Multiaddr {
    format!("/ip4/10.3.0.{n}/udp/12{n:03}/quic-v1/p2p/{}", rigs::fixtures::peer_id(n)).parse().unwrap()
}

#[derive(Parser, Debug)]
struct PeersOnly {
    #[command(flatten)]
    peers: PeersArgs,
}

/// Would antctl's own command line accept this peers configuration? (It flattens the same PeersArgs.)
fn cli_accepts(p: &PeersArgs) -> bool {
    let mut args: Vec<std::ffi::OsString> = vec!["antctl".into()];
    ant_service_management::node::push_arguments_from_peers_args(p, &mut args);
    PeersOnly::try_parse_from(args).is_ok()
}

/// The name of the account this process runs as (/proc/self/status + /etc/passwd); None if it cannot be told.
fn current_user() -> Option<String> {
    static U: std::sync::OnceLock<Option<String>> = std::sync::OnceLock::new();
    U.get_or_init(|| {
        let status = std::fs::read_to_string("/proc/self/status").ok()?;
        let uid = status.lines().find(|l| l.starts_with("Uid:"))?.split_whitespace().nth(2)?.to_string();
        let passwd = std::fs::read_to_string("/etc/passwd").ok()?;
        passwd.lines().find_map(|l| {
            let f: Vec<&str> = l.split(':').collect();
            (f.len() > 2 && f[2] == uid).then(|| f[0].to_string())
        })
    })
    .clone()
}

fn build_options(choice: &[usize], evm: usize, dir: &Path) -> (AddNodeServiceOptions, Vec<(String, String)>) {
    let c = |name: &str| choice[OPTS.iter().position(|o| o.0 == name).unwrap()];
    let peers_args = PeersArgs {
        first: c("first") == 1,
        addrs: (0..c("peers")).map(|i| peer_addr(i as u8 + 1)).collect(),
        network_contacts_url: (0..c("contacts")).map(|i| format!("http://contacts{i}.example/net")).collect(),
        local: c("local") == 1,
        disable_mainnet_contacts: c("testnet") == 1,
        ignore_cache: c("ignore_cache") == 1,
        bootstrap_cache_dir: if c("cache_dir") == 1 { Some(dir.join("bootstrap-cache")) } else { None },
    };
    let evm_network = match evm {
        0 => EvmNetwork::ArbitrumOne,
        1 => EvmNetwork::ArbitrumSepolia,
        _ => EvmNetwork::new_custom("http://127.0.0.1:8545/", "0x5FbDB2315678afecb367f032d93F642f64180aa3", "0x8464135c8F25Da09e49BC8782676a84730C318bC"),
    };
    let owner = match c("owner") {
        1 => Some("alice".to_string()),
        2 => Some("Discord_User#9".to_string()),
        _ => None,
    };
    let opts = AddNodeServiceOptions {
        antnode_dir_path: dir.join("bin"),
        antnode_src_path: dir.join("antnode"),
        auto_restart: c("auto_restart") == 1,
        auto_set_nat_flags: false,
        count: Some(1),
        delete_antnode_src: false,
        enable_metrics_server: false,
        env_variables: match c("env") {
            1 => Some(vec![("ANT_LOG".to_string(), "all".to_string()), ("K".to_string(), "v w".to_string())]),
            // variables the node itself reads: the definition's environment is part of how the node is launched
            2 => Some(vec![("ANT_PEERS".to_string(), peer_addr(9).to_string()), ("ANT_LOG".to_string(), "all".to_string())]),
            _ => None,
        },
        evm_network,
        home_network: c("home_network") == 1,
        log_format: match c("log_format") {
            1 => Some(LogFormat::Json),
            2 => Some(LogFormat::Default),
            _ => None,
        },
        max_archived_log_files: if c("max_archived_log_files") == 1 { Some(3) } else { None },
        max_log_files: if c("max_log_files") == 1 { Some(5) } else { None },
        metrics_port: if c("metrics_port") == 1 { Some(PortRange::Single(14001)) } else { None },
        network_id: if c("network_id") == 1 { Some(7) } else { None },
        node_ip: if c("node_ip") == 1 { Some("10.9.8.7".parse().unwrap()) } else { None },
        node_port: if c("node_port") == 1 { Some(PortRange::Single(12001)) } else { None },
        owner: owner.clone(),
        peers_args,
        rewards_address: RewardsAddress::from([0x11u8; 20]),
        rpc_address: None,
        rpc_port: if c("rpc_port") == 1 { Some(PortRange::Single(13001)) } else { None },
        // mixed-case directory names: the node must use exactly the directories the manager creates and records
        service_data_dir_path: dir.join("Node-Data"),
        service_log_dir_path: dir.join("Node-Logs"),
        upnp: c("upnp") == 1,
        // an account that exists and that this process may hand directories to: the one it runs as
        user: if c("user") == 1 { current_user() } else { None },
        user_mode: c("user_mode") == 1,
        version: "0.1.0".into(),
    };
    // what the parsed node options must show: (needle description, substring of the {:#?} dump)
    let mut expect: Vec<(String, String)> = vec![];
    let mut want = |k: &str, v: String| expect.push((k.to_string(), v));
    if c("node_port") == 1 {
        want("node_port", "port: 12001,".into());
    }
    if c("metrics_port") == 1 {
        want("metrics_port", "metrics_server_port: 14001,".into());
    }
    if c("rpc_port") == 1 {
        want("rpc_port", "127.0.0.1:13001".into());
    }
    if c("node_ip") == 1 {
        want("node_ip", "ip: 10.9.8.7,".into());
    }
    want("root_dir", format!("\"{}\",", dir.join("Node-Data").join("antnode1").display()));
    want("log_dir", format!("\"{}\",", dir.join("Node-Logs").join("antnode1").display()));
    want("first", format!("first: {},", c("first") == 1));
    want("local", format!("local: {},", c("local") == 1));
    for i in 0..c("peers") {
        // each address as a list element of its own
        want("peers", format!("{},\n", peer_addr(i as u8 + 1)));
    }
    for i in 0..c("contacts") {
        // each URL as a list element of its own (quoted, followed by the element separator)
        want("contacts", format!("\"http://contacts{i}.example/net\","));
    }
    want("testnet", format!("disable_mainnet_contacts: {},", c("testnet") == 1));
    want("ignore_cache", format!("ignore_cache: {},", c("ignore_cache") == 1));
    if c("cache_dir") == 1 {
        want("cache_dir", "bootstrap-cache".into());
    }
    match c("log_format") {
        1 => want("log_format", "Json".into()),
        2 => want("log_format", "Default".into()),
        _ => want("log_format", "log_format: None,".into()),
    }
    if c("max_archived_log_files") == 1 {
        want("max_archived_log_files", "max_archived_log_files: Some(\n        3,".into());
    }
    if c("max_log_files") == 1 {
        want("max_log_files", "max_log_files: Some(\n        5,".into());
    }
    if let Some(o) = &owner {
        want("owner", format!("\"{}\"", o.to_lowercase()));
    }
    want("home_network", format!("home_network: {},", c("home_network") == 1));
    want("upnp", format!("upnp: {},", c("upnp") == 1));
    if c("network_id") == 1 {
        want("network_id", "network_id: Some(\n        7,".into());
    }
    want("rewards_address", format!("{}", RewardsAddress::from([0x11u8; 20])));
    want(
        "evm_network",
        match evm {
            0 => "EvmArbitrumOne".into(),
            1 => "EvmArbitrumSepolia".into(),
            _ => "http://127.0.0.1:8545/".into(),
        },
    );
    (opts, expect)
}

/// `auto_restart: <expr>` in the UpgradeOptions literal of cmd/node.rs (the harness cannot call
/// cmd::node::upgrade itself: it downloads a release and drives the real service manager).
fn auto_restart_expr_in_cmd_node() -> Option<String> {
    let src = std::fs::read_to_string(mc_core::run::repo_root().join("ant-node-manager/src/cmd/node.rs")).ok()?;
    let at = src.find("let options = UpgradeOptions {")?;
    let block = &src[at..at + src[at..].find("};")?];
    let line = block.lines().find(|l| l.trim_start().starts_with("auto_restart:"))?;
    Some(line.trim().trim_start_matches("auto_restart:").trim().trim_end_matches(',').to_string())
}

/// The node binary is launched as the service manager would launch the definition: its arguments and its environment.
fn run_antnode(bin: &Path, args: &[std::ffi::OsString], environment: &Option<Vec<(String, String)>>) -> (Option<i32>, String, String) {
    run_antnode_with(bin, args, environment, "ANTNODE_VERIF_DUMP_OPT")
}

/// The configuration the node is about to run with (second hook, late in `main`: after the network id, the EVM
/// network, the directories, the identity and the logging were set up), as `key=value` pairs.
fn effective_config(bin: &Path, args: &[std::ffi::OsString], environment: &Option<Vec<(String, String)>>) -> Result<std::collections::BTreeMap<String, String>, String> {
    let (code, out, err) = run_antnode_with(bin, args, environment, "ANTNODE_VERIF_DUMP_EFFECTIVE");
    if code != Some(0) {
        return Err(format!("exit {code:?} {err}"));
    }
    let m: std::collections::BTreeMap<String, String> =
        out.lines().filter_map(|l| l.strip_prefix("VERIF-EFFECTIVE ")).filter_map(|l| l.split_once('=')).map(|(k, v)| (k.to_string(), v.to_string())).collect();
    if m.is_empty() {
        return Err("the node printed no effective configuration".into());
    }
    Ok(m)
}

fn run_antnode_with(bin: &Path, args: &[std::ffi::OsString], environment: &Option<Vec<(String, String)>>, hook: &str) -> (Option<i32>, String, String) {
    let mut cmd = std::process::Command::new(bin);
    cmd.args(args).env_remove("ANT_PEERS").env_remove("ANT_LOG");
    for (k, v) in environment.iter().flatten() {
        cmd.env(k, v);
    }
    let out = cmd.env(hook, "1").output();
    match out {
        Ok(o) => (o.status.code(), String::from_utf8_lossy(&o.stdout).to_string(), String::from_utf8_lossy(&o.stderr).chars().take(300).collect()),
        Err(e) => (None, String::new(), format!("{e}")),
    }
}

static SEQ: AtomicU64 = AtomicU64::new(0);

fn one_config(run: &Run, bin: &Path, choice: &[usize], evm: usize, auto_restart_expr: &str) {
    let dir = mc_core::scratch_root().join(format!("c20-{}", SEQ.fetch_add(1, Ordering::Relaxed)));
    std::fs::create_dir_all(&dir).unwrap();
    std::fs::write(dir.join("antnode"), b"#!/bin/sh\n").unwrap();
    std::fs::write(dir.join("antnode-new"), b"#!/bin/sh\n#new\n").unwrap();
    let (opts, expect) = build_options(choice, evm, &dir);
    let nondefault: Vec<String> = OPTS.iter().zip(choice.iter()).filter(|(_, c)| **c != 0).map(|(o, c)| format!("{}={c}", o.0)).collect();
    let desc = json!({"non_default_options": nondefault, "evm": (["arbitrum-one", "arbitrum-sepolia", "custom"][evm])});
    if !cli_accepts(&opts.peers_args) {
        run.count("configurations_the_antctl_cli_itself_rejects", 1);
        let _ = std::fs::remove_dir_all(&dir);
        return;
    }
    run.case(desc.to_string().as_bytes(), !nondefault.is_empty());
    let rt = tokio::runtime::Builder::new_current_thread().enable_time().build().unwrap();
    let cap = Capture::default();
    let mut reg = NodeRegistry::load(&dir.join("registry.json")).expect("registry");
    let want_auto = opts.auto_restart;
    let want_env = opts.env_variables.clone();
    let want_user = opts.user.clone();
    let r = rt.block_on(async { add_node(opts, &mut reg, &cap, VerbosityLevel::Minimal).await });
    if let Err(e) = r {
        run.violation("install-succeeds", "add_node", format!("add_node failed for an installable configuration: {e} ({desc})"), desc);
        let _ = std::fs::remove_dir_all(&dir);
        return;
    }
    let install_ctx = cap.0.lock().unwrap()[0].clone();
    // upgrade, with UpgradeOptions as cmd/node.rs builds them
    let auto_restart = match auto_restart_expr {
        "false" => false,
        "true" => true,
        "node.auto_restart" => reg.nodes[0].auto_restart,
        other => run.machinery_error(&format!("cmd/node.rs builds UpgradeOptions.auto_restart from `{other}`, which the harness mirror does not know")),
    };
    let env_variables = reg.environment_variables.clone();
    {
        let node = &mut reg.nodes[0];
        let svc = NodeService::new(node, Box::new(NoRpc));
        let mut mgr = ServiceManager::new(svc, Box::new(cap.clone()), VerbosityLevel::Minimal);
        let r = rt.block_on(async {
            mgr.upgrade(UpgradeOptions { auto_restart, env_variables, force: true, start_service: false, target_bin_path: dir.join("antnode-new"), target_version: semver::Version::new(0, 2, 0) }).await
        });
        if let Err(e) = r {
            run.violation("upgrade-succeeds", "upgrade", format!("upgrade failed: {e:?} ({desc})"), desc.clone());
            let _ = std::fs::remove_dir_all(&dir);
            return;
        }
    }
    let upgrade_ctx = cap.0.lock().unwrap().last().unwrap().clone();
    // definition-level settings
    if install_ctx.program != upgrade_ctx.program {
        run.violation("upgrade-keeps-settings", "program", format!("program {:?} -> {:?} ({desc})", install_ctx.program, upgrade_ctx.program), desc.clone());
    }
    if install_ctx.username != upgrade_ctx.username {
        run.violation("upgrade-keeps-settings", "user", format!("user {:?} -> {:?} ({desc})", install_ctx.username, upgrade_ctx.username), desc.clone());
    }
    if install_ctx.label.to_string() != upgrade_ctx.label.to_string() {
        run.violation("upgrade-keeps-settings", "label", format!("label {} -> {} ({desc})", install_ctx.label, upgrade_ctx.label), desc.clone());
    }
    if install_ctx.username != want_user {
        run.violation("install-reflects-options", "user", format!("installed definition runs as {:?}, requested {want_user:?} ({desc})", install_ctx.username), desc.clone());
    }
    if install_ctx.autostart != want_auto {
        run.violation("install-reflects-options", "autostart", format!("installed autostart = {}, requested {want_auto} ({desc})", install_ctx.autostart), desc.clone());
    }
    if install_ctx.autostart != upgrade_ctx.autostart {
        run.violation("upgrade-keeps-settings", "autostart", format!("autostart {} at installation, {} after an upgrade ({desc})", install_ctx.autostart, upgrade_ctx.autostart), desc.clone());
    }
    if install_ctx.environment != want_env {
        run.violation("install-reflects-options", "environment", format!("installed environment {:?}, requested {want_env:?}", install_ctx.environment), desc.clone());
    }
    if install_ctx.environment != upgrade_ctx.environment {
        run.violation("upgrade-keeps-settings", "environment", format!("environment {:?} at installation, {:?} after an upgrade ({desc})", install_ctx.environment, upgrade_ctx.environment), desc.clone());
    }
    // both argument lists are accepted by the node binary and mean the same, intended configuration
    let (c1, dump1, err1) = run_antnode(bin, &install_ctx.args, &install_ctx.environment);
    let (c2, dump2, err2) = run_antnode(bin, &upgrade_ctx.args, &upgrade_ctx.environment);
    run.outcome(format!("{c1:?}/{c2:?}").as_bytes());
    if c1 != Some(0) {
        run.violation("antnode-accepts-arguments", "install", format!("antnode rejects the installed argument list {:?}: exit {c1:?} {err1} ({desc})", install_ctx.args), desc.clone());
    }
    if c2 != Some(0) {
        run.violation("antnode-accepts-arguments", "upgrade", format!("antnode rejects the upgraded argument list {:?}: exit {c2:?} {err2} ({desc})", upgrade_ctx.args), desc.clone());
    }
    if c1 == Some(0) && c2 == Some(0) {
        if dump1 != dump2 {
            let diff: Vec<String> = dump1.lines().zip(dump2.lines()).filter(|(a, b)| a != b).map(|(a, b)| format!("{} -> {}", a.trim(), b.trim())).take(4).collect();
            run.violation("upgrade-keeps-settings", "arguments", format!("the node understands the upgraded definition differently: {diff:?} ({desc})"), desc.clone());
        }
        for (what, needle) in &expect {
            if !dump1.contains(needle.as_str()) {
                run.violation("intended-configuration", what, format!("option {what}: the node's parsed options do not show `{}` ({desc})", needle.replace('\n', " ")), desc.clone());
            }
        }
    }
    // what the node is about to run with, not only how it parsed the command line: the settings take effect in
    // `main` between parsing and start-up (network id into the protocol strings, directories, addresses, identity)
    if c1 == Some(0) && c2 == Some(0) {
        let c = |name: &str| choice[OPTS.iter().position(|o| o.0 == name).unwrap()];
        match (effective_config(bin, &install_ctx.args, &install_ctx.environment), effective_config(bin, &upgrade_ctx.args, &upgrade_ctx.environment)) {
            (Ok(e1), Ok(e2)) => {
                if e1 != e2 {
                    let diff: Vec<String> = e1.iter().filter(|(k, v)| e2.get(*k) != Some(*v)).map(|(k, v)| format!("{k}: {v} -> {:?}", e2.get(k))).take(4).collect();
                    run.violation("upgrade-keeps-settings", "effective-configuration", format!("the upgraded definition makes the node run with another configuration: {diff:?} ({desc})"), desc.clone());
                }
                let id = if c("network_id") == 1 { "7" } else { "1" };
                let mut want: Vec<(&str, String)> = vec![
                    ("network_id", id.to_string()),
                    ("root_dir", dir.join("Node-Data").join("antnode1").display().to_string()),
                    ("log_output_dest", dir.join("Node-Logs").join("antnode1").display().to_string()),
                    ("rewards_address", format!("{:?}", RewardsAddress::from([0x11u8; 20]))),
                    ("home_network", (c("home_network") == 1).to_string()),
                    ("local", (c("local") == 1).to_string()),
                    ("node_socket_addr", format!("{}:{}", if c("node_ip") == 1 { "10.9.8.7" } else { "0.0.0.0" }, if c("node_port") == 1 { 12001 } else { 0 })),
                ];
                if c("rpc_port") == 1 {
                    want.push(("rpc", "Some(127.0.0.1:13001)".to_string()));
                }
                for (k, v) in &want {
                    if e1.get(*k) != Some(v) {
                        run.violation("intended-configuration", &format!("effective/{k}"), format!("the node is about to run with {k} = {:?}, the definition was written for {v} ({desc})", e1.get(*k)), desc.clone());
                    }
                }
                // every protocol string the node announces or answers to carries the network id
                for k in ["identify_protocol", "identify_node_version", "req_response_version", "protocol_in_use"] {
                    let ok = e1.get(k).map(|v| v.rsplit('/').next() == Some(id)).unwrap_or(false);
                    if !ok {
                        run.violation("intended-configuration", &format!("effective/{k}"), format!("network id {id}: the node's {k} is {:?} ({desc})", e1.get(k)), desc.clone());
                    }
                }
                let evm_ok = e1.get("evm_network").map(|v| match evm { 0 => v == "ArbitrumOne", 1 => v == "ArbitrumSepolia", _ => v.contains("CustomNetwork") && v.contains("127.0.0.1") && v.contains("8545") && v.contains("5fbdb2315678afecb367f032d93f642f64180aa3") && v.contains("8464135c8f25da09e49bc8782676a84730c318bc") }).unwrap_or(false);
                if !evm_ok {
                    run.violation("intended-configuration", "effective/evm_network", format!("the node is about to run on {:?} ({desc})", e1.get("evm_network")), desc.clone());
                }
                run.count("effective_configurations_compared", 1);
            }
            (a, b) => {
                let e = a.err().or(b.err()).unwrap_or_default();
                run.violation("antnode-accepts-arguments", "start-up", format!("the node accepts the argument list but fails before start-up: {e} ({desc})"), desc.clone());
            }
        }
    }
    let _ = std::fs::remove_dir_all(&dir);
}


/// Several services from one `add` (count 2 / 3), the k-th install failing or none, then what the next
/// `antctl upgrade` invocation does: load the registry from disk, take the environment from it, upgrade every
/// recorded service. Each service's regenerated definition must be the one it was installed with.
fn multi_service_history(run: &Run, bin: &Path, choice: &[usize], evm: usize, count: u16, fail_at: Option<usize>, auto_restart_expr: &str) {
    let dir = mc_core::scratch_root().join(format!("c20-{}", SEQ.fetch_add(1, Ordering::Relaxed)));
    std::fs::create_dir_all(&dir).unwrap();
    std::fs::write(dir.join("antnode"), b"#!/bin/sh\n").unwrap();
    std::fs::write(dir.join("antnode-new"), b"#!/bin/sh\n#new\n").unwrap();
    let (mut opts, _) = build_options(choice, evm, &dir);
    let nondefault: Vec<String> = OPTS.iter().zip(choice.iter()).filter(|(_, c)| **c != 0).map(|(o, c)| format!("{}={c}", o.0)).collect();
    let desc = json!({"non_default_options": nondefault, "evm": (["arbitrum-one", "arbitrum-sepolia", "custom"][evm]), "count": count, "failing_install": fail_at});
    if !cli_accepts(&opts.peers_args) || (opts.peers_args.first && count > 1) {
        let _ = std::fs::remove_dir_all(&dir);
        return;
    }
    opts.count = Some(count);
    let widen = |p: &mut Option<PortRange>| {
        if let Some(PortRange::Single(a)) = p {
            *p = Some(PortRange::Range(*a, *a + count - 1));
        }
    };
    widen(&mut opts.node_port);
    widen(&mut opts.metrics_port);
    widen(&mut opts.rpc_port);
    run.case(desc.to_string().as_bytes(), true);
    let rt = tokio::runtime::Builder::new_current_thread().enable_time().build().unwrap();
    let cap = Capture(Default::default(), fail_at, Default::default());
    let reg_path = dir.join("registry.json");
    let mut reg = NodeRegistry::load(&reg_path).expect("registry");
    let r = rt.block_on(async { add_node(opts, &mut reg, &cap, VerbosityLevel::Minimal).await });
    match (&r, fail_at) {
        (Err(e), None) => {
            run.violation("install-succeeds", "add_node/several", format!("add_node failed for an installable configuration: {e} ({desc})"), desc);
            let _ = std::fs::remove_dir_all(&dir);
            return;
        }
        // the command line saves the registry after a successful add only
        (Ok(_), _) => reg.save().expect("save"),
        _ => {}
    }
    drop(reg);
    run.outcome(format!("add:{}", r.is_ok()).as_bytes());
    // the next invocation
    let mut reg = match NodeRegistry::load(&reg_path) {
        Ok(r) => r,
        Err(e) => {
            run.violation("upgrade-keeps-settings", "several/registry-does-not-load", format!("{e} ({desc})"), desc);
            let _ = std::fs::remove_dir_all(&dir);
            return;
        }
    };
    let installed: Vec<ServiceInstallCtx> = cap.0.lock().unwrap().clone();
    let env_variables = reg.environment_variables.clone();
    for i in 0..reg.nodes.len() {
        let name = reg.nodes[i].service_name.clone();
        let Some(install_ctx) = installed.iter().find(|c| c.label.to_string() == name).cloned() else {
            continue; // recorded without a definition: C19's business
        };
        let auto_restart = match auto_restart_expr {
            "false" => false,
            "true" => true,
            _ => reg.nodes[i].auto_restart,
        };
        {
            let node = &mut reg.nodes[i];
            let svc = NodeService::new(node, Box::new(NoRpc));
            let mut mgr = ServiceManager::new(svc, Box::new(cap.clone()), VerbosityLevel::Minimal);
            let r = rt.block_on(async {
                mgr.upgrade(UpgradeOptions { auto_restart, env_variables: env_variables.clone(), force: true, start_service: false, target_bin_path: dir.join("antnode-new"), target_version: semver::Version::new(0, 2, 0) }).await
            });
            if let Err(e) = r {
                run.violation("upgrade-succeeds", "several/upgrade", format!("upgrade of {name} failed: {e:?} ({desc})"), desc.clone());
                continue;
            }
        }
        let upgrade_ctx = cap.0.lock().unwrap().last().unwrap().clone();
        run.count("services_upgraded_after_a_multi_service_add", 1);
        let mut differ = |what: &str, a: String, b: String| {
            if a != b {
                run.violation("upgrade-keeps-settings", &format!("several/{what}"), format!("{name}: {what} {a} at installation, {b} after an upgrade by the next invocation ({desc})"), desc.clone());
            }
        };
        differ("label", install_ctx.label.to_string(), upgrade_ctx.label.to_string());
        differ("program", format!("{:?}", install_ctx.program), format!("{:?}", upgrade_ctx.program));
        differ("user", format!("{:?}", install_ctx.username), format!("{:?}", upgrade_ctx.username));
        differ("autostart", install_ctx.autostart.to_string(), upgrade_ctx.autostart.to_string());
        differ("environment", format!("{:?}", install_ctx.environment), format!("{:?}", upgrade_ctx.environment));
        differ("working-directory", format!("{:?}", install_ctx.working_directory), format!("{:?}", upgrade_ctx.working_directory));
        let (c1, dump1, err1) = run_antnode(bin, &install_ctx.args, &install_ctx.environment);
        let (c2, dump2, err2) = run_antnode(bin, &upgrade_ctx.args, &upgrade_ctx.environment);
        if c1 != Some(0) || c2 != Some(0) {
            run.violation("antnode-accepts-arguments", "several", format!("{name}: antnode exits {c1:?} {err1} / {c2:?} {err2} ({desc})"), desc.clone());
        } else if dump1 != dump2 {
            let diff: Vec<String> = dump1.lines().zip(dump2.lines()).filter(|(a, b)| a != b).map(|(a, b)| format!("{} -> {}", a.trim(), b.trim())).take(4).collect();
            run.violation("upgrade-keeps-settings", "several/arguments", format!("{name}: the node understands the upgraded definition differently: {diff:?} ({desc})"), desc.clone());
        }
    }
    let _ = std::fs::remove_dir_all(&dir);
}

pub fn main(tier: Option<&str>) {
    let run = Run::new("C20", "exploration", tier);
    let d = run.pick(3, 4);
    run.rule(&format!(
        "22 installable options (ports, ip, first, local, 0-2 peers, 0-2 contact URLs, testnet, ignore-cache, cache dir, log format, log limits, \
         owner, home-network, upnp, user mode, service account, env vars (none / foreign ones / ones the node reads: ANT_PEERS, ANT_LOG), network id, auto-restart) x EVM network {{arbitrum-one, sepolia, custom}}: every \
         configuration with at most {d} options away from their defaults (each alternative value), plus all-on; configurations that antctl's \
         own PeersArgs parser rejects are skipped. Each: real add_node + real ServiceManager::upgrade against a capturing ServiceControl, both \
         argument lists run, with the definition's environment, through the antnode binary built from this tree. Non-trivial = at least one option non-default. \
         Then histories: one add of 2..3 (thorough 4) services with every single option away from its default, no install or the k-th failing, the registry loaded from disk as the next \
         invocation does, every recorded service upgraded with the environment the registry records: each regenerated definition must equal the one that service was installed with."
    ));
    run.assume("the full product (about 1.4e7 installs) is out of budget: the enumeration is bounded by the number of non-default options");
    match current_user() {
        Some(u) => run.extra("service_account_alternative", json!(u)),
        None => run.assume("the account this process runs as could not be determined: the service-account option only takes its default (none)"),
    }
    run.assume("UpgradeOptions are built as cmd/node.rs builds them; the auto_restart initialiser is read from that source file and interpreted (false | true | node.auto_restart)");
    let bin = std::env::current_exe().ok().and_then(|p| p.parent().map(|d| d.join("antnode")));
    let Some(bin) = bin.filter(|b| b.exists()) else {
        run.machinery_error("the antnode binary (built with --features verif-hooks) is not next to vcheck-pure; bin/check builds it");
    };
    // the hook must answer, otherwise the binary would really start a node
    let (code, dump, err) = run_antnode(&bin, &["--rewards-address".into(), format!("{}", RewardsAddress::from([0x11u8; 20])).into(), "evm-arbitrum-one".into()], &None);
    if code != Some(0) || !dump.contains("Opt {") {
        run.machinery_error(&format!("antnode does not answer the option-dump hook (exit {code:?}, {err}); it must be built with --features verif-hooks"));
    }
    let Some(expr) = auto_restart_expr_in_cmd_node() else {
        run.machinery_error("cannot find the UpgradeOptions literal in ant-node-manager/src/cmd/node.rs");
    };
    run.extra("cmd_node_upgrade_options_auto_restart_expr", json!(expr));
    // enumerate
    let mut configs: Vec<Vec<usize>> = vec![];
    fn rec(i: usize, left: usize, cur: &mut Vec<usize>, out: &mut Vec<Vec<usize>>) {
        if i == OPTS.len() {
            out.push(cur.clone());
            return;
        }
        cur.push(0);
        rec(i + 1, left, cur, out);
        cur.pop();
        if left > 0 {
            for alt in 1..OPTS[i].1 {
                cur.push(alt);
                rec(i + 1, left - 1, cur, out);
                cur.pop();
            }
        }
    }
    rec(0, d, &mut vec![], &mut configs);
    // all-on (first alternative everywhere), and all-on without the mutually exclusive peer options
    configs.push(OPTS.iter().map(|_| 1).collect());
    configs.push(OPTS.iter().map(|o| if ["first", "local"].contains(&o.0) { 0 } else { 1 }).collect());
    configs.push(OPTS.iter().map(|o| if ["first", "contacts"].contains(&o.0) { 0 } else { o.1 - 1 }).collect());
    let total = configs.len() * 3;
    run.extra("configurations", json!({"max_non_default": d, "option_vectors": configs.len(), "with_networks": total}));
    let next = AtomicUsize::new(0);
    std::thread::scope(|sc| {
        for _ in 0..mc_core::workers() {
            sc.spawn(|| loop {
                let i = next.fetch_add(1, Ordering::Relaxed);
                if i >= total {
                    break;
                }
                one_config(&run, &bin, &configs[i / 3], i % 3, &expr);
            });
        }
    });
    // several services from one add, with a failing install, upgraded by the next invocation
    {
        let mut vectors: Vec<Vec<usize>> = vec![];
        rec(0, 1, &mut vec![], &mut vectors);
        vectors.push(OPTS.iter().map(|o| if ["first", "local"].contains(&o.0) { 0 } else { 1 }).collect());
        vectors.push(OPTS.iter().map(|o| if ["first", "contacts"].contains(&o.0) { 0 } else { o.1 - 1 }).collect());
        let mut cases: Vec<(usize, usize, u16, Option<usize>)> = vec![];
        let counts: &[u16] = if d >= 4 { &[2, 3, 4] } else { &[2, 3] };
        for v in 0..vectors.len() {
            for evm in [0usize, 2] {
                for &n in counts {
                    cases.push((v, evm, n, None));
                    for k in 0..n as usize {
                        cases.push((v, evm, n, Some(k)));
                    }
                }
            }
        }
        run.extra("multi_service_histories", json!({"option_vectors": vectors.len(), "counts": counts, "failing_install": "none or each", "cases": cases.len()}));
        let next = AtomicUsize::new(0);
        std::thread::scope(|sc| {
            for _ in 0..mc_core::workers() {
                sc.spawn(|| loop {
                    let i = next.fetch_add(1, Ordering::Relaxed);
                    if i >= cases.len() {
                        break;
                    }
                    let (v, evm, n, f) = cases[i];
                    multi_service_history(&run, &bin, &vectors[v], evm, n, f, &expr);
                });
            }
        });
    }
    run.sample(json!({"non_default_options": ["node_port=1", "owner=2"], "evm": "custom"}));
    run.sample(json!({"non_default_options": ["auto_restart=1"], "evm": "arbitrum-one"}));
    run.finish();
}
