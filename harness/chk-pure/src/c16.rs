//! C16 — token amounts: text round-trip and overflow-safe arithmetic.
//! Exhaustive bounded input enumeration of the real `AttoTokens::{from_str, fmt, checked_add,
//! checked_sub}` against the independent decimal reference in `refnum`.
use crate::refnum::Dec;
use ant_evm::{Amount, AttoTokens};
use mc_core::{catch, enumerate, Run};
use serde_json::json;
use std::str::FromStr;

fn amount_of(d: &Dec) -> Option<AttoTokens> {
    d.to_limbs().map(|l| AttoTokens::from_atto(Amount::from_limbs(l)))
}
fn dec_of(a: &AttoTokens) -> Dec {
    let l = a.as_atto().into_limbs();
    Dec::from_limbs(l)
}

/// What the statement says about a string. `Some(Ok(v))`: must be accepted with value v;
/// `Some(Err(()))`: must be rejected; `None`: unspecified, but if accepted the value must be `hint`.
enum Expect {
    Accept(Dec),
    Reject(&'static str),
    /// not judged for acceptance; if accepted, value must equal this (when given)
    Unspecified(Option<Dec>),
}

fn expectation(s: &str) -> Expect {
    let max = Dec::u256_max();
    // shape: digits+ ( '.' digits* )?
    let mut parts = s.splitn(2, '.');
    let units = parts.next().unwrap_or("");
    let frac = parts.next();
    let all_digits = |t: &str| t.bytes().all(|b| b.is_ascii_digit());
    if !all_digits(units) || !frac.map(all_digits).unwrap_or(true) {
        // contains something that is neither a digit nor the single separating '.'
        return Expect::Reject("not-decimal");
    }
    let frac_s = frac.unwrap_or("");
    if units.is_empty() {
        // "" and a bare leading '.' : unspecified; if accepted the value must still be the denoted one
        let trimmed = frac_s.trim_end_matches('0');
        if trimmed.len() > 18 {
            return Expect::Unspecified(None);
        }
        let mut f = trimmed.to_string();
        while f.len() < 18 {
            f.push('0');
        }
        let v = Dec::parse(&f).unwrap_or(Dec::zero());
        return Expect::Unspecified(Some(v));
    }
    let trimmed = frac_s.trim_end_matches('0');
    if trimmed.len() > 18 {
        return Expect::Reject("more-than-18-fractional-digits");
    }
    let mut f = trimmed.to_string();
    while f.len() < 18 {
        f.push('0');
    }
    let v = Dec::parse(units).unwrap().mul_pow10(18).add(&Dec::parse(&f).unwrap());
    if !v.le(&max) {
        return Expect::Reject("not-representable");
    }
    if frac_s.len() > 18 {
        // more than 18 digits written, but only trailing zeros beyond: either answer is tolerated
        return Expect::Unspecified(Some(v));
    }
    Expect::Accept(v)
}

fn nondecimal_trigger(s: &str) -> &'static str {
    let lower = s.to_ascii_lowercase();
    if lower.contains("0x") || lower.contains("0o") || lower.contains("0b") {
        "radix-prefix"
    } else if s.contains('_') {
        "underscore"
    } else if s.bytes().any(|b| b.is_ascii_alphabetic()) {
        "letters"
    } else {
        "other-character"
    }
}

fn check_parse(run: &Run, s: &str) {
    let r = catch(|| AttoTokens::from_str(s));
    let exp = expectation(s);
    let nontrivial = !matches!(exp, Expect::Reject("not-decimal"));
    run.case(s.as_bytes(), nontrivial);
    match r {
        Err(p) => run.violation("no-panic", "from_str", format!("from_str({s:?}) panicked: {p}"), json!({"op":"from_str","input":s})),
        Ok(res) => {
            run.outcome(format!("{:?}", res.as_ref().map(|_| ()).map_err(|e| format!("{e:?}"))).as_bytes());
            match (exp, res) {
                (Expect::Accept(v), Ok(a)) => {
                    if dec_of(&a) != v {
                        run.violation("parse-value", "wrong-value", format!("from_str({s:?}) = {} atto, denotes {}", dec_of(&a).to_string(), v.to_string()), json!({"op":"from_str","input":s}));
                    }
                }
                (Expect::Accept(v), Err(e)) => run.violation(
                    "parse-accepts-valid",
                    "rejected",
                    format!("from_str({s:?}) rejected ({e:?}) but denotes the representable amount {}", v.to_string()),
                    json!({"op":"from_str","input":s}),
                ),
                (Expect::Reject(why), Ok(a)) => {
                    let trig = if why == "not-decimal" { nondecimal_trigger(s) } else { why };
                    run.violation(
                        "parse-rejects-invalid",
                        trig,
                        format!("from_str({s:?}) accepted as {} atto; must be rejected ({why})", dec_of(&a).to_string()),
                        json!({"op":"from_str","input":s}),
                    )
                }
                (Expect::Reject(_), Err(_)) => {}
                (Expect::Unspecified(Some(v)), Ok(a)) => {
                    if dec_of(&a) != v {
                        run.violation("parse-value", "wrong-value", format!("from_str({s:?}) = {} atto, denotes {}", dec_of(&a).to_string(), v.to_string()), json!({"op":"from_str","input":s}));
                    }
                }
                (Expect::Unspecified(_), _) => {}
            }
        }
    }
}

fn check_display(run: &Run, d: &Dec) {
    let Some(a) = amount_of(d) else { return };
    run.case(format!("display:{}", d.to_string()).as_bytes(), true);
    let r = catch(|| format!("{a}"));
    let s = match r {
        Err(p) => {
            run.violation("no-panic", "display", format!("Display of {} panicked: {p}", d.to_string()), json!({"op":"display","atto":d.to_string()}));
            return;
        }
        Ok(s) => s,
    };
    let (hi, lo) = d.split_pow10(18);
    let want = format!("{}.{}", hi.to_string(), lo);
    if s != want {
        let trig = match s.split_once('.') {
            Some((_, f)) if f.len() != 18 => "fraction-width",
            _ => "wrong-digits",
        };
        run.violation(
            "display-denotes",
            trig,
            format!("{} atto prints as {s:?}; its value with 18 fractional digits is {want:?}", d.to_string()),
            json!({"op":"display","atto":d.to_string()}),
        );
    }
    match catch(|| AttoTokens::from_str(&s)) {
        Err(p) => run.violation("no-panic", "from_str", format!("from_str({s:?}) panicked: {p}"), json!({"op":"roundtrip","atto":d.to_string()})),
        Ok(Ok(b)) if b == a => {}
        Ok(other) => run.violation(
            "display-roundtrip",
            "parse-of-display",
            format!("{} atto prints as {s:?}, which parses back as {:?}", d.to_string(), other.map(|b| dec_of(&b).to_string())),
            json!({"op":"roundtrip","atto":d.to_string()}),
        ),
    }
}

fn boundary_amounts(thorough: bool) -> Vec<Dec> {
    let max = Dec::u256_max();
    let mut v: Vec<Dec> = vec![];
    let mut push = |d: Dec| {
        if d.le(&max) && !v.contains(&d) {
            v.push(d)
        }
    };
    let one = Dec::from_u64(1);
    for k in 0..=77usize {
        for m in [1u64, 9, 10].iter().chain(if thorough { [2u64, 5, 11].iter() } else { [].iter() }) {
            let b = Dec::from_u64(*m).mul_pow10(k);
            push(b.clone());
            push(b.add(&one));
            if let Some(x) = b.sub(&one) {
                push(x)
            }
        }
    }
    for k in 0..=256u32 {
        let b = Dec::pow2(k);
        push(b.clone());
        push(b.add(&one));
        if let Some(x) = b.sub(&one) {
            push(x)
        }
    }
    push(Dec::zero());
    push(max.clone());
    push(max.sub(&one).unwrap());
    // every position of a single non-zero digit in the fraction, with and without units
    for pos in 0..18usize {
        for dgt in [1u64, 9] {
            let f = Dec::from_u64(dgt).mul_pow10(pos);
            push(f.clone());
            push(f.add(&Dec::from_u64(7).mul_pow10(18)));
        }
    }
    v
}

pub fn main(tier: Option<&str>) {
    let run = Run::new("C16", "exploration", tier);
    run.rule(
        "strings: every string of length <= N over the alphabet {0,1,9,.,_,x,+,-,space,a,b,o} plus one non-ASCII character (2, 3, 4 bytes wide; Arabic-Indic and full-width digit one) at every position of whole parts <= 30 and fractions <= 40 digits, plus the structured family \
         d{1..78}[.d{0..20}] with digits in {0,1,9}, and fractions of every length 1..=600 (significant digit last / in the middle / all nines) after a small and a maximal whole part; amounts: {1,9,10}*10^k+-1, 2^k+-1, MAX, MAX-1, single fraction digits; \
         pairs: all ordered pairs of the boundary set for checked_add/checked_sub. A string case is non-trivial when it is \
         decimal-shaped (digits with at most one '.'); every amount and pair is non-trivial.",
    );
    run.assume("256-bit value space is covered through the boundary set only");
    run.assume("strings \"\" and those starting with '.' are unspecified by the statement: only their value, if accepted, is judged");
    run.assume("a fraction with more than 18 written digits whose excess digits are all zeros may be accepted or rejected");

    // 1. all short strings
    let n = run.pick(5, 6);
    let alphabet = "019._x+- abo";
    let mut cnt = 0u64;
    enumerate::strings(alphabet, n, |s| {
        check_parse(&run, s);
        cnt += 1;
    });
    run.extra("short_strings", json!({"alphabet": alphabet, "max_len": n, "count": cnt}));
    run.sample(json!({"from_str": "0x1.9"}));

    // 1b. one character that is not an ASCII digit — two, three and four bytes wide, and a non-ASCII decimal digit — at every
    //     position of the whole part (<= 30 digits) and of the fraction (<= 40 digits): all "the rest", to be rejected with an
    //     error wherever the parser happens to cut its input
    let mut wide = 0u64;
    for ch in ["\u{e9}", "\u{20ac}", "\u{1f600}", "\u{661}", "\u{ff11}"] {
        for units_len in [1usize, 2, 30] {
            for pos in 0..units_len {
                let units: String = (0..units_len).map(|i| if i == pos { ch.to_string() } else { "1".to_string() }).collect();
                check_parse(&run, &units);
                check_parse(&run, &format!("{units}.5"));
                wide += 2;
            }
            for frac_len in 1..=40usize {
                for pos in 0..frac_len {
                    let frac: String = (0..frac_len).map(|i| if i == pos { ch.to_string() } else { "1".to_string() }).collect();
                    check_parse(&run, &format!("{}.{frac}", "1".repeat(units_len)));
                    wide += 1;
                }
            }
        }
    }
    run.extra("non_ascii_strings", json!({"count": wide}));

    // 2. structured family: units of 1..=78 digits, optional fraction of 0..=20 digits
    let digit_sets: &[&str] = if run.quick() { &["1", "9", "0"] } else { &["1", "9", "0", "19", "90"] };
    let mut fam = 0u64;
    for ds in digit_sets {
        let pat: Vec<char> = ds.chars().collect();
        for ul in 1..=79usize {
            let units: String = (0..ul).map(|i| pat[i % pat.len()]).collect();
            check_parse(&run, &units);
            fam += 1;
            for fl in 0..=20usize {
                for fds in digit_sets {
                    let fp: Vec<char> = fds.chars().collect();
                    let frac: String = (0..fl).map(|i| fp[i % fp.len()]).collect();
                    let s = format!("{units}.{frac}");
                    check_parse(&run, &s);
                    fam += 1;
                }
            }
        }
    }
    // the exact representability edge: MAX as tokens string, +-1 atto
    let max = Dec::u256_max();
    for d in [max.clone(), max.sub(&Dec::from_u64(1)).unwrap(), max.add(&Dec::from_u64(1)), max.add(&Dec::from_u64(1).mul_pow10(18))] {
        let (hi, lo) = d.split_pow10(18);
        check_parse(&run, &format!("{}.{}", hi.to_string(), lo));
        check_parse(&run, &hi.to_string());
        fam += 2;
    }
    // long fractions: every length 1..=600 (across the 8-, 16- and 32-bit wrap-around points of a digit count), with the
    // significant digit at the end, in the middle, and all nines; with a small and a large whole part
    for fl in 1..=600usize {
        for units in ["0", "1", "115792089237316195423570985008687907853269984665640564039457"] {
            let zeros = "0".repeat(fl - 1);
            for s in [format!("{units}.{zeros}5"), format!("{units}.{}7{}", "0".repeat(fl / 2), "0".repeat(fl - fl / 2 - 1).replacen('0', "3", 1)), format!("{units}.{}", "9".repeat(fl))] {
                check_parse(&run, &s);
                fam += 1;
            }
        }
    }
    run.extra("structured_strings", json!(fam));
    run.sample(json!({"from_str": format!("{}.{}", max.split_pow10(18).0.to_string(), max.split_pow10(18).1)}));

    // 3. display / round trip over the boundary amounts
    let amounts = boundary_amounts(!run.quick());
    for d in &amounts {
        check_display(&run, d);
    }
    run.extra("boundary_amounts", json!(amounts.len()));
    run.sample(json!({"display_of_atto": "1"}));

    // 4. checked_add / checked_sub over all ordered pairs of a boundary subset
    let mut set: Vec<Dec> = vec![];
    {
        let one = Dec::from_u64(1);
        let mut push = |d: Dec| {
            if d.le(&max) && !set.contains(&d) {
                set.push(d)
            }
        };
        push(Dec::zero());
        push(one.clone());
        push(Dec::from_u64(2));
        for k in [63u32, 64, 65, 127, 128, 129, 191, 192, 193, 254, 255] {
            let b = Dec::pow2(k);
            push(b.clone());
            push(b.add(&one));
            push(b.sub(&one).unwrap());
        }
        push(max.clone());
        push(max.sub(&one).unwrap());
        push(max.sub(&Dec::from_u64(2)).unwrap());
        push(Dec::from_u64(1).mul_pow10(18));
        push(Dec::from_u64(1).mul_pow10(77));
        if !run.quick() {
            for k in 0..=255u32 {
                push(Dec::pow2(k));
                push(Dec::pow2(k).sub(&one).unwrap());
            }
        }
    }
    let mut pairs = 0u64;
    for x in &set {
        for y in &set {
            let (a, b) = (amount_of(x).unwrap(), amount_of(y).unwrap());
            run.case(format!("pair:{}:{}", x.to_string(), y.to_string()).as_bytes(), true);
            pairs += 1;
            let sum = x.add(y);
            let want_add = if sum.le(&max) { amount_of(&sum) } else { None };
            match catch(|| a.checked_add(b)) {
                Err(p) => run.violation("no-panic", "checked_add", format!("checked_add panicked: {p}"), json!({"op":"add","a":x.to_string(),"b":y.to_string()})),
                Ok(got) if got != want_add => run.violation(
                    "checked-arith",
                    "add",
                    format!("{} + {} gave {:?}, exact answer {:?}", x.to_string(), y.to_string(), got.map(|g| dec_of(&g).to_string()), want_add.map(|g| dec_of(&g).to_string())),
                    json!({"op":"add","a":x.to_string(),"b":y.to_string()}),
                ),
                _ => {}
            }
            let want_sub = x.sub(y).and_then(|d| amount_of(&d));
            match catch(|| a.checked_sub(b)) {
                Err(p) => run.violation("no-panic", "checked_sub", format!("checked_sub panicked: {p}"), json!({"op":"sub","a":x.to_string(),"b":y.to_string()})),
                Ok(got) if got != want_sub => run.violation(
                    "checked-arith",
                    "sub",
                    format!("{} - {} gave {:?}, exact answer {:?}", x.to_string(), y.to_string(), got.map(|g| dec_of(&g).to_string()), want_sub.map(|g| dec_of(&g).to_string())),
                    json!({"op":"sub","a":x.to_string(),"b":y.to_string()}),
                ),
                _ => {}
            }
        }
    }
    run.extra("arith_pairs", json!(pairs));
    run.sample(json!({"checked_add": ["2^256-1", "1"]}));
    run.finish();
}

/// Re-execute one recorded witness on the real code, outside the explorer.
pub fn replay(w: &serde_json::Value) {
    let run = Run::new("C16", "exploration", Some("quick"));
    match w["op"].as_str().unwrap_or("") {
        "from_str" => {
            let s = w["input"].as_str().unwrap_or("");
            println!("from_str({s:?}) = {:?}", catch(|| AttoTokens::from_str(s)));
            check_parse(&run, s);
        }
        "display" | "roundtrip" => {
            let d = Dec::parse(w["atto"].as_str().unwrap_or("0")).unwrap_or(Dec::zero());
            if let Some(a) = amount_of(&d) {
                println!("display({}) = {:?}", d.to_string(), catch(|| format!("{a}")));
            }
            check_display(&run, &d);
        }
        other => println!("C16 replay: op {other:?} is re-run by the full check only"),
    }
    run.finish();
}
