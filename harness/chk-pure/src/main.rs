//! vcheck-pure <ID> [quick|thorough]  — checks that need no source hooks.
mod c06;
mod c12;
mod c13;
mod c16;
mod c17;
mod c18;
mod c18fs;
mod c19;
mod c20;
mod wallet;
mod refnum;

fn real_main() {
    let args: Vec<String> = std::env::args().collect();
    let id = args.get(1).map(|s| s.as_str()).unwrap_or("");
    let tier = args.get(2).map(|s| s.as_str());
    if id == "replay" {
        let path = args.get(2).expect("replay <file>");
        let v: serde_json::Value = serde_json::from_str(&std::fs::read_to_string(path).expect("read replay file")).expect("json");
        let w = &v["witness"];
        match v["property"].as_str().unwrap_or("") {
            "C06" => c06::replay(w),
            "C12" => c12::replay(w),
            "C13" => c13::replay(w),
            "C16" => c16::replay(w),
            "C17" => c17::replay(w),
            other => {
                eprintln!("no replay for {other}");
                std::process::exit(2)
            }
        }
        return;
    }
    match id {
        "C06" => c06::main(tier),
        "C12" => c12::main(tier),
        "C13" => c13::main(tier),
        "C16" => c16::main(tier),
        "C17" => c17::main(tier),
        "C18" => c18::main(tier),
        "C19" => c19::main(tier),
        "C20" => c20::main(tier),
        _ => {
            eprintln!("usage: vcheck-pure <C16|...> [quick|thorough]");
            std::process::exit(2);
        }
    }
}

fn main() {
    // logging is part of the environment: with a subscriber installed the arguments of the code's log lines are evaluated
    mc_core::logging::install();
    // a panic of the harness itself is a machinery failure (exit 2, no verdict), never a verdict about the property
    let id = std::env::args().nth(1).unwrap_or_default();
    if let Err(p) = std::panic::catch_unwind(real_main) {
        let msg = p.downcast_ref::<&str>().map(|s| s.to_string()).or_else(|| p.downcast_ref::<String>().cloned()).unwrap_or_else(|| "panic".into());
        println!("MACHINERY-ERROR property={id} the harness panicked: {msg}");
        mc_core::remove_scratch_root();
        std::process::exit(2);
    }
}
