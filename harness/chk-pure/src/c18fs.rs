//! Runs the `vcheck-fs` binary (C18 F1: interleavings of concurrent cache flushers) and folds its
//! result into the C18 run.
use mc_core::Run;

pub fn run_fs_interleavings(run: &Run) {
    let exe = std::env::current_exe().ok().and_then(|p| p.parent().map(|d| d.join("vcheck-fs")));
    let Some(exe) = exe.filter(|p| p.exists()) else {
        run.machinery_error("vcheck-fs binary not found next to vcheck-pure (build the whole workspace)");
    };
    let out = std::process::Command::new(&exe).arg(if run.quick() { "quick" } else { "thorough" }).env("VERIF_ROOT", &run.root).output();
    let out = match out {
        Ok(o) => o,
        Err(e) => run.machinery_error(&format!("cannot run vcheck-fs: {e}")),
    };
    let text = String::from_utf8_lossy(&out.stdout).to_string();
    let summary = text.lines().find_map(|l| l.strip_prefix("FS-SUMMARY ")).and_then(|j| serde_json::from_str::<serde_json::Value>(j).ok());
    let Some(summary) = summary else {
        run.machinery_error(&format!("vcheck-fs produced no summary (exit {:?}): {}", out.status.code(), text.chars().take(400).collect::<String>()));
    };
    let schedules: u64 = summary["configs"].as_array().map(|a| a.iter().map(|c| c["schedules"].as_u64().unwrap_or(0)).sum()).unwrap_or(0);
    run.count("schedules", schedules);
    run.count("transitions", schedules);
    run.count("traces_validated_against_impl", schedules);
    let mut brief = summary.clone();
    if let Some(m) = brief.as_object_mut() {
        m.remove("found");
    }
    run.extra("fs_interleavings", brief);
    println!("[C18] fs interleavings: {}", { let mut b = summary.clone(); if let Some(m) = b.as_object_mut() { m.remove("found"); } b });
    if summary["configs"].as_array().map(|a| a.iter().any(|c| c["capped"] == true)).unwrap_or(false) {
        run.cap_hit("fs interleavings stopped by a cap");
    }
    let found = summary["found"].as_array().cloned().unwrap_or_default();
    for v in &found {
        run.violation(
            v["clause"].as_str().unwrap_or("file-always-loads"),
            v["trigger"].as_str().unwrap_or("?"),
            format!("fs interleavings: {}", v["what"].as_str().unwrap_or("")),
            serde_json::json!({"engine": "fs-interleaving (vcheck-fs)", "witness": v["witness"]}),
        );
    }
    match out.status.code() {
        Some(0) if found.is_empty() => {}
        Some(1) if !found.is_empty() => {}
        other => run.machinery_error(&format!(
            "vcheck-fs exit status {other:?} does not agree with the {} violation(s) it reported: {}",
            found.len(),
            String::from_utf8_lossy(&out.stderr).chars().take(400).collect::<String>()
        )),
    }
}
