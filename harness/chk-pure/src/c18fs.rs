//! Runs the `vcheck-fs` binary (C18 F1: interleavings of concurrent cache flushers) and folds its
//! result into the C18 run.
use mc_core::Run;

pub fn run_fs_interleavings(run: &Run) {
    let exe = std::env::current_exe().ok().and_then(|p| p.parent().map(|d| d.join("vcheck-fs")));
    let Some(exe) = exe.filter(|p| p.exists()) else {
        run.machinery_error("vcheck-fs binary not found next to vcheck-pure (build the whole workspace)");
    };
    let out = std::process::Command::new(&exe).arg(if run.quick() { "quick" } else { "thorough" }).env("VERIF_ROOT", &run.root).output();
    let out = match out {
        Ok(o) => o,
        Err(e) => run.machinery_error(&format!("cannot run vcheck-fs: {e}")),
    };
    let text = String::from_utf8_lossy(&out.stdout).to_string();
    let summary = text.lines().find_map(|l| l.strip_prefix("FS-SUMMARY ")).and_then(|j| serde_json::from_str::<serde_json::Value>(j).ok());
    let Some(summary) = summary else {
        run.machinery_error(&format!("vcheck-fs produced no summary (exit {:?}): {}", out.status.code(), text.chars().take(400).collect::<String>()));
    };
    let schedules: u64 = summary["configs"].as_array().map(|a| a.iter().map(|c| c["schedules"].as_u64().unwrap_or(0)).sum()).unwrap_or(0);
    run.count("schedules", schedules);
    run.count("transitions", schedules);
    run.count("traces_validated_against_impl", schedules);
    run.extra("fs_interleavings", summary.clone());
    println!("[C18] fs interleavings: {summary}");
    if summary["configs"].as_array().map(|a| a.iter().any(|c| c["capped"] == true)).unwrap_or(false) {
        run.cap_hit("fs interleavings stopped by a cap");
    }
    match out.status.code() {
        Some(0) => {}
        Some(1) => {
            // re-report its violations under C18
            for l in text.lines() {
                if let Some(rest) = l.trim().strip_prefix("clause=") {
                    let mut it = rest.splitn(3, ' ');
                    let clause = it.next().unwrap_or("file-always-loads");
                    let trig = it.next().unwrap_or("trigger=?").trim_start_matches("trigger=");
                    run.violation(clause, trig, l.trim().to_string(), serde_json::json!({"engine":"fs-interleaving","see":"replays/C18-fs-*.json"}));
                }
            }
        }
        other => run.machinery_error(&format!("vcheck-fs failed (exit {other:?}): {}", String::from_utf8_lossy(&out.stderr).chars().take(400).collect::<String>())),
    }
}
