//! C13 — payment quotes are bound to their signer and to every signed field.
//! Exhaustive enumeration of field-mutation subsets x signature provenance x claimed identity on the
//! real `PaymentQuote` / `ProofOfPayment`, against an oracle that knows how each case was built.
use ant_evm::{EncodedPeerId, PaymentQuote, ProofOfPayment, QuotingMetrics, RewardsAddress, QUOTE_EXPIRATION_SECS};
use libp2p::identity::Keypair;
use libp2p::PeerId;
use mc_core::{catch, enumerate, Run};
use serde_json::json;
use std::time::{Duration, SystemTime};
use xor_name::XorName;

fn base_metrics() -> QuotingMetrics {
    QuotingMetrics { close_records_stored: 10, max_records: 100, received_payment_count: 3, live_time: 50, network_density: Some([7u8; 32]), network_size: Some(1000) }
}

fn sign(kp: &Keypair, q: &PaymentQuote) -> Vec<u8> {
    kp.sign(&q.bytes_for_sig()).expect("sign")
}

fn base_quote(kp: &Keypair, ts: SystemTime) -> PaymentQuote {
    let mut q = PaymentQuote {
        content: XorName([0x11; 32]),
        timestamp: ts,
        quoting_metrics: base_metrics(),
        rewards_address: RewardsAddress::from([0x22u8; 20]),
        pub_key: kp.public().encode_protobuf(),
        signature: vec![],
    };
    q.signature = sign(kp, &q);
    q
}

const FIELD_MUTS: [&str; 10] = [
    "content",
    "timestamp+1s",
    "timestamp-1s",
    "close_records_stored",
    "max_records",
    "received_payment_count",
    "live_time",
    "network_density",
    "network_size",
    "rewards_address",
];

fn apply_field(q: &mut PaymentQuote, i: usize) {
    match i {
        0 => q.content = XorName([0x12; 32]),
        1 => q.timestamp += Duration::from_secs(1),
        2 => q.timestamp -= Duration::from_secs(3), // combined with +1s still differs from the original
        3 => q.quoting_metrics.close_records_stored += 1,
        4 => q.quoting_metrics.max_records += 1,
        5 => q.quoting_metrics.received_payment_count += 1,
        6 => q.quoting_metrics.live_time += 1,
        7 => q.quoting_metrics.network_density = None,
        8 => q.quoting_metrics.network_size = Some(1001),
        9 => q.rewards_address = RewardsAddress::from([0x23u8; 20]),
        _ => unreachable!(),
    }
}

#[derive(Clone, Copy, Debug, PartialEq)]
enum Sig {
    Original,
    ByKeyOwnerOverCurrent,
    ByOtherOverCurrent,
    FromAnotherQuote,
    Empty,
    Truncated,
    OneBitFlipped,
}
const SIGS: [Sig; 7] = [Sig::Original, Sig::ByKeyOwnerOverCurrent, Sig::ByOtherOverCurrent, Sig::FromAnotherQuote, Sig::Empty, Sig::Truncated, Sig::OneBitFlipped];

fn quote_mutations(run: &Run) {
    let ids = [rigs::fixtures::ed_keypair(1), rigs::fixtures::ed_keypair(2), rigs::fixtures::ed_keypair(3)];
    let peers: Vec<PeerId> = ids.iter().map(|k| PeerId::from(k.public())).collect();
    let ts = SystemTime::now() - Duration::from_secs(30);
    let orig = base_quote(&ids[0], ts);
    let other_quote = {
        let mut q = orig.clone();
        q.content = XorName([0x77; 32]);
        q.signature = sign(&ids[0], &q);
        q
    };
    let orig_hash = orig.hash();
    let masks = enumerate::subsets(FIELD_MUTS.len(), 0, if run.quick() { 3 } else { FIELD_MUTS.len() });
    // pub_key variants: 0 = n1 (original), 1 = n2, 2 = garbage bytes, 3 = empty
    for mask in &masks {
        let mut q0 = orig.clone();
        for i in 0..FIELD_MUTS.len() {
            if mask & (1 << i) != 0 {
                apply_field(&mut q0, i);
            }
        }
        let fields_changed = *mask != 0;
        // hash sensitivity: any change of a signed field changes the hash
        if fields_changed {
            let h = q0.hash();
            run.case(format!("hash:{mask}").as_bytes(), true);
            if h == orig_hash {
                run.violation("hash-covers-fields", "same-hash", format!("hash() unchanged after mutating fields {:?}", mask_names(*mask)), json!({"op":"hash","mask":mask}));
            }
        }
        for key_variant in 0..4usize {
            for sig in SIGS {
                let mut q = q0.clone();
                let key_owner: Option<usize> = match key_variant {
                    0 => Some(0),
                    1 => {
                        q.pub_key = ids[1].public().encode_protobuf();
                        Some(1)
                    }
                    2 => {
                        q.pub_key = vec![0xde, 0xad, 0xbe, 0xef];
                        None
                    }
                    _ => {
                        q.pub_key = vec![];
                        None
                    }
                };
                // signature, with its provenance: (signer, covers current tuple?)
                let (signer, covers_current): (Option<usize>, bool) = match sig {
                    Sig::Original => (Some(0), !fields_changed),
                    Sig::ByKeyOwnerOverCurrent => match key_owner {
                        Some(k) => {
                            q.signature = sign(&ids[k], &q);
                            (Some(k), true)
                        }
                        None => continue,
                    },
                    Sig::ByOtherOverCurrent => {
                        q.signature = sign(&ids[2], &q);
                        (Some(2), true)
                    }
                    Sig::FromAnotherQuote => {
                        q.signature = other_quote.signature.clone();
                        (Some(0), false)
                    }
                    Sig::Empty => {
                        q.signature = vec![];
                        (None, false)
                    }
                    Sig::Truncated => {
                        q.signature.truncate(63);
                        (None, false)
                    }
                    Sig::OneBitFlipped => {
                        q.signature[10] ^= 1;
                        (None, false)
                    }
                };
                for (ci, claimed) in peers.iter().enumerate().take(2) {
                    let expected = key_owner == Some(ci) && signer == key_owner && covers_current;
                    let desc = json!({"op":"verify","mutated_fields": mask_names(*mask), "mask": mask, "pub_key": (["n1","n2","garbage","empty"][key_variant]), "signature": format!("{sig:?}"), "claimed": format!("n{}", ci+1)});
                    run.case(desc.to_string().as_bytes(), fields_changed || key_variant != 0 || sig != Sig::Original || ci != 0);
                    match catch(|| q.check_is_signed_by_claimed_peer(*claimed)) {
                        Err(p) => run.violation("no-panic", "check_is_signed_by_claimed_peer", format!("panicked: {p}"), desc.clone()),
                        Ok(got) => {
                            run.outcome(format!("verify:{got}").as_bytes());
                            if got != expected {
                                let trig = if got { "accepts-altered" } else { "rejects-authentic" };
                                run.violation("quote-verification", trig, format!("check_is_signed_by_claimed_peer = {got}, expected {expected} for {desc}"), desc.clone());
                            }
                        }
                    }
                    // peer_id() must agree with the key bytes
                    if let Ok(r) = catch(|| q.peer_id()) {
                        let want = key_owner.map(|k| peers[k]);
                        if r.as_ref().ok() != want.as_ref() {
                            run.violation("quote-verification", "peer_id", format!("peer_id() = {r:?}, key belongs to {want:?}"), desc.clone());
                        }
                    }
                }
            }
        }
    }
    run.sample(json!({"verify": {"mutated_fields": ["rewards_address"], "pub_key": "n1", "signature": "Original", "claimed": "n1", "expected": false}}));
    // sub-second timestamp change: reported, not judged (the signature covers whole seconds)
    let mut q = orig.clone();
    q.timestamp += Duration::from_nanos(1);
    let sub = q.check_is_signed_by_claimed_peer(peers[0]);
    run.extra("subsecond_timestamp_change_still_verifies", json!(sub));
}

fn mask_names(mask: u32) -> Vec<&'static str> {
    (0..FIELD_MUTS.len()).filter(|i| mask & (1 << i) != 0).map(|i| FIELD_MUTS[i]).collect()
}

#[derive(Clone, Copy, Debug, PartialEq)]
enum Entry {
    Valid(usize),
    /// signed by n1 (with n1's key) but listed under n2
    N1ListedUnderN2,
    /// n1's key, signature over another quote
    Forged,
    /// undecodable encoded peer id, otherwise a valid n1 quote
    BadPeerId,
}

fn proofs(run: &Run) {
    let ids = [rigs::fixtures::ed_keypair(1), rigs::fixtures::ed_keypair(2), rigs::fixtures::ed_keypair(3)];
    let peers: Vec<PeerId> = ids.iter().map(|k| PeerId::from(k.public())).collect();
    let ts = SystemTime::now() - Duration::from_secs(30);
    let alphabet = [Entry::Valid(0), Entry::Valid(1), Entry::N1ListedUnderN2, Entry::Forged, Entry::BadPeerId];
    let bad_id: EncodedPeerId = rmp_serde::from_slice(&rmp_serde::to_vec(&vec![1u8, 2, 3]).unwrap()).expect("EncodedPeerId is a newtype over bytes");
    let max = if run.quick() { 3 } else { 4 };
    enumerate::sequences(&alphabet, max, |seq| {
        let mut peer_quotes = vec![];
        let mut all_valid = true;
        let mut listed: Vec<PeerId> = vec![];
        for e in seq {
            match e {
                Entry::Valid(k) => {
                    peer_quotes.push((EncodedPeerId::from(peers[*k]), base_quote(&ids[*k], ts)));
                    listed.push(peers[*k]);
                }
                Entry::N1ListedUnderN2 => {
                    peer_quotes.push((EncodedPeerId::from(peers[1]), base_quote(&ids[0], ts)));
                    listed.push(peers[1]);
                    all_valid = false;
                }
                Entry::Forged => {
                    let mut q = base_quote(&ids[0], ts);
                    q.content = XorName([0x99; 32]);
                    peer_quotes.push((EncodedPeerId::from(peers[0]), q));
                    listed.push(peers[0]);
                    all_valid = false;
                }
                Entry::BadPeerId => {
                    peer_quotes.push((bad_id.clone(), base_quote(&ids[0], ts)));
                    all_valid = false;
                }
            }
        }
        let proof = ProofOfPayment { peer_quotes };
        for (pi, p) in peers.iter().enumerate() {
            let expected = listed.contains(p) && all_valid;
            let desc = json!({"op":"verify_for","entries": seq.iter().map(|e| format!("{e:?}")).collect::<Vec<_>>(), "node": format!("n{}", pi+1)});
            run.case(desc.to_string().as_bytes(), !seq.is_empty());
            match catch(|| proof.verify_for(*p)) {
                Err(pn) => run.violation("no-panic", "verify_for", format!("panicked: {pn}"), desc),
                Ok(got) => {
                    run.outcome(format!("verify_for:{got}").as_bytes());
                    if got != expected {
                        let trig = if got { "accepts-bad-proof" } else { "rejects-good-proof" };
                        run.violation("proof-verification", trig, format!("verify_for = {got}, expected {expected} for {desc}"), desc);
                    }
                }
            }
        }
        // payees() lists exactly the decodable listed ids, in order
        if let Ok(py) = catch(|| proof.payees()) {
            if py != listed {
                run.violation("proof-verification", "payees", format!("payees() = {py:?}, listed = {listed:?}"), json!({"op":"payees","entries": seq.iter().map(|e| format!("{e:?}")).collect::<Vec<_>>()}));
            }
        }
    });
    run.sample(json!({"verify_for": {"entries": ["Valid(0)", "N1ListedUnderN2"], "node": "n1", "expected": false}}));
}

fn expiry(run: &Run) {
    let kp = rigs::fixtures::ed_keypair(1);
    let w = QUOTE_EXPIRATION_SECS;
    // offsets in seconds relative to now (positive = in the past); >= 10 s away from both edges
    let cases: Vec<(i64, bool)> = vec![
        (-3600, true),
        (-60, true),
        (-10, true),
        (10, false),
        (60, false),
        (w as i64 / 2, false),
        (w as i64 - 10, false),
        (w as i64 + 10, true),
        (2 * w as i64, true),
        (10 * w as i64, true),
    ];
    for (off, expect) in &cases {
        let now = SystemTime::now();
        let ts = if *off >= 0 { now - Duration::from_secs(*off as u64) } else { now + Duration::from_secs((-*off) as u64) };
        let q = base_quote(&kp, ts);
        let desc = json!({"op":"has_expired","age_secs": off});
        run.case(desc.to_string().as_bytes(), true);
        match catch(|| q.has_expired()) {
            Err(p) => run.violation("no-panic", "has_expired", format!("panicked: {p}"), desc),
            Ok(got) => {
                run.outcome(format!("expired:{got}").as_bytes());
                if got != *expect {
                    run.violation("expiry", if got { "fresh-reported-expired" } else { "stale-reported-fresh" }, format!("quote aged {off}s: has_expired = {got}, expected {expect}"), desc);
                }
            }
        }
        // a proof is expired iff any quote in it is: pair every case with a fresh quote, both orders
        let fresh = base_quote(&kp, SystemTime::now() - Duration::from_secs(20));
        for order in 0..2 {
            let qs = if order == 0 { vec![q.clone(), fresh.clone()] } else { vec![fresh.clone(), q.clone()] };
            let proof = ProofOfPayment { peer_quotes: qs.into_iter().map(|q| (EncodedPeerId::from(PeerId::from(kp.public())), q)).collect() };
            let d2 = json!({"op":"proof.has_expired","age_secs": off, "order": order});
            run.case(d2.to_string().as_bytes(), true);
            if let Ok(got) = catch(|| proof.has_expired()) {
                if got != *expect {
                    run.violation("expiry", "proof-expiry", format!("proof with a quote aged {off}s: has_expired = {got}, expected {expect}"), d2);
                }
            }
        }
    }
    run.assume("no clock seam: the 3600 s expiry edge is bracketed at +-10 s, not hit exactly");
}

fn historical(run: &Run) {
    let kp = rigs::fixtures::ed_keypair(1);
    let lives = [0u64, 10, 100];
    let counts = [0usize, 1, 5];
    let now = SystemTime::now();
    // (earlier, later) timestamps relative to now: both past; the later one ahead of the clock; both ahead of the clock
    let stamps = [
        ("both past", now - Duration::from_secs(400), now - Duration::from_secs(100)),
        ("later one in the future", now - Duration::from_secs(100), now + Duration::from_secs(300)),
        ("both in the future", now + Duration::from_secs(100), now + Duration::from_secs(400)),
    ];
    for (when, t_old, t_new) in stamps {
    for lo in lives {
        for ln in lives {
            for co in counts {
                for cn in counts {
                    let mut older = base_quote(&kp, t_old);
                    older.quoting_metrics.live_time = lo;
                    older.quoting_metrics.received_payment_count = co;
                    let mut newer = base_quote(&kp, t_new);
                    newer.quoting_metrics.live_time = ln;
                    newer.quoting_metrics.received_payment_count = cn;
                    let inconsistent = ln < lo || cn < co;
                    for order in 0..2 {
                        let desc = json!({"op":"historical_verify","timestamps":when,"older":{"live":lo,"payments":co},"newer":{"live":ln,"payments":cn},"receiver": if order==0 {"older"} else {"newer"}});
                        run.case(desc.to_string().as_bytes(), true);
                        let r = catch(|| if order == 0 { older.historical_verify(&newer) } else { newer.historical_verify(&older) });
                        match r {
                            Err(p) => run.violation("no-panic", "historical_verify", format!("panicked: {p}"), desc),
                            Ok(ok) => {
                                run.outcome(format!("hist:{ok}").as_bytes());
                                if inconsistent && ok {
                                    run.violation("history-consistency", "regress-not-flagged", format!("later quote reports less uptime/payments but was accepted: {desc}"), desc.clone());
                                }
                                // identical metrics, consistent times: must be accepted (sanity against an always-false implementation)
                                if !inconsistent && ln == lo && cn == co && !ok {
                                    run.violation("history-consistency", "equal-flagged", format!("identical metrics flagged as inconsistent: {desc}"), desc);
                                }
                            }
                        }
                    }
                }
            }
        }
    }
    }
}

/// Optional quoting metrics at their boundary: absent / zero / non-zero are three different signed
/// values; changing one into another must break the signature and change the hash.
fn optional_metric_boundaries(run: &Run) {
    let kp = rigs::fixtures::ed_keypair(1);
    let me = PeerId::from(kp.public());
    let ts = SystemTime::now() - Duration::from_secs(30);
    let densities: [Option<[u8; 32]>; 3] = [None, Some([0u8; 32]), Some([7u8; 32])];
    let sizes: [Option<u64>; 3] = [None, Some(0), Some(1000)];
    for (di, d) in densities.iter().enumerate() {
        for (si, s) in sizes.iter().enumerate() {
            let mut base = base_quote(&kp, ts);
            base.quoting_metrics.network_density = *d;
            base.quoting_metrics.network_size = *s;
            base.signature = sign(&kp, &base);
            if !base.check_is_signed_by_claimed_peer(me) {
                run.violation("quote-verification", "rejects-authentic", format!("an authentic quote with density {di} / size {si} does not verify"), json!({"op":"optional-metrics","density":di,"size":si}));
            }
            for (dj, d2) in densities.iter().enumerate() {
                for (sj, s2) in sizes.iter().enumerate() {
                    if (di, si) == (dj, sj) {
                        continue;
                    }
                    let mut q = base.clone();
                    q.quoting_metrics.network_density = *d2;
                    q.quoting_metrics.network_size = *s2;
                    let nm = ["absent", "zero", "nonzero"];
                    let desc = json!({"op":"optional-metrics","from":{"density":(nm[di]),"size":(nm[si])},"to":{"density":(nm[dj]),"size":(nm[sj])}});
                    run.case(desc.to_string().as_bytes(), true);
                    if q.check_is_signed_by_claimed_peer(me) {
                        run.violation("quote-verification", "accepts-altered", format!("changing the optional metrics still verifies: {desc}"), desc.clone());
                    }
                    if q.hash() == base.hash() {
                        run.violation("hash-covers-fields", "same-hash", format!("changing the optional metrics keeps the hash: {desc}"), desc);
                    }
                }
            }
        }
    }
    // integer metrics at zero
    for f in 0..4 {
        let mut base = base_quote(&kp, ts);
        match f {
            0 => base.quoting_metrics.close_records_stored = 0,
            1 => base.quoting_metrics.max_records = 0,
            2 => base.quoting_metrics.received_payment_count = 0,
            _ => base.quoting_metrics.live_time = 0,
        }
        base.signature = sign(&kp, &base);
        let mut q = base.clone();
        match f {
            0 => q.quoting_metrics.close_records_stored = 1,
            1 => q.quoting_metrics.max_records = 1,
            2 => q.quoting_metrics.received_payment_count = 1,
            _ => q.quoting_metrics.live_time = 1,
        }
        run.case(format!("zero-metric:{f}").as_bytes(), true);
        if !base.check_is_signed_by_claimed_peer(me) || q.check_is_signed_by_claimed_peer(me) || q.hash() == base.hash() {
            run.violation("quote-verification", "accepts-altered", format!("integer metric {f}: 0 -> 1 is not detected"), json!({"op":"zero-metric","field":f}));
        }
    }
}

pub fn main(tier: Option<&str>) {
    let run = Run::new("C13", "exploration", tier);
    run.rule(
        "quotes: every subset (<=3 fields quick, all 2^10 thorough) of field mutations x pub_key in {n1,n2,garbage,empty} x signature \
         provenance in 7 variants x claimed identity in {n1,n2}; proofs: every sequence of <=3(4) entries over 5 entry kinds verified \
         for n1,n2,n3; expiry: 10 ages each alone and inside a proof in both positions; history: 3x3x3x3 metric grid x both receivers x 3 timestamp placements (both past, later one ahead of the clock, both ahead); driver layer: every delivery order of every selection of <=3(4) quotes with \
         distinct ages from a pool (4(6) ages, 100 s to 2 h (25 h) old, on both sides of the validity window, x 3 live times x 2 payment counts) through a real SwarmDriver's QuoteVerification handling, the peer's issue list read after every delivery. \
         A case is non-trivial when at least one thing differs from the authentic quote / the proof is non-empty.",
    );
    run.assume("timestamp changes below one second are not judged: the signature covers whole seconds (reported in coverage.subsecond_timestamp_change_still_verifies)");
    run.assume("fixed ed25519 identities n1..n3; one base value per field and one alternative value per field");
    quote_mutations(&run);
    optional_metric_boundaries(&run);
    proofs(&run);
    expiry(&run);
    historical(&run);
    driver_layer(&run);
    run.finish();
}

/// Where the quotes of one peer actually meet: SwarmDriver::verify_peer_quote. Needs the driver rig, so it runs in
/// the vcheck-node binary (chk-node/src/c13d.rs) as a subprocess; its cases, counts and violations are re-reported here.
fn driver_layer(run: &Run) {
    let exe = run.root.join("harness/target/verif/vcheck-node");
    if !exe.exists() {
        run.machinery_error("harness/target/verif/vcheck-node is missing: bin/check C13 builds it");
    }
    let out = match std::process::Command::new(&exe).arg("C13-driver").arg(if run.quick() { "quick" } else { "thorough" }).env("VERIF_ROOT", &run.root).output() {
        Ok(o) => o,
        Err(e) => run.machinery_error(&format!("cannot run the driver layer: {e}")),
    };
    let text = String::from_utf8_lossy(&out.stdout).to_string();
    let summary = text.lines().find_map(|l| l.strip_prefix("C13D-SUMMARY ")).and_then(|j| serde_json::from_str::<serde_json::Value>(j).ok());
    let Some(summary) = summary else {
        run.machinery_error(&format!("the driver layer produced no summary (exit {:?}): {}", out.status.code(), String::from_utf8_lossy(&out.stderr).chars().take(400).collect::<String>()));
    };
    let n = summary["sequences"].as_u64().unwrap_or(0);
    if n == 0 {
        run.machinery_error("the driver layer explored nothing");
    }
    for i in 0..n {
        run.case(format!("driver-layer sequence {i}").as_bytes(), true);
    }
    run.count("driver_layer_deliveries", summary["deliveries"].as_u64().unwrap_or(0));
    let mut brief = summary.clone();
    brief.as_object_mut().map(|m| m.remove("violations"));
    run.extra("driver_layer", brief);
    let n_child = summary["violations"].as_array().map(|a| a.len()).unwrap_or(0);
    if !matches!(out.status.code(), Some(0) | Some(1)) || (out.status.code() == Some(1)) != (n_child > 0) {
        run.machinery_error(&format!("the driver layer's exit status {:?} does not agree with the {n_child} violation(s) it reported", out.status.code()));
    }
    for v in summary["violations"].as_array().cloned().unwrap_or_default() {
        run.violation(
            v["clause"].as_str().unwrap_or("inconsistent-history-flagged"),
            v["trigger"].as_str().unwrap_or("?"),
            format!("driver layer: {}", v["what"].as_str().unwrap_or("")),
            json!({"engine": "driver layer (vcheck-node C13-driver)", "witness": v["witness"]}),
        );
    }
}

pub fn replay(w: &serde_json::Value) {
    println!("C13 replay: re-running the family of witness {w}");
    let run = Run::new("C13", "exploration", Some("thorough"));
    match w["op"].as_str().unwrap_or("") {
        "verify" | "hash" => quote_mutations(&run),
        "verify_for" | "payees" => proofs(&run),
        "has_expired" | "proof.has_expired" => expiry(&run),
        _ => historical(&run),
    }
    run.finish();
}
