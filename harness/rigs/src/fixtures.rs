//! Deterministic fixtures: fixed BLS keys, fixed ed25519 identities, fabricated records.
use ant_protocol::storage::{Scratchpad, ScratchpadAddress};
use bls::{PublicKey, SecretKey, Signature};
use bytes::Bytes;
use libp2p::{identity::Keypair, PeerId};
use serde::{Deserialize, Serialize};
use xor_name::XorName;

/// Fixed BLS secret key number `n` (n >= 1).
pub fn bls_sk(n: u8) -> SecretKey {
    let mut b = [0u8; 32];
    b[31] = n;
    b[30] = 0x5a;
    SecretKey::from_bytes(b).expect("fixed bls key")
}

/// Fixed ed25519 identity number `n`.
pub fn ed_keypair(n: u8) -> Keypair {
    let mut seed = [0u8; 32];
    seed[0] = n;
    seed[31] = 0xa7;
    Keypair::ed25519_from_bytes(seed).expect("fixed ed25519 key")
}

pub fn peer_id(n: u8) -> PeerId {
    PeerId::from(ed_keypair(n).public())
}

/// Same serde layout as `ant_protocol::storage::Scratchpad` (rmp encodes structs as arrays, so
/// only field order matters). Used to fabricate scratchpads the public API cannot build
/// (arbitrary counters, missing/foreign signatures, fixed ciphertext bytes).
#[derive(Serialize, Deserialize, Clone, Debug)]
pub struct ScratchpadMirror {
    pub address: ScratchpadAddress,
    pub data_encoding: u64,
    pub encrypted_data: Bytes,
    pub counter: u64,
    pub signature: Option<Signature>,
}

impl ScratchpadMirror {
    pub fn signing_bytes(counter: u64, encrypted_data: &[u8]) -> Vec<u8> {
        let mut b = counter.to_be_bytes().to_vec();
        b.extend(XorName::from_content(encrypted_data).to_vec());
        b
    }
    /// A scratchpad owned by `owner`, with `counter`, payload `data`, signed by `signer` (None = unsigned).
    pub fn build(owner: PublicKey, counter: u64, data: &[u8], signer: Option<&SecretKey>) -> Scratchpad {
        let sig = signer.map(|sk| sk.sign(Self::signing_bytes(counter, data)));
        Self { address: ScratchpadAddress::new(owner), data_encoding: 0, encrypted_data: Bytes::copy_from_slice(data), counter, signature: sig }
            .into_real()
    }
    pub fn into_real(self) -> Scratchpad {
        let bytes = rmp_serde::to_vec(&self).expect("mirror serialises");
        rmp_serde::from_slice(&bytes).expect("mirror layout matches Scratchpad")
    }
    pub fn from_real(s: &Scratchpad) -> ScratchpadMirror {
        let bytes = rmp_serde::to_vec(s).expect("scratchpad serialises");
        rmp_serde::from_slice(&bytes).expect("mirror layout matches Scratchpad")
    }
}
