//! Independent references written from the property text.
use sha2::{Digest, Sha256};

/// 256-bit big-endian unsigned integer as 32 bytes; ordering = lexicographic byte order.
pub type U256Be = [u8; 32];

/// XOR of the SHA-256 digests of two byte strings, read as a 256-bit big-endian integer.
pub fn xor_distance(a: &[u8], b: &[u8]) -> U256Be {
    let ha = Sha256::digest(a);
    let hb = Sha256::digest(b);
    let mut out = [0u8; 32];
    for i in 0..32 {
        out[i] = ha[i] ^ hb[i];
    }
    out
}
