//! Builders for records, quotes and proofs of payment used by the node/client rigs.
use crate::fixtures::{bls_sk, ed_keypair, peer_id, ScratchpadMirror};
use ant_evm::{EncodedPeerId, PaymentQuote, ProofOfPayment, QuotingMetrics, RewardsAddress};
use ant_protocol::storage::{try_serialize_record, Chunk, RecordKind, Scratchpad, Transaction};
use ant_protocol::NetworkAddress;
use ant_registers::{Permissions, Register, RegisterCrdt, RegisterOp, SignedRegister};
use bytes::Bytes;
use libp2p::kad::{Record, RecordKey};
use std::collections::BTreeSet;
use std::time::SystemTime;
use xor_name::XorName;

pub fn quote(signer: u8, content: XorName, ts: SystemTime) -> PaymentQuote {
    let kp = ed_keypair(signer);
    let mut q = PaymentQuote {
        content,
        timestamp: ts,
        quoting_metrics: QuotingMetrics { close_records_stored: 3, max_records: 16384, received_payment_count: 1, live_time: 10, network_density: None, network_size: Some(100) },
        rewards_address: RewardsAddress::from([signer; 20]),
        pub_key: kp.public().encode_protobuf(),
        signature: vec![],
    };
    q.signature = kp.sign(&q.bytes_for_sig()).expect("sign quote");
    q
}

/// A quote by `signer` that reports the given uptime and payment count, signed over exactly that.
pub fn quote_reporting(signer: u8, content: XorName, ts: SystemTime, live_time: u64, payments: usize) -> PaymentQuote {
    let kp = ed_keypair(signer);
    let mut q = quote(signer, content, ts);
    q.quoting_metrics.live_time = live_time;
    q.quoting_metrics.received_payment_count = payments;
    q.signature = kp.sign(&q.bytes_for_sig()).expect("sign quote");
    q
}

pub fn proof(entries: Vec<(u8, PaymentQuote)>) -> ProofOfPayment {
    ProofOfPayment { peer_quotes: entries.into_iter().map(|(p, q)| (EncodedPeerId::from(peer_id(p)), q)).collect() }
}

pub fn record(key: RecordKey, bytes: Bytes) -> Record {
    Record { key, value: bytes.to_vec(), publisher: None, expires: None }
}

pub fn chunk(payload: &[u8]) -> Chunk {
    Chunk::new(Bytes::copy_from_slice(payload))
}
pub fn chunk_key(c: &Chunk) -> RecordKey {
    NetworkAddress::from_chunk_address(*c.address()).to_record_key()
}
pub fn chunk_record(c: &Chunk) -> Record {
    record(chunk_key(c), try_serialize_record(c, RecordKind::Chunk).unwrap())
}
pub fn paid_chunk_record(p: &ProofOfPayment, c: &Chunk) -> Record {
    record(chunk_key(c), try_serialize_record(&(p.clone(), c.clone()), RecordKind::ChunkWithPayment).unwrap())
}

/// scratchpad owned by BLS key `owner`, counter `counter`, signed by `signer` (0 = unsigned)
pub fn pad(owner: u8, counter: u64, payload: &[u8], signer: u8) -> Scratchpad {
    let sk = if signer == 0 { None } else { Some(bls_sk(signer)) };
    ScratchpadMirror::build(bls_sk(owner).public_key(), counter, payload, sk.as_ref())
}
pub fn pad_key(s: &Scratchpad) -> RecordKey {
    NetworkAddress::ScratchpadAddress(*s.address()).to_record_key()
}
pub fn pad_record(s: &Scratchpad) -> Record {
    record(pad_key(s), try_serialize_record(s, RecordKind::Scratchpad).unwrap())
}
pub fn paid_pad_record(p: &ProofOfPayment, s: &Scratchpad) -> Record {
    record(pad_key(s), try_serialize_record(&(p.clone(), s.clone()), RecordKind::ScratchpadWithPayment).unwrap())
}

/// transaction of BLS owner `owner` with content byte `c`, signed by `signer`
pub fn tx(owner: u8, c: u8, signer: u8) -> Transaction {
    Transaction::new(bls_sk(owner).public_key(), vec![], [c; 32], vec![], &bls_sk(signer))
}
pub fn tx_key(t: &Transaction) -> RecordKey {
    NetworkAddress::from_transaction_address(t.address()).to_record_key()
}
pub fn txs_record(key: RecordKey, ts: &[Transaction]) -> Record {
    record(key, try_serialize_record(&ts.to_vec(), RecordKind::Transaction).unwrap())
}
pub fn paid_tx_record(p: &ProofOfPayment, t: &Transaction) -> Record {
    record(tx_key(t), try_serialize_record(&(p.clone(), t.clone()), RecordKind::TransactionWithPayment).unwrap())
}

/// A register owned by BLS key `owner` (anyone-can-write = false) with the first `n_ops` of a fixed chain of ops.
pub struct RegFixture {
    pub base: SignedRegister,
    pub ops: Vec<RegisterOp>,
    /// an op for this register signed by a key that has no write permission
    pub stranger_op: RegisterOp,
    reg: Register,
    sig: bls::Signature,
}
pub fn reg_fixture(owner: u8, meta: &[u8]) -> RegFixture {
    let sk = bls_sk(owner);
    let reg = Register::new(sk.public_key(), XorName::from_content(meta), Permissions::new_with(vec![]));
    let sig = sk.sign(reg.bytes().unwrap());
    let base = SignedRegister::new(reg.clone(), sig.clone(), BTreeSet::new());
    let mut crdt = RegisterCrdt::new(*reg.address());
    let mut ops = vec![];
    let none = BTreeSet::new();
    for i in 0..3u8 {
        let (_h, addr, d) = crdt.write(vec![i; 4], &none).unwrap();
        ops.push(RegisterOp::new(addr, d, &sk));
    }
    let (_h, addr, d) = crdt.write(vec![9; 4], &none).unwrap();
    let stranger_op = RegisterOp::new(addr, d, &bls_sk(owner.wrapping_add(40)));
    RegFixture { base, ops, stranger_op, reg, sig }
}
impl RegFixture {
    /// A well-formed register (valid owner signature) that carries the given owner ops *and* the stranger's op, built
    /// without going through add_op: it fails verify().
    pub fn with_ops_and_stranger(&self, idx: &[usize]) -> SignedRegister {
        let mut ops: BTreeSet<RegisterOp> = idx.iter().map(|i| self.ops[*i].clone()).collect();
        ops.insert(self.stranger_op.clone());
        SignedRegister::new(self.reg.clone(), self.sig.clone(), ops)
    }
    pub fn with_ops(&self, idx: &[usize]) -> SignedRegister {
        let mut r = self.base.clone();
        for i in idx {
            r.add_op(self.ops[*i].clone()).expect("owner op");
        }
        r
    }
}
pub fn reg_key(r: &SignedRegister) -> RecordKey {
    NetworkAddress::from_register_address(*r.address()).to_record_key()
}
pub fn reg_record(r: &SignedRegister) -> Record {
    record(reg_key(r), try_serialize_record(r, RecordKind::Register).unwrap())
}
pub fn paid_reg_record(p: &ProofOfPayment, r: &SignedRegister) -> Record {
    record(reg_key(r), try_serialize_record(&(p.clone(), r.clone()), RecordKind::RegisterWithPayment).unwrap())
}

pub fn xorname_of_key(k: &RecordKey) -> XorName {
    let mut b = [0u8; 32];
    b.copy_from_slice(&k.as_ref()[..32]);
    XorName(b)
}
