//! Shared fixtures and independent references for the checks.
pub mod fixtures;
pub mod records;
pub mod reference;
