//! vcheck-fs — C18 (F1): several processes flushing one bootstrap cache file, interleaved at the
//! granularity of file-system calls.
//!
//! This binary defines the libc symbols `open`, `openat`, `write`, `fsync`, `renameat`, ... itself
//! (link-time interposition: the statically linked std and the `nix` crate used by
//! `atomic-write-file` bind to these definitions). While a thread is *controlled*, each such call
//! is a scheduling point of a cooperative scheduler; every schedule with at most N preemptions is
//! executed, and after **every** step the real `load_cache_data` must return Ok (or not-found
//! before the first commit), never a parse error.
#![allow(clippy::missing_safety_doc)]
use ant_bootstrap::{BootstrapCacheConfig, BootstrapCacheStore};
use libc::{c_char, c_int, c_uint, c_void, mode_t, off_t, size_t, ssize_t};
use mc_core::sched::{explore, Chooser, SchedOpts};
use mc_core::Run;
use std::cell::Cell;
use std::sync::atomic::{AtomicUsize, Ordering};
use std::sync::{Condvar, Mutex};

// ---------------------------------------------------------------------------------------------
// cooperative scheduler

#[derive(Default)]
struct Sched {
    /// per controlled thread: Some(name of the call it is about to make) when parked at a point
    at_point: Vec<Option<String>>,
    finished: Vec<bool>,
    granted: Option<usize>,
    active: bool,
}

static SCHED: Mutex<Sched> = Mutex::new(Sched { at_point: Vec::new(), finished: Vec::new(), granted: None, active: false });
static CV: Condvar = Condvar::new();
static POINTS_SEEN: AtomicUsize = AtomicUsize::new(0);

thread_local! {
    /// Some(tid) while this thread's file-system calls are scheduling points
    static CONTROLLED: Cell<Option<usize>> = const { Cell::new(None) };
}

fn yield_point(name: &str) {
    let Some(tid) = CONTROLLED.with(|c| c.get()) else { return };
    POINTS_SEEN.fetch_add(1, Ordering::Relaxed);
    let mut g = SCHED.lock().unwrap();
    if !g.active {
        return;
    }
    g.at_point[tid] = Some(name.to_string());
    CV.notify_all();
    while g.granted != Some(tid) {
        g = CV.wait(g).unwrap();
    }
    g.granted = None;
    g.at_point[tid] = None;
}

macro_rules! real {
    ($name:literal, $ty:ty) => {{
        static PTR: AtomicUsize = AtomicUsize::new(0);
        let mut p = PTR.load(Ordering::Relaxed);
        if p == 0 {
            p = unsafe { libc::dlsym(libc::RTLD_NEXT, concat!($name, "\0").as_ptr() as *const c_char) } as usize;
            PTR.store(p, Ordering::Relaxed);
        }
        unsafe { std::mem::transmute::<usize, $ty>(p) }
    }};
}

#[no_mangle]
pub unsafe extern "C" fn open(path: *const c_char, flags: c_int, mode: mode_t) -> c_int {
    yield_point("open");
    real!("open", unsafe extern "C" fn(*const c_char, c_int, mode_t) -> c_int)(path, flags, mode)
}
#[no_mangle]
pub unsafe extern "C" fn open64(path: *const c_char, flags: c_int, mode: mode_t) -> c_int {
    yield_point("open");
    real!("open64", unsafe extern "C" fn(*const c_char, c_int, mode_t) -> c_int)(path, flags, mode)
}
#[no_mangle]
pub unsafe extern "C" fn openat(dirfd: c_int, path: *const c_char, flags: c_int, mode: mode_t) -> c_int {
    yield_point("openat");
    real!("openat", unsafe extern "C" fn(c_int, *const c_char, c_int, mode_t) -> c_int)(dirfd, path, flags, mode)
}
#[no_mangle]
pub unsafe extern "C" fn openat64(dirfd: c_int, path: *const c_char, flags: c_int, mode: mode_t) -> c_int {
    yield_point("openat");
    real!("openat64", unsafe extern "C" fn(c_int, *const c_char, c_int, mode_t) -> c_int)(dirfd, path, flags, mode)
}
#[no_mangle]
pub unsafe extern "C" fn write(fd: c_int, buf: *const c_void, n: size_t) -> ssize_t {
    yield_point("write");
    real!("write", unsafe extern "C" fn(c_int, *const c_void, size_t) -> ssize_t)(fd, buf, n)
}
#[no_mangle]
pub unsafe extern "C" fn read(fd: c_int, buf: *mut c_void, n: size_t) -> ssize_t {
    yield_point("read");
    real!("read", unsafe extern "C" fn(c_int, *mut c_void, size_t) -> ssize_t)(fd, buf, n)
}
#[no_mangle]
pub unsafe extern "C" fn fsync(fd: c_int) -> c_int {
    yield_point("fsync");
    real!("fsync", unsafe extern "C" fn(c_int) -> c_int)(fd)
}
#[no_mangle]
pub unsafe extern "C" fn fdatasync(fd: c_int) -> c_int {
    yield_point("fdatasync");
    real!("fdatasync", unsafe extern "C" fn(c_int) -> c_int)(fd)
}
#[no_mangle]
pub unsafe extern "C" fn rename(a: *const c_char, b: *const c_char) -> c_int {
    yield_point("rename");
    real!("rename", unsafe extern "C" fn(*const c_char, *const c_char) -> c_int)(a, b)
}
#[no_mangle]
pub unsafe extern "C" fn renameat(afd: c_int, a: *const c_char, bfd: c_int, b: *const c_char) -> c_int {
    yield_point("renameat");
    real!("renameat", unsafe extern "C" fn(c_int, *const c_char, c_int, *const c_char) -> c_int)(afd, a, bfd, b)
}
#[no_mangle]
pub unsafe extern "C" fn renameat2(afd: c_int, a: *const c_char, bfd: c_int, b: *const c_char, flags: c_uint) -> c_int {
    yield_point("renameat2");
    real!("renameat2", unsafe extern "C" fn(c_int, *const c_char, c_int, *const c_char, c_uint) -> c_int)(afd, a, bfd, b, flags)
}
#[no_mangle]
pub unsafe extern "C" fn unlink(a: *const c_char) -> c_int {
    yield_point("unlink");
    real!("unlink", unsafe extern "C" fn(*const c_char) -> c_int)(a)
}
#[no_mangle]
pub unsafe extern "C" fn unlinkat(fd: c_int, a: *const c_char, flags: c_int) -> c_int {
    yield_point("unlinkat");
    real!("unlinkat", unsafe extern "C" fn(c_int, *const c_char, c_int) -> c_int)(fd, a, flags)
}
#[no_mangle]
pub unsafe extern "C" fn ftruncate(fd: c_int, len: off_t) -> c_int {
    yield_point("ftruncate");
    real!("ftruncate", unsafe extern "C" fn(c_int, off_t) -> c_int)(fd, len)
}
#[no_mangle]
pub unsafe extern "C" fn ftruncate64(fd: c_int, len: off_t) -> c_int {
    yield_point("ftruncate");
    real!("ftruncate64", unsafe extern "C" fn(c_int, off_t) -> c_int)(fd, len)
}
#[no_mangle]
pub unsafe extern "C" fn fchmod(fd: c_int, mode: mode_t) -> c_int {
    yield_point("fchmod");
    real!("fchmod", unsafe extern "C" fn(c_int, mode_t) -> c_int)(fd, mode)
}
#[no_mangle]
pub unsafe extern "C" fn linkat(afd: c_int, a: *const c_char, bfd: c_int, b: *const c_char, flags: c_int) -> c_int {
    yield_point("linkat");
    real!("linkat", unsafe extern "C" fn(c_int, *const c_char, c_int, *const c_char, c_int) -> c_int)(afd, a, bfd, b, flags)
}

// ---------------------------------------------------------------------------------------------

fn addr(peer: u8, port: u16) -> libp2p::Multiaddr {
    format!("/ip4/10.1.0.{peer}/udp/{port}/quic-v1/p2p/{}", rigs::fixtures::peer_id(peer)).parse().unwrap()
}

#[derive(Clone, Copy, PartialEq)]
enum Role {
    Writer,
    Reader,
}

/// One execution: the roles run as controlled threads against `path`; `ch` picks who runs at every point.
fn one_execution(run: &Run, path: &std::path::Path, roles: &[Role], ch: &mut Chooser, calls_seen: &Mutex<std::collections::BTreeSet<String>>) {
    let _ = std::fs::remove_file(path);
    let cfg = BootstrapCacheConfig::empty().with_cache_path(path);
    {
        let mut g = SCHED.lock().unwrap();
        g.at_point = vec![None; roles.len()];
        g.finished = vec![false; roles.len()];
        g.granted = None;
        g.active = true;
    }
    let reader_results: Mutex<Vec<String>> = Mutex::new(vec![]);
    let mut trace: Vec<String> = vec![];
    let mut violated: Option<String> = None;
    let mut committed_once = false;
    std::thread::scope(|sc| {
        for (tid, role) in roles.iter().enumerate() {
            let cfg = cfg.clone();
            let rr = &reader_results;
            let role = *role;
            sc.spawn(move || {
                // build the store outside control (create_dir_all etc. are not part of the flush)
                let mut store = BootstrapCacheStore::new(cfg.clone()).expect("store");
                store.add_addr(addr(tid as u8 + 1, 1000 + tid as u16));
                store.add_addr(addr(tid as u8 + 1, 2000 + tid as u16));
                CONTROLLED.with(|c| c.set(Some(tid)));
                match role {
                    Role::Writer => {
                        let _ = store.sync_and_flush_to_disk(true);
                    }
                    Role::Reader => {
                        let r = BootstrapCacheStore::load_cache_data(&cfg);
                        rr.lock().unwrap().push(match r {
                            Ok(d) => format!("ok:{}", d.peers.len()),
                            Err(e) => format!("{e:?}"),
                        });
                    }
                }
                CONTROLLED.with(|c| c.set(None));
                let mut g = SCHED.lock().unwrap();
                g.finished[tid] = true;
                CV.notify_all();
            });
        }
        // the scheduler runs on this thread
        let mut last: Option<usize> = None;
        loop {
            let enabled: Vec<(usize, String)> = {
                let mut g = SCHED.lock().unwrap();
                loop {
                    let settled = (0..roles.len()).all(|t| g.finished[t] || g.at_point[t].is_some());
                    if settled && g.granted.is_none() {
                        break;
                    }
                    g = CV.wait(g).unwrap();
                }
                (0..roles.len()).filter(|t| !g.finished[*t]).map(|t| (t, g.at_point[t].clone().unwrap())).collect()
            };
            // invariant between any two file-system calls: the cache file loads, or does not exist yet
            match BootstrapCacheStore::load_cache_data(&cfg) {
                Ok(_) => committed_once = true,
                Err(e) => {
                    let txt = format!("{e:?}");
                    let not_found = txt.contains("NotFound") || txt.contains("No such file");
                    if !(not_found && !committed_once) && violated.is_none() {
                        violated = Some(format!("after {trace:?} the cache file does not load: {txt}"));
                    }
                }
            }
            if enabled.is_empty() {
                break;
            }
            // default: keep running the thread that ran last (no preemption); otherwise the lowest id
            let mut order: Vec<(usize, String)> = vec![];
            if let Some(l) = last {
                if let Some(e) = enabled.iter().find(|e| e.0 == l) {
                    order.push(e.clone());
                }
            }
            for e in &enabled {
                if Some(e.0) != last || order.is_empty() {
                    if !order.iter().any(|o| o.0 == e.0) {
                        order.push(e.clone());
                    }
                }
            }
            let k = if order.len() == 1 { 0 } else { ch.choose(order.len(), "fs-call") };
            let (tid, call) = order[k].clone();
            calls_seen.lock().unwrap().insert(call.clone());
            trace.push(format!("t{tid}:{call}"));
            last = Some(tid);
            let mut g = SCHED.lock().unwrap();
            g.granted = Some(tid);
            CV.notify_all();
        }
    });
    SCHED.lock().unwrap().active = false;
    run.outcome(format!("{:?}", std::fs::read_to_string(path).map(|s| s.len())).as_bytes());
    if let Some(v) = violated {
        run.violation("file-always-loads", "interleaved-flushers", v, serde_json::json!({"engine":"fs-interleaving","choices": ch.choices(), "trace": trace}));
    }
    for r in reader_results.lock().unwrap().iter() {
        if !r.starts_with("ok:") && !(r.contains("NotFound") || r.contains("No such file")) {
            run.violation("file-always-loads", "concurrent-reader", format!("a reader interleaved with the flushers got {r} (trace {trace:?})"), serde_json::json!({"engine":"fs-interleaving","choices": ch.choices(), "trace": trace}));
        }
    }
    // both writers finished: the file holds a loadable cache
    if BootstrapCacheStore::load_cache_data(&cfg).is_err() {
        run.violation("file-always-loads", "final", format!("after all flushers finished the file does not load (trace {trace:?})"), serde_json::json!({"engine":"fs-interleaving","choices": ch.choices()}));
    }
}

fn main() {
    // executions share the process-wide scheduler: one worker
    std::env::set_var("VERIF_JOBS", "1");
    let args: Vec<String> = std::env::args().collect();
    let tier = args.get(1).map(|s| s.as_str());
    let run = Run::new("C18-fs", "model_checking", tier);
    let dir = mc_core::scratch_root().join("c18-fs");
    std::fs::create_dir_all(&dir).unwrap();
    let path = dir.join("cache.json");
    let calls_seen = Mutex::new(std::collections::BTreeSet::new());
    let configs: Vec<(&str, Vec<Role>, usize)> = if run.quick() {
        vec![("2 writers", vec![Role::Writer, Role::Writer], 4), ("2 writers + 1 reader", vec![Role::Writer, Role::Writer, Role::Reader], 2)]
    } else {
        vec![
            ("2 writers", vec![Role::Writer, Role::Writer], 8),
            ("2 writers + 1 reader", vec![Role::Writer, Role::Writer, Role::Reader], 3),
            ("3 writers", vec![Role::Writer, Role::Writer, Role::Writer], 3),
        ]
    };
    let mut summary = vec![];
    for (label, roles, bound) in configs {
        let st = explore(&run, SchedOpts { label: label.to_string(), bound, wall_cap: Some(std::time::Duration::from_secs(run.pick(25, 600))), exec_cap: None }, |ch| one_execution(&run, &path, &roles, ch, &calls_seen));
        summary.push(serde_json::json!({"config": label, "preemption_bound": bound, "schedules": st.executions, "max_points": st.max_points, "capped": st.capped}));
    }
    let calls: Vec<String> = calls_seen.lock().unwrap().iter().cloned().collect();
    let found = run.dump_violations();
    let violations = found.len();
    // machine-readable summary for the C18 check, which embeds it into its own evidence and re-reports the violations
    println!("FS-SUMMARY {}", serde_json::json!({"configs": summary, "calls_intercepted": calls, "points_seen": POINTS_SEEN.load(Ordering::Relaxed), "violations": violations, "found": found}));
    let _ = std::fs::remove_dir_all(&dir);
    if calls.is_empty() {
        eprintln!("no file-system call was intercepted: the interposition does not work in this build");
        std::process::exit(2);
    }
    std::process::exit(if violations > 0 { 1 } else { 0 });
}
