#!/bin/bash
# usage: keep_seeded.sh <worktree> <property id> <name> "<crates touched, space separated>"
# Confirms a sub-agent's mutant in its scratch worktree (demo fails with / passes without, the
# stable baseline tests of the touched crates still pass with it) and files it under /verif/seeded/.
set -u
WT="$1"; ID="$2"; NAME="$3"; CRATES="$4"
export CARGO_NET_OFFLINE=true
cd "$WT" || exit 2
git apply -R --check MUTANT/patch.diff 2>/dev/null || git apply MUTANT/patch.diff || { echo "cannot apply patch"; exit 2; }
echo "== demo WITH the change (must fail)"; bash MUTANT/run_demo.sh > MUTANT/demo_with.log 2>&1; WITH=$?; echo "rc=$WITH"
echo "== baseline tests of touched crates WITH the change"
PKGS=""; for c in $CRATES; do PKGS="$PKGS -p $c"; done
cargo nextest run $PKGS --no-fail-fast --offline --test-threads 8 > MUTANT/tests_with.log 2>&1
python3 - "$WT" <<'PY'
import json,re,sys
wt=sys.argv[1]
stable=set(json.load(open('/root/.vp/BASELINE.json'))['stable_pass'])
log=open(wt+'/MUTANT/tests_with.log').read()
res={}
for m in re.finditer(r'^\s+(PASS|FAIL)\s+\[[^\]]*\]\s+\(\s*\d+/\d+\)\s+(\S+)\s+(\S+)', log, re.M):
    res[f"{m.group(2)}::{m.group(3)}"]=m.group(1)
bad=[k for k,v in res.items() if v=='FAIL' and k in stable]
print("stable tests run:",sum(1 for k in res if k in stable),"failing stable tests:",bad)
open(wt+'/MUTANT/stable_failures.txt','w').write("\n".join(bad))
PY
git apply -R MUTANT/patch.diff
echo "== demo WITHOUT the change (must pass)"; bash MUTANT/run_demo.sh > MUTANT/demo_without.log 2>&1; WITHOUT=$?; echo "rc=$WITHOUT"
git apply MUTANT/patch.diff
if [ "$WITH" != "0" ] && [ "$WITHOUT" = "0" ] && [ ! -s MUTANT/stable_failures.txt ]; then
  D=/verif/seeded/$ID-$NAME; mkdir -p "$D"
  cp MUTANT/patch.diff "$D/patch.diff"
  for f in MUTANT/*; do case "$f" in *patch.diff|*.log|*stable_failures.txt) ;; *) cp -r "$f" "$D/";; esac; done
  echo "KEPT in $D (demo rc with=$WITH without=$WITHOUT)"
else
  echo "NOT KEPT: with=$WITH without=$WITHOUT stable_failures=$(cat MUTANT/stable_failures.txt)"
fi
