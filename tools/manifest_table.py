HOOK_COMMITS = []
ENGINES = [
    {"name": "mc-core::enumerate", "path": "harness/mc-core/src/enumerate.rs", "serves_properties": ["C12", "C13", "C16", "C17"],
     "kind_free_text": "exhaustive bounded input enumeration (odometers, products, subsets, byte mutations) against independent references"},
    {"name": "mc-core::bfs", "path": "harness/mc-core/src/bfs.rs", "serves_properties": ["C06"],
     "kind_free_text": "explicit-state BFS over operation histories; the transition function is the real method (clone mode / replay mode)"},
    {"name": "mc-core::sched", "path": "harness/mc-core/src/sched.rs", "serves_properties": [],
     "kind_free_text": "stateless iteratively deviation-bounded DFS over choice sequences (schedules, fault placements)"},
]
CHECKS = [
    {"id": "C16", "engine": "mc-core::enumerate", "level": "exploration",
     "technique": "exhaustive bounded input enumeration vs independent decimal reference",
     "text": "Every string up to length 5/6 over a 12-character boundary alphabet, a structured family of long decimal strings up to and past the 256-bit range, ~1000 boundary amounts and all ordered pairs of a boundary set are run through the real AttoTokens parser/printer/arithmetic and compared with an independent digit-vector reference; complete within those bounds, silent outside them.",
     "note": "Trusted: the reference in chk-pure/src/refnum.rs; the 256-bit space is covered only through the boundary sets."},
    {"id": "C17", "engine": "mc-core::enumerate", "level": "exploration",
     "technique": "exhaustive bounded input enumeration under catch_unwind with overflow checks on",
     "text": "Each listed parser is called on a completely enumerated boundary family (all lengths, all truncations and single-token/byte mutations of valid inputs, all short strings over marker alphabets, all 65536 ports); a panic or arithmetic overflow in the real code is a violation, and parse(format(x))==x is checked where a formatter exists. Complete within the families, silent outside them.",
     "note": "Trusted: catch_unwind + overflow-checks=on surface every crash; inputs outside the enumerated families (long random text, deep JSON nesting) are not covered."},
    {"id": "C12", "engine": "mc-core::enumerate", "level": "exploration",
     "technique": "exhaustive bounded input enumeration: value pools x codecs, pinned tag table, golden bytes, hostile-byte sweep of every decoder",
     "text": "Every value of per-kind pools and every request/response variant is encoded with the codecs the code uses (rmp for records, the libp2p cbor codec for messages), decoded and compared; prefixes are compared with a tag table pinned in the harness and whole encodings with committed golden bytes; all byte strings <=2, all marker-byte sequences <=3/4 and every truncation / single-byte substitution of the encodings go to all 11 decoders (and the decoded messages are Debug-formatted as the driver does when logging). Complete within pools and bounds.",
     "note": "Trusted: pinned table TAGS in chk-pure/src/c12.rs and golden/C12.json (generated once from the pinned tree); value pools are finite."},
    {"id": "C13", "engine": "mc-core::enumerate", "level": "exploration",
     "technique": "exhaustive enumeration of field-mutation subsets x signature provenance x claimed identity against a construction-aware oracle",
     "text": "All subsets of 10 field mutations (<=3 fields quick, all 1024 thorough) x 4 key variants x 7 signature provenances x 2 claimed identities are verified with the real PaymentQuote code; all proof compositions of <=3/4 entries over 5 entry kinds for 3 nodes; expiry at 10 ages; a 3^4 grid for the history rule. The oracle knows how each case was built, so it is independent of the verification code.",
     "note": "Trusted: libp2p ed25519 signing used to build cases; sub-second timestamp changes are not judged (signature covers whole seconds); the 3600 s edge is bracketed at +-10 s."},
    {"id": "C06", "engine": "mc-core::bfs", "level": "model_checking",
     "technique": "explicit-state BFS over real SignedRegister replicas (clone mode) + exhaustive merge algebra over all sub-registers",
     "text": "The transition function is the real add_op/merge/verified_merge on real replicas; every state reachable within depth 3/4 from 2/3 empty replicas under a 9-op pool (authorised, stranger, forged, oversized, foreign-address) and from replicas pre-filled to 1022..1024 entries is checked against admission, validity-of-reachable-states and convergence invariants; merge laws are checked on all pairs/triples of the 32 sub-registers and delivery-order independence on all permutations with duplication.",
     "note": "Trusted: fixed BLS keys and op pool; state key = set of pool ops per replica (exact: a replica of a fixture is determined by it); depth bound, 2/3 replicas."},
]
_pending = "check not built yet in this session (planned in DESIGN.md §4); not claimed until it runs"
NOT_BUILT = [(f"C{i:02d}", _pending) for i in range(1, 21) if f"C{i:02d}" not in {c["id"] for c in CHECKS}]
